"""C19 — saved solution files read back exactly (platypus/io.py)."""
import functools
import hashlib
import io as _io
import json
import math
import os
import pathlib
import random as _random
import re
import shutil
import struct
import tempfile
from fractions import Fraction

from vlib import common as C

ID = "C19"
PROPS_FILE = "Props/C19.v"
COQ_TARGETS = ["Harness/H19.vo"]
ALLOWED_AXIOMS = []
META = {
    "level_text": "Machine-checked proof (Coq) about a literal tree-level model of platypus/io.py: encoder (Solution/Archive/FixedLengthArray/"
                  "Direction/Constraint/Algorithm), json's bottom-up object_hook with the repaired placeholder/rebuild/re-attach logic, "
                  "FixedLengthArray slice assignment, recomputation of violation/feasibility, and the objectives line format. Theorems: "
                  "load_json(save_json x) returns the same variables/objectives/constraints in order for lists, archives and live algorithms "
                  "(all lengths, every JSON-native variable encoding, with/without a supplied problem), attached to the problem used on load, with "
                  "violation = sum|c_i(x_i)| of THAT problem's declarations and feasible = (violation == 0) <=> every declared relation holds; for an "
                  "algorithm file the rebuilt problem has the saved shape, directions and constraints; objectives text round trip; the pre-repair "
                  "decoder is refuted on a concrete algorithm. The model is tied to /repo on every run through the REAL save_json/load_json/dump/load/"
                  "save_objectives/load_objectives on temporary files (encoder tree, decoder result and composite compared in Coq by vm_compute, floats as "
                  "bit patterns) and an independent oracle of the property statement on the real code.",
    "level_note": "ASSUMED, not proved (hypotheses RT/ORT of the theorems): CPython's float printing/parsing round trip (json: float.__repr__/'Infinity' "
                  "+ float()/parse_constant; objectives file: str + float) for every non-NaN float, and that json's character level (scanner, string "
                  "escapes, indent, decimal ints) and ' '.join/split reproduce the tree / token lines; these are backed only by the float sweep (a test) "
                  "and by the correspondence through real files. Constraint(op string) -> (operator, threshold) is a parameter of the model (C11's "
                  "subject); the correspondence reads it off the real Constraint objects. Violations are modelled in exact arithmetic: zero-ness/"
                  "feasibility is compared on every case, the magnitude only where the float computation is exact (driver-checked with Fractions). "
                  "objectives_roundtrip needs >= 1 objective (with zero objectives every line is blank and is skipped; proved as a separate lemma); "
                  "the blank-line branch is modelled but not tied (files written by save_objectives contain none). Constraints declared by a FUNCTION are modelled as a parameter cfun (arbitrary in the theorems; the correspondence uses six test shapes x-t, t-x, -|x|, x, min(0,x), max(0,x-t)); they can be used or supplied on load, but an algorithm whose problem declares one cannot be written (TypeError, proved as c19_algorithm_callable_raises; such algorithm files are rejected configurations of the driver). NaN, "
                  "infinite thresholds and non-JSON-native variables are outside the property. No axioms (all theorems closed under the global context).",
    "technique": "Coq proof over an abstract JSON tree model + correspondence through real files (vm_compute) + independent oracle + float sweep",
}

INF = math.inf


# ----------------------------------------------------------------------------
# floats
# ----------------------------------------------------------------------------
def bits(x):
    return struct.unpack("<Q", struct.pack("<d", x))[0]


def from_bits(b):
    return struct.unpack("<d", struct.pack("<Q", b))[0]


SPECIALS = [0.0, -0.0, INF, -INF, 5e-324, -5e-324, 2.225073858507201e-308, 2.2250738585072014e-308, 1.7976931348623157e308,
            -1.7976931348623157e308, 1.0, -1.0, 0.1, 0.2, 0.30000000000000004, 1 / 3, 1e16, 1e15, 9007199254740992.0, 9007199254740994.0,
            1e22, 1e23, 9.999999999999999e22, 1e-7, 1e-5, 0.0001, 123456.789, 2.5e-324 * 2, 4.9e-324, 1e300, 1e-300, 0.5, 0.25,
            5e-5, 9.5e-5, 1e21, 1e-4, 1.5, 2.0 ** 62, 2.0 ** 63, 2.0 ** 64, 2.0 ** -1022, 2.0 ** -1074, 2.0 ** 1023]


def gen_float(rng):
    """non-NaN binary64 from all classes"""
    k = rng.random()
    if k < 0.22:
        x = rng.choice(SPECIALS)
    elif k < 0.45:                                   # random bit pattern
        while True:
            x = from_bits(rng.getrandbits(64))
            if x == x:
                break
    elif k < 0.65:                                   # uniform exponent, random mantissa
        e = rng.randrange(0, 2047)
        x = from_bits((rng.getrandbits(1) << 63) | (e << 52) | rng.getrandbits(52))
    elif k < 0.75:                                   # subnormals
        x = from_bits((rng.getrandbits(1) << 63) | rng.getrandbits(rng.randrange(1, 53)))
    elif k < 0.85:                                   # short decimals
        x = round(rng.uniform(-1000, 1000), rng.randrange(0, 6))
    else:                                            # neighbours
        x = math.nextafter(rng.choice(SPECIALS), rng.choice([INF, -INF]))
    if x != x:
        x = 1.0
    return x


def fhex(x):
    return float(x).hex() if isinstance(x, float) else repr(x)


# ----------------------------------------------------------------------------
# deep exact comparison (type, bit pattern, order)
# ----------------------------------------------------------------------------
def deep_same(a, b):
    if type(a) is not type(b):
        return False
    if isinstance(a, float):
        return bits(a) == bits(b)
    if isinstance(a, (list, tuple)):
        return len(a) == len(b) and all(deep_same(x, y) for x, y in zip(a, b))
    return a == b


def arr(fla):
    return [fla[i] for i in range(len(fla))]


def describe(v):
    if isinstance(v, float):
        return v.hex()
    if isinstance(v, (list, tuple)):
        return [describe(x) for x in v]
    return v


# ----------------------------------------------------------------------------
# Coq literals
# ----------------------------------------------------------------------------
def cstr(s):
    """Coq string literal; printable-ASCII strings without '"' are written raw, anything else as "~x<hex of utf-8>" (injective)."""
    if all(32 <= ord(ch) <= 126 and ch != '"' for ch in s) and not s.startswith("~x"):
        return '"%s"%%string' % s
    return '"~x%s"%%string' % s.encode("utf-8", "surrogatepass").hex()


class Pairs(list):
    """a JSON object as its list of (key, value) pairs in document order"""


def jlit(v):
    if v is None:
        return "JNull"
    if isinstance(v, bool):
        return "(JBool %s)" % C.bool_lit(v)
    if isinstance(v, int):
        return "(JInt %s)" % C.z_lit(v)
    if isinstance(v, float):
        if v != v:
            raise ValueError("NaN outside the property")
        return "(JNum %d)" % bits(v)
    if isinstance(v, str):
        return "(JStr %s)" % cstr(v)
    if isinstance(v, Pairs):
        return "(JObj %s)" % C.list_lit(["(%s, %s)" % (cstr(k), jlit(x)) for k, x in v])
    if isinstance(v, (list, tuple)):
        return "(JArr %s)" % C.list_lit([jlit(x) for x in v])
    raise TypeError("not JSON-native: %r" % (v,))


def jlist(vs):
    return C.list_lit([jlit(x) for x in vs])


def optstr_lit(s):
    return "None" if s is None else "(Some %s)" % cstr(s)


def dir_lit(d):
    from platypus import Direction
    return "Maximize" if d == Direction.MAXIMIZE else "Minimize"


# test callables for Constraint(function): (shape, t) as JsonModel.js_shape; key = shape + 8 * index of t
FN_T = [0.0, 0.25, 0.5, -1.0, 1 / 3, 1234567.0, 0.1]
FN_SHAPES = 6


def _mk_fn(shape, t):
    if shape == 0:
        def f(x):
            return x - t
    elif shape == 1:
        def f(x):
            return t - x
    elif shape == 2:
        def f(x):
            return -abs(x)
    elif shape == 3:
        def f(x):
            return x
    elif shape == 4:
        def f(x):
            return min(0.0, x)
    else:
        def f(x):
            return max(0.0, x - t)
    f.__name__ = "fn%d_%d" % (shape, FN_T.index(t))
    f.c19 = (shape + 8 * FN_T.index(t), shape, t)
    return f


FNS = [_mk_fn(sh, t) for t in FN_T for sh in range(FN_SHAPES)]


def is_callable_decl(c):
    return not isinstance(c.op, str)


def decl_lit(c):
    return "(DFun %d)" % c.function.c19[0] if is_callable_decl(c) else "(DOp %s)" % cstr(c.op)


def decl_text(c):
    return c.op if isinstance(c.op, str) else "<function %s>" % getattr(c.function, "__name__", "?")


def problem_lit(p, origin):
    return "(mkProblem %s %s %s %s %s %s %s %s %s)" % (
        origin, cstr(type(p).__name__), C.nat_lit(p.nvars), C.nat_lit(p.nobjs), C.nat_lit(p.nconstrs),
        optstr_lit(getattr(p.function, "__name__", None)),
        C.list_lit([optstr_lit(None if t is None else str(t)) for t in arr(p.types)]),
        C.list_lit([dir_lit(d) for d in arr(p.directions)]),
        C.list_lit([decl_lit(c) for c in arr(p.constraints)]))


def sol_lit(s):
    return "(S19 %s %s %s)" % (jlist(arr(s.variables)), jlist(arr(s.objectives)), jlist(arr(s.constraints)))


OPNAME = {"_constraint_eq": "JsEq", "_constraint_leq": "JsLeq", "_constraint_geq": "JsGeq",
          "_constraint_neq": "JsNeq", "_constraint_lt": "JsLt", "_constraint_gt": "JsGt"}


def ctab_entry(op):
    """(operator name, threshold) of the REAL Constraint(op string)"""
    from platypus import Constraint
    c = Constraint(op)
    f = c.function
    assert isinstance(f, functools.partial)
    return OPNAME[f.func.__name__], f.keywords["y"]


def exact_violation(decls, xs):
    """exact value of sum|c_i(x_i)| (Fraction) or None when not finite; own formulas, used only to decide
    whether the float computation was exact so that the magnitude can be compared with the model"""
    tot = Fraction(0)
    delta = Fraction(0.0001)
    for (opn, y), x in zip(decls, xs):
        if isinstance(x, bool) or not isinstance(x, (int, float)) or (isinstance(x, float) and not math.isfinite(x)) or not math.isfinite(y):
            return None
        fx, fy = Fraction(x), Fraction(y)
        d = abs(fx - fy)
        if isinstance(opn, int):          # callable of shape opn with parameter y
            t = [d, d, abs(fx), abs(fx), abs(min(Fraction(0), fx)), max(Fraction(0), fx - fy)][opn]
        elif opn == "JsEq":
            t = d
        elif opn == "JsLeq":
            t = 0 if fx <= fy else d
        elif opn == "JsGeq":
            t = 0 if fx >= fy else d
        elif opn == "JsNeq":
            t = 0 if fx != fy else 1
        elif opn == "JsLt":
            t = 0 if fx < fy else d + delta
        else:
            t = 0 if fx > fy else d + delta
        tot += t
    return tot


# ----------------------------------------------------------------------------
# independent reading of constraint declarations (oracle)
# ----------------------------------------------------------------------------
DECL_RE = re.compile(r"^(==|<=|>=|!=|<|>)\s*(\S+)$")


def relation_holds(decl, x):
    m = DECL_RE.match(decl)
    op, y = m.group(1), float(m.group(2))
    return {"==": x == y, "<=": x <= y, ">=": x >= y, "!=": x != y, "<": x < y, ">": x > y}[op]


# ----------------------------------------------------------------------------
# scenario generation (everything from one seeded rng per scenario, so a scenario is replayable from its seed)
# ----------------------------------------------------------------------------
DECLS = ["==0", "<=0", ">=0", "<0", ">0", "!=0", "<=0.5", ">= -1", "<1e-3", ">1e300", "!=2", "== 0.25", "<=-0.0", ">=5e-324",
         ("<=", 0.5), ("==", 1), (">", 0.1), ("!=", -2.5), "<=1.7976931348623157e308", ">-1e-320"]
STRS = ["a", "b", "c", "", " ", "x y", "Infinity", "NaN", "null", "q\"uote", "back\\slash", "tab\there", "nl\nx", "éß", "中文",
        "\U0001f600", "\x00\x1f", "~xff", "{\"variables\": [], \"objectives\": [], \"constraints\": []}", "MINIMIZE", "\ud800"]


THRESHOLDS = [0.0, 0.5, -1.0, 0.25, 1e-3, 1 / 3, 1234567.0, 1234564, 6.02214076e23, -1234.5678901, 0.1 + 0.2, 5e-324, 1e300, 0.0123456789,
              3, -3, -0.0, 2 ** 60 + 1, 1e-7, 123456789.12345679, math.pi, 1e22, 1e16, 9007199254740993, -5e-324, 1.7976931348623157e308,
              2.5, 10.0, 100000.0, 1000000.0, 0.1, 1e21, 1e-5, 0.30000000000000004, 2.2250738585072014e-308]
OPERATORS = ["==", "<=", ">=", "!=", "<", ">"]
SPELLINGS = ["text", "text-space", "text-spaces", "two-arg", "two-arg-copy", "object-from-text", "copy-of-object"]


def mk_decl(rng, stats=None):
    """a constraint declaration in one of the spellings the library accepts:
    "<=0.5", "<= 0.5", Constraint("<=", 0.5), Constraint objects / copies, predefined constants, the legacy pool"""
    from platypus import Constraint
    k = rng.random()
    if k < 0.1:
        sp = "predefined-constant"
        d = rng.choice([Constraint.EQUALS_ZERO, Constraint.LEQ_ZERO, Constraint.GEQ_ZERO, Constraint.LESS_THAN_ZERO, Constraint.GREATER_THAN_ZERO])
    elif k < 0.25:
        sp = "legacy-pool"
        d = rng.choice(DECLS)
        d = Constraint(d[0], d[1]) if isinstance(d, tuple) else d
    else:
        op = rng.choice(OPERATORS)
        if rng.random() < 0.8:
            t = rng.choice(THRESHOLDS)
        else:
            t = gen_float(rng)
            while not math.isfinite(t):
                t = gen_float(rng)
        sp = rng.choice(SPELLINGS)
        txt = repr(t)
        if sp == "text":
            d = op + txt
        elif sp == "text-space":
            d = op + " " + txt
        elif sp == "text-spaces":
            d = op + "   " + txt
        elif sp == "two-arg":
            d = Constraint(op, t)
        elif sp == "two-arg-copy":
            d = Constraint(Constraint(op, t))
        elif sp == "object-from-text":
            d = Constraint(op + " " + txt)
        else:
            d = Constraint(Constraint(op + txt))
    if stats is not None:
        stats[sp] = stats.get(sp, 0) + 1
    return d


def decl_of(c):
    """(operator, threshold) the in-memory Constraint object really applies"""
    f = c.function
    if is_callable_decl(c):
        return f.c19[1], f.c19[2]        # (shape, t) of a test callable
    assert isinstance(f, functools.partial)
    return OPNAME[f.func.__name__], f.keywords["y"]


def build_ftab(problems):
    """callable key -> (shape, t) for every test callable declared in the given problems"""
    tab = {}
    for p in problems:
        for c in arr(p.constraints):
            if is_callable_decl(c):
                tab[c.function.c19[0]] = (c.function.c19[1], c.function.c19[2])
    return C.list_lit(["(%d, (%d, %s))" % (k, sh, C.xq_lit(t)) for k, (sh, t) in sorted(tab.items())])


def build_tab(declared_problems, loaded_problems):
    """Constraint(op text) -> (operator, threshold) for the model: the DECLARED meaning, read off the in-memory objects
    the caller holds (saved / supplied problems); texts that only occur on the loaded side (the placeholder's "==0") are parsed"""
    tab = {}
    for p in declared_problems:
        for c in arr(p.constraints):
            if isinstance(c.op, str):
                tab.setdefault(c.op, decl_of(c))
    ops = {"==0"}
    for p in loaded_problems:
        ops.update(c.op for c in arr(p.constraints) if isinstance(c.op, str))
    for op in sorted(ops):
        if op not in tab:
            tab[op] = ctab_entry(op)
    return tab


def loaded_literals(loaded, supplied, dist):
    """L19 literals of what the loader returned; the violation magnitude is shipped when the float computation the loader
    really did (with the thresholds its own constraint objects hold) is exact"""
    ls = []
    for b in loaded:
        actual = [decl_of(c) for c in arr(b.problem.constraints)]
        v = b.constraint_violation
        ex = exact_violation(actual, arr(b.constraints))
        if ex is not None and isinstance(v, (int, float)) and math.isfinite(v) and Fraction(v) == ex:
            cv = "(Some (Some %s))" % C.xq_lit(float(v))
            dist["violation_exact"] = dist.get("violation_exact", 0) + 1
        else:
            cv = "None"
            dist["violation_inexact_or_infinite"] = dist.get("violation_inexact_or_infinite", 0) + 1
        ls.append("(L19 %s %s %s %s %s %s %s)" % (
            jlist(arr(b.variables)), jlist(arr(b.objectives)), jlist(arr(b.constraints)),
            C.bool_lit(v == 0.0), cv, C.bool_lit(bool(b.feasible)),
            problem_lit(b.problem, "Supplied" if b.problem is supplied else "Placeholder")))
    return ls


def decl_threshold(c):
    """the float around which a declaration changes its answer"""
    if is_callable_decl(c):
        return c.function.c19[2] if c.function.c19[1] in (0, 1, 5) else 0.0
    return c.function.keywords["y"]


def mk_callable_decl(rng, stats=None):
    from platypus import Constraint
    if stats is not None:
        stats["callable"] = stats.get("callable", 0) + 1
    return Constraint(rng.choice(FNS))


def gen_types(rng, nvars):
    from platypus import Real, Binary, Integer, Permutation, Subset
    kinds = ["real", "binary", "integer", "perm_int", "perm_str", "subset_str", "subset_int", "raw"]
    mode = rng.choice(kinds + ["mixed", "mixed"])
    out = []
    for _ in range(nvars):
        k = rng.choice(kinds) if mode == "mixed" else mode
        if k == "real":
            out.append((k, Real(-5, 5)))
        elif k == "binary":
            out.append((k, Binary(rng.randrange(1, 7))))
        elif k == "integer":
            lo = rng.randrange(-10, 10)
            out.append((k, Integer(lo, lo + rng.randrange(1, 40))))
        elif k == "perm_int":
            out.append((k, Permutation(range(rng.randrange(1, 6)))))
        elif k == "perm_str":
            out.append((k, Permutation(rng.sample(STRS, rng.randrange(1, 5)))))
        elif k == "subset_str":
            el = rng.sample(STRS, rng.randrange(2, 6))
            out.append((k, Subset(el, rng.randrange(1, len(el)))))
        elif k == "subset_int":
            el = list(range(10, 10 + rng.randrange(2, 7)))
            out.append((k, Subset(el, rng.randrange(1, len(el)))))
        else:
            out.append((k, None))            # hand-set JSON-native scalars
    return out


def gen_var(rng, kind, t):
    if kind == "real":
        return gen_float(rng)
    if kind == "binary":
        return [rng.random() < 0.5 for _ in range(t.nbits)]
    if kind == "integer":
        return t.encode(rng.randint(t.min_value, t.max_value))
    if kind in ("perm_int", "perm_str"):
        el = list(t.elements)
        rng.shuffle(el)
        return el
    if kind in ("subset_str", "subset_int"):
        return rng.sample(list(t.elements), t.size)
    return rng.choice([gen_float(rng), rng.randrange(-5, 5), 2 ** 70 + 1, rng.random() < 0.5, rng.choice(STRS), None,
                       [gen_float(rng), rng.randrange(3), rng.choice(STRS)], []])


def gen_constraint_value(rng, c):
    y = decl_threshold(c)
    k = rng.random()
    if k < 0.3:
        return y
    if k < 0.5:
        return math.nextafter(y, rng.choice([INF, -INF]))
    if k < 0.6:
        return rng.choice([0.0, -0.0, INF, -INF])
    if k < 0.65:
        return rng.randrange(-3, 4)            # an int constraint value
    return gen_float(rng)


class _Scenario:
    pass


def _f_two(x):
    return [0.0], [0.0]


def set_violation(s):
    """what Problem.__call__ leaves behind (core.py:194-196), for the hand-built source solutions"""
    s.constraint_violation = sum([abs(f(x)) for (f, x) in zip(arr(s.problem.constraints), arr(s.constraints))])
    s.feasible = s.constraint_violation == 0.0
    s.evaluated = True


def gen_scenario(seed, big=False):
    from platypus import Problem, Solution, Direction
    rng = _random.Random(seed)
    sc = _Scenario()
    sc.seed = seed
    nvars = rng.choice([0, 1, 1, 2, 2, 3, 4]) if not big else rng.randrange(1, 8)
    nobjs = rng.choice([0, 1, 1, 2, 2, 3]) if not big else rng.randrange(1, 6)
    nconstrs = rng.choice([0, 0, 1, 1, 2, 3])
    pk = rng.choice(["plain", "function", "lambda", "subclass"])
    if pk == "function":
        p = Problem(nvars, nobjs, nconstrs, function=_f_two)
    elif pk == "lambda":
        p = Problem(nvars, nobjs, nconstrs, function=lambda x: ([0.0], [0.0]))
    elif pk == "subclass":
        class Tiny(Problem):
            def evaluate(self, solution):
                pass
        p = Tiny(nvars, nobjs, nconstrs)
    else:
        p = Problem(nvars, nobjs, nconstrs)
    types = gen_types(rng, nvars)
    for i, (k, t) in enumerate(types):
        if t is not None:
            p.types[i] = t
    for i in range(nobjs):
        if rng.random() < 0.45:
            p.directions[i] = Direction.MAXIMIZE
    sc.spellings = {}
    sc.callable_src = nconstrs > 0 and rng.random() < 0.2       # the source problem declares constraints by functions
    for i in range(nconstrs):
        if sc.callable_src and (i == 0 or rng.random() < 0.5):
            p.constraints[i] = mk_callable_decl(rng, sc.spellings)
        elif rng.random() < 0.85:
            p.constraints[i] = mk_decl(rng, sc.spellings)
    sc.problem = p
    sc.kinds = sorted(set(k for k, _ in types))
    n = rng.choice([0, 1, 1, 2, 2, 3, 5]) if not big else rng.randrange(1, 40)
    int_objs = rng.random() < 0.15          # some scenarios have int-valued objectives (JSON ints)
    sc.sols = []
    for _ in range(n):
        s = Solution(p)
        for i, (k, t) in enumerate(types):
            s.variables[i] = gen_var(rng, k, t)
        for i in range(nobjs):
            s.objectives[i] = rng.randrange(-4, 5) if int_objs and rng.random() < 0.4 else gen_float(rng)
        for i in range(nconstrs):
            s.constraints[i] = gen_constraint_value(rng, p.constraints[i])
        set_violation(s)
        sc.sols.append(s)
    # a second problem of the same shape with other declarations, to be supplied on load
    q = Problem(nvars, nobjs, nconstrs)
    for i in range(nobjs):
        if rng.random() < 0.5:
            q.directions[i] = Direction.MAXIMIZE
    fn_other = rng.random() < 0.6            # the problem supplied on load declares (some) constraints by functions
    for i in range(nconstrs):
        q.constraints[i] = mk_callable_decl(rng) if fn_other and rng.random() < 0.6 else mk_decl(rng)
    sc.other = q
    sc.indent = rng.choice([None, None, 0, 2, 4])
    sc.api = rng.choice(["path-str", "path-pathlib", "path-bytes", "fileobj"])
    sc.nfe = rng.randrange(0, 100000)
    return sc


def witness_scenario_dc48d2e():
    """algorithm with a maximised objective and '<=0.5': the input on which the pre-repair decoder fails"""
    from platypus import Problem, Solution, Direction, Real
    sc = _Scenario()
    sc.seed = -1
    p = Problem(1, 1, 1, function=_f_two)
    p.types[:] = Real(0, 1)
    p.directions[0] = Direction.MAXIMIZE
    p.constraints[0] = "<=0.5"
    sc.problem = p
    sc.kinds = ["real"]
    sc.sols = []
    for v, o, c in ((0.25, 1.5, 0.25), (0.75, 2.0, 0.75)):
        s = Solution(p)
        s.variables[0], s.objectives[0], s.constraints[0] = v, o, c
        set_violation(s)
        sc.sols.append(s)
    sc.other = Problem(1, 1, 1)
    sc.other.constraints[0] = ">=0.5"
    sc.indent, sc.api, sc.nfe = None, "path-str", 8
    return sc


def get_scenario(seed, big=False):
    return witness_scenario_dc48d2e() if seed == -1 else gen_scenario(seed, big)


# ----------------------------------------------------------------------------
# running the real code
# ----------------------------------------------------------------------------
WRITERS = ["list", "archive", "algorithm-list", "algorithm-archive"]
LOADERS = ["none", "same", "other"]


def make_saved(sc, writer):
    """object handed to save_json and the list of source solutions in the order the property speaks about"""
    from platypus import Archive, Algorithm
    if writer == "list":
        return list(sc.sols), list(sc.sols)
    if writer == "archive":
        a = Archive()
        for s in sc.sols:
            try:
                a.add(s)
            except TypeError:      # objectives that Python cannot order (not the case for numbers)
                pass
        return a, list(a)

    class Stub(Algorithm):
        def step(self):
            pass
    alg = Stub(sc.problem)
    alg.nfe = sc.nfe
    if writer == "algorithm-list":
        alg.result = list(sc.sols)
    else:
        a = Archive()
        for s in sc.sols:
            a.add(s)
        alg.result = a
    return alg, list(alg.result)


def do_save_load(tmp, name, obj, supplied, indent, api):
    from platypus.io import save_json, load_json, dump, load
    path = os.path.join(tmp, name)
    if api == "fileobj":
        with open(path, "w") as f:
            dump(obj, f, indent=indent)
        with open(path, "r") as f:
            text = f.read()
        with open(path, "r") as f:
            loaded = load(f, problem=supplied)
    else:
        pp = {"path-str": path, "path-pathlib": pathlib.Path(path), "path-bytes": os.fsencode(path)}[api]
        save_json(pp, obj, indent=indent)
        with open(path, "r") as f:
            text = f.read()
        loaded = load_json(pp, problem=supplied)
    return text, loaded


def parse_plain(text):
    return json.loads(text, object_pairs_hook=Pairs)


# ----------------------------------------------------------------------------
# oracle: the property statement on the real objects
# ----------------------------------------------------------------------------
def restored_threshold_problem(p, sp):
    """None, or what is wrong with the thresholds of the restored constraints of p w.r.t. the declared ones of sp:
    the value parsed back from the restored constraint's op text, and the value its function applies, must be the declared float"""
    for i, (c1, c2) in enumerate(zip(arr(p.constraints), arr(sp.constraints))):
        if not (isinstance(c1.op, str) and isinstance(c2.op, str)):
            continue
        want = decl_threshold(c2)
        m = DECL_RE.match(c1.op)
        if not m:
            return "restored constraint %d has op text %r" % (i, c1.op)
        try:
            got_text = float(m.group(2))
        except ValueError:
            return "restored constraint %d has op text %r" % (i, c1.op)
        got_fn = decl_threshold(c1)
        if bits(got_text) != bits(want) or bits(got_fn) != bits(want):
            return "constraint %d declared %s with threshold %s (%r): restored op text %r parses to %s, restored function applies %s" % (
                i, m.group(1), want.hex(), want, c1.op, got_text.hex(), got_fn.hex())
    return None


def oracle_json(ctx, src, saved_problem, is_algorithm, supplied, loaded, replay, tag):
    """src: the solutions written, in order.  Returns True when nothing was reported."""
    ok = True

    def bad(key, what):
        nonlocal ok
        ok = False
        ctx.violation(key, "%s [%s]" % (what, tag), replay)

    if not isinstance(loaded, list):
        bad("json:load-did-not-return-list", "load_json returned %r" % type(loaded).__name__)
        return False
    if len(loaded) != len(src):
        bad("json:solution-count", "wrote %d solutions, read back %d" % (len(src), len(loaded)))
        return False
    for i, (a, b) in enumerate(zip(src, loaded)):
        for field in ("variables", "objectives", "constraints"):
            va, vb = arr(getattr(a, field)), arr(getattr(b, field))
            if not deep_same(va, vb):
                bad("json:%s-not-reproduced" % field, "solution %d %s written %r read back %r" % (i, field, describe(va), describe(vb)))
    if not ok:
        return False
    # the problem the solutions are attached to
    probs = [s.problem for s in loaded]
    if supplied is not None:
        if any(p is not supplied for p in probs):
            bad("json:supplied-problem-not-used", "a loaded solution is not attached to the problem given to load_json")
            return False
    elif probs:
        if any(p is not probs[0] for p in probs):
            bad("json:solutions-not-on-one-problem", "loaded solutions are attached to different problem objects")
            return False
        p = probs[0]
        if is_algorithm:
            sp = saved_problem
            if (p.nvars, p.nobjs, p.nconstrs) != (sp.nvars, sp.nobjs, sp.nconstrs):
                bad("json:algorithm-problem-shape-not-restored", "saved shape %r, loaded %r" % ((sp.nvars, sp.nobjs, sp.nconstrs), (p.nvars, p.nobjs, p.nconstrs)))
            elif arr(p.directions) != arr(sp.directions):
                bad("json:algorithm-directions-not-restored", "saved directions %r, loaded %r" % ([d.name for d in arr(sp.directions)], [getattr(d, "name", d) for d in arr(p.directions)]))
            elif restored_threshold_problem(p, sp):
                bad("json:algorithm-constraint-threshold-not-restored", restored_threshold_problem(p, sp))
            elif [c.op for c in arr(p.constraints)] != [c.op for c in arr(sp.constraints)]:
                bad("json:algorithm-constraints-not-restored", "saved constraints %r, loaded %r" % ([c.op for c in arr(sp.constraints)], [c.op for c in arr(p.constraints)]))
            else:
                for c1, c2 in zip(arr(p.constraints), arr(sp.constraints)):
                    for x in (0.0, -1.0, 0.25, 0.5, 0.75, 1e300, -INF, INF, decl_threshold(c2)):
                        if not deep_same(c1(x), c2(x)):
                            bad("json:algorithm-constraints-not-restored", "restored constraint %r behaves differently at %r" % (c1.op, x))
        else:
            a0 = src[0]
            shp = (len(a0.variables), len(a0.objectives), len(a0.constraints))
            if (p.nvars, p.nobjs, p.nconstrs) != shp:
                bad("json:placeholder-shape", "placeholder problem has shape %r for solutions of shape %r" % ((p.nvars, p.nobjs, p.nconstrs), shp))
    if not ok:
        return False
    # the declarations in force on load are those of the ORIGINAL in-memory problem (algorithm file read without a problem: they are
    # restored; or the original problem itself was supplied): every solution must get exactly the violation / feasibility it had
    if loaded and ((supplied is None and is_algorithm) or (supplied is not None and supplied is saved_problem)):
        for i, (a, b) in enumerate(zip(src, loaded)):
            if not (hasattr(a, "feasible") and isinstance(a.constraint_violation, (int, float))):
                continue
            va, vb = a.constraint_violation, b.constraint_violation
            if not (isinstance(vb, (int, float)) and bits(float(va)) == bits(float(vb))):
                bad("json:violation-differs-from-original-problem", "solution %d constraints %r: the in-memory problem %r gave constraint_violation=%r, "
                    "after load (declarations %r) it is %r" % (i, describe(arr(a.constraints)), [(decl_text(c), float(decl_threshold(c)).hex()) for c in arr(saved_problem.constraints)],
                                                              describe(va), [decl_text(c) for c in arr(b.problem.constraints)], describe(vb)))
            elif bool(a.feasible) != bool(getattr(b, "feasible", None)):
                bad("json:feasible-differs-from-original-problem", "solution %d: feasible was %r, after load %r" % (i, a.feasible, getattr(b, "feasible", None)))
        if not ok:
            return False
    # violation / feasibility consistent with the declarations of the problem used on load
    for i, b in enumerate(loaded):
        decls = arr(b.problem.constraints)
        xs = arr(b.constraints)
        # total violation = sum of |c_i(x_i)| over the declarations; the order/compensation of the float summation is not
        # part of the property (CPython 3.12's sum() is compensated), so the magnitude is checked against the EXACT sum of
        # the float terms up to 4 ulp, zero-ness and infinity exactly
        terms = [abs(c(x)) for c, x in zip(decls, xs)]
        v = b.constraint_violation
        good = isinstance(v, (int, float)) and not isinstance(v, bool)
        if good:
            if any(isinstance(t, float) and math.isinf(t) for t in terms):
                good = v == INF
                exp = INF
            else:
                exp = sum(Fraction(t) for t in terms) if terms else Fraction(0)
                if exp >= Fraction(1.7976931348623157e308):        # the float sum may overflow
                    good = v == INF or (math.isfinite(v) and abs(Fraction(v) - exp) <= exp / 2 ** 50)
                    exp = INF
                else:
                    good = math.isfinite(v) and abs(Fraction(v) - exp) <= exp / 2 ** 50 and ((v == 0) == (exp == 0))
                    exp = float(exp)
        else:
            exp = "a number"
        if not good:
            bad("json:violation-not-recomputed", "solution %d constraints %r against %r: constraint_violation=%r, declarations give %r" % (
                i, describe(xs), [decl_text(c) for c in decls], describe(v), describe(exp)))
            continue
        if not hasattr(b, "feasible") or b.feasible != (v == 0.0):
            bad("json:feasible-inconsistent-with-violation", "solution %d: feasible=%r but constraint_violation=%r" % (i, getattr(b, "feasible", None), v))
            continue
        if all(math.isfinite(decl_threshold(c)) for c in decls):
            # an operator declaration is satisfied when its relation holds, a function declaration when it returns 0
            holds = all((c(x) == 0) if is_callable_decl(c) else relation_holds(c.op, x) for c, x in zip(decls, xs))
            if b.feasible != holds:
                bad("json:feasible-inconsistent-with-declarations", "solution %d: feasible=%r but declarations %r on %r %s" % (
                    i, b.feasible, [decl_text(c) for c in decls], describe(xs), "are all satisfied" if holds else "are not all satisfied"))
    return ok


def oracle_objectives(ctx, src, supplied, loaded, replay, tag):
    ok = True

    def bad(key, what):
        nonlocal ok
        ok = False
        ctx.violation(key, "%s [%s]" % (what, tag), replay)

    if len(loaded) != len(src):
        bad("objectives:solution-count", "wrote %d objective vectors, read back %d" % (len(src), len(loaded)))
        return False
    for i, (a, b) in enumerate(zip(src, loaded)):
        va, vb = arr(a.objectives), arr(b.objectives)
        if not deep_same(va, vb):
            bad("objectives:not-reproduced", "solution %d objectives written %r read back %r" % (i, describe(va), describe(vb)))
    if supplied is not None and any(b.problem is not supplied for b in loaded):
        bad("objectives:supplied-problem-not-used", "a loaded solution is not attached to the problem given to load_objectives")
    return ok


# ----------------------------------------------------------------------------
# one JSON case: run, oracle, Coq literal
# ----------------------------------------------------------------------------
def run_json_case(ctx, tmp, sc, writer, loader, big, dist, want_lit=True):
    replay = {"kind": "json", "scenario_seed": sc.seed, "big": big, "writer": writer, "loader": loader}
    tag = "scenario seed=%d writer=%s loader=%s api=%s indent=%r" % (sc.seed, writer, loader, sc.api, sc.indent)
    supplied = {"none": None, "same": sc.problem, "other": sc.other}[loader]
    if writer.startswith("algorithm") and getattr(sc, "callable_src", False):
        # a callable declaration has no text: the encoder cannot write such an algorithm (TypeError, modelled as Err EType);
        # the property speaks about restoring declarations, which is impossible for a function - rejected configuration
        k = "rejected: algorithm whose problem declares a constraint by a function (save raises TypeError)"
        dist[k] = dist.get(k, 0) + 1
        return None
    try:
        obj, src = make_saved(sc, writer)
    except Exception as e:      # building the inputs failed: not a statement about io.py
        dist["rejected"] = dist.get("rejected", 0) + 1
        return None
    ctx.count()
    try:
        text, loaded = do_save_load(tmp, "c.json", obj, supplied, sc.indent, sc.api)
    except Exception as e:
        ctx.violation("json:save-or-load-raises", "%s: %r [%s]" % (type(e).__name__, e, tag), replay)
        return None
    is_alg = writer.startswith("algorithm")
    ok = oracle_json(ctx, src, sc.problem, is_alg, supplied, loaded, replay, tag)
    dist["writer"][writer] = dist["writer"].get(writer, 0) + 1
    dist["loader"][loader] = dist["loader"].get(loader, 0) + 1
    dist["n_solutions"][min(len(src), 6)] = dist["n_solutions"].get(min(len(src), 6), 0) + 1
    for k in sc.kinds:
        dist["variable_kinds"][k] = dist["variable_kinds"].get(k, 0) + 1
    if writer == "list" and loader == "none":
        for sp, n in getattr(sc, "spellings", {}).items():
            dist["constraint_spellings"][sp] = dist["constraint_spellings"].get(sp, 0) + n
    maxed = any(d.name == "MAXIMIZE" for d in arr(sc.problem.directions))
    if src and (maxed or sc.problem.nconstrs or set(sc.kinds) - {"real"} or any(len(repr(v)) > 12 for s in src for v in arr(s.objectives) if isinstance(v, float))):
        ctx.mark(hashlib.sha1((text + "|" + loader).encode("utf-8", "surrogatepass")).hexdigest())
    if not want_lit or not isinstance(loaded, list):
        return None
    # ---- Coq literal ----
    if is_alg:
        saved = "(SvAlgorithm Z (mkAlgo Z %s %s %s %s))" % (cstr(type(obj).__name__), C.z_lit(obj.nfe), problem_lit(obj.problem, "Supplied"),
                                                         C.list_lit([sol_lit(s) for s in src]))
    else:
        saved = "(%s Z %s)" % ("SvList" if writer == "list" else "SvArchive", C.list_lit([sol_lit(s) for s in src]))
    sup = "None" if supplied is None else "(Some %s)" % problem_lit(supplied, "Supplied")
    try:
        tab = build_tab([sc.problem, sc.other], [x.problem for x in loaded if hasattr(x, "problem")])
        ctab = C.list_lit(["(%s, (%s, %s))" % (cstr(op), opn, C.xq_lit(y)) for op, (opn, y) in tab.items()])
        file_lit = jlit(parse_plain(text))
        ls = loaded_literals(loaded, supplied, dist)
    except Exception:
        return None        # something that cannot be abstracted came back; the oracle has already spoken
    oneprob = all(b.problem is loaded[0].problem for b in loaded)
    ftab = build_ftab([sc.problem, sc.other])
    return "(K19 %s %s %s %s %s %s %s)" % (saved, sup, ctab, ftab, file_lit, C.list_lit(ls), C.bool_lit(oneprob))


def run_objectives_case(ctx, tmp, sc, loader, dist, big):
    from platypus.io import save_objectives, load_objectives
    replay = {"kind": "objectives", "scenario_seed": sc.seed, "big": big, "loader": loader}
    tag = "scenario seed=%d objectives file loader=%s" % (sc.seed, loader)
    src = [s for s in sc.sols]
    if sc.problem.nobjs < 1 or any(not isinstance(v, float) for s in src for v in arr(s.objectives)):
        dist["objectives_rejected(no objectives or int objective)"] = dist.get("objectives_rejected(no objectives or int objective)", 0) + 1
        return None
    supplied = {"none": None, "same": sc.problem, "other": sc.other}[loader]
    path = os.path.join(tmp, "o.txt")
    pp = {"path-str": path, "path-pathlib": pathlib.Path(path), "path-bytes": os.fsencode(path), "fileobj": path}[sc.api]
    ctx.count()
    try:
        save_objectives(pp, src)
        with open(path, "r") as f:
            text = f.read()
        loaded = load_objectives(pp, problem=supplied)
    except Exception as e:
        ctx.violation("objectives:save-or-load-raises", "%s: %r [%s]" % (type(e).__name__, e, tag), replay)
        return None
    oracle_objectives(ctx, src, supplied, loaded, replay, tag)
    dist["objectives_cases"] = dist.get("objectives_cases", 0) + 1
    if src:
        ctx.mark(hashlib.sha1(("obj|" + text + "|" + loader).encode()).hexdigest())
    try:
        lines = text.split("\n")
        assert lines[-1] == ""
        lines = [[bits(float(t)) for t in ln.split()] for ln in lines[:-1]]
        lo = C.list_lit(["(%s, %s)" % (problem_lit(b.problem, "Supplied" if b.problem is supplied else "Placeholder"), jlist(arr(b.objectives))) for b in loaded])
    except Exception:
        return None
    return "(KO19 %s %s %s %s)" % (
        C.list_lit([C.list_lit(["%d" % bits(v) for v in arr(s.objectives)]) for s in src]),
        "None" if supplied is None else "(Some %s)" % problem_lit(supplied, "Supplied"),
        C.list_lit([C.list_lit(["%d" % t for t in ln]) for ln in lines]), lo)


# ----------------------------------------------------------------------------
# live algorithms (tiny real runs)
# ----------------------------------------------------------------------------
def live_algorithms(seed):
    """yields (name, algorithm) after a few evaluations; everything derives from seed"""
    from platypus import (Problem, Real, Binary, Integer, Permutation, Subset, Direction, NSGAII, GeneticAlgorithm, SPEA2)
    from platypus.algorithms import EpsMOEA
    rng = _random.Random(seed)

    def f_real(x):
        return [x[0] ** 2 + x[1], (x[0] - 2) ** 2 - x[1]], [x[0] + x[1], x[0] - x[1]]

    def f_bits(x):
        return [sum(x[0]), len(x[0]) - sum(x[0]) + 0.5], [sum(x[0]) - 2]

    def f_int(x):
        return [float(x[0] + x[1])], [x[0] - x[1]]

    def f_perm(x):
        return [float(sum(i * v for i, v in enumerate(x[0])))]

    def f_sub(x):
        return [float(len("".join(x[0])))], [len(x[0]) - 1.5]

    out = []
    p = Problem(2, 2, 2, function=f_real)
    p.types[:] = [Real(-3, 3), Real(0, 7)]
    p.directions[1] = Direction.MAXIMIZE
    p.constraints[:] = ["<=0.5", ">= -1"]
    out.append(("NSGAII/real/function", NSGAII, p, {"population_size": 6}))
    out.append(("SPEA2/real/function", SPEA2, p, {"population_size": 6}))
    out.append(("EpsMOEA/real/function", EpsMOEA, p, {"population_size": 6, "epsilons": [0.05]}))
    p = Problem(1, 2, 1, function=f_bits)
    p.types[:] = Binary(5)
    p.directions[0] = Direction.MAXIMIZE
    p.constraints[:] = ">0"
    out.append(("NSGAII/binary/function", NSGAII, p, {"population_size": 6}))
    p = Problem(2, 1, 1, function=f_int)
    p.types[:] = [Integer(-4, 11), Integer(0, 5)]
    p.directions[0] = Direction.MAXIMIZE
    p.constraints[:] = "!=0"
    out.append(("GeneticAlgorithm/integer/function", GeneticAlgorithm, p, {"population_size": 6}))
    p = Problem(1, 1, 0, function=f_perm)
    p.types[:] = Permutation(range(5))
    out.append(("GeneticAlgorithm/permutation/function", GeneticAlgorithm, p, {"population_size": 6}))
    p = Problem(1, 1, 1, function=f_sub)
    p.types[:] = Subset(["a", "bb", "é", "q\"", "x y"], 2)
    p.constraints[:] = "<1e-3"
    out.append(("NSGAII/subset-of-strings/function", NSGAII, p, {"population_size": 6}))

    class Sub(Problem):
        def __init__(self):
            super().__init__(2, 2, 1)
            self.types[:] = Real(0, 1)
            self.directions[:] = [Direction.MAXIMIZE, Direction.MINIMIZE]
            self.constraints[:] = "<=0.5"

        def evaluate(self, solution):
            x = solution.variables[:]
            solution.objectives[:] = [x[0] / 3, x[1] * 1e-300]
            solution.constraints[:] = [x[0] * x[1]]
    out.append(("NSGAII/real/subclass", NSGAII, Sub(), {"population_size": 6}))
    # random declarations in every spelling; the function returns constraint values AT the declared thresholds and their float neighbours
    for cls, nm in ((NSGAII, "NSGAII"), (EpsMOEA, "EpsMOEA"), (NSGAII, "NSGAII"), (SPEA2, "SPEA2")):
        nc = rng.randrange(1, 4)
        stats = {}
        decls = [mk_decl(rng, stats) for _ in range(nc)]
        p = Problem(2, 2, nc, function=None)
        p.types[:] = Real(0, 1)
        p.directions[rng.randrange(2)] = Direction.MAXIMIZE
        for i, d in enumerate(decls):
            p.constraints[i] = d
        pools = []
        for c in arr(p.constraints):
            y = decl_threshold(c)
            pools.append([y, math.nextafter(y, INF), math.nextafter(y, -INF), y, y + 1.0, y - 1.0, -y, 0.0, gen_float(rng), gen_float(rng)])

        def f_pool(x, pools=pools):
            k = int(x[0] * 1e6) + 7 * int(x[1] * 1e6)
            return [x[0], x[1] * x[1]], [pl[(k + 3 * i) % len(pl)] for i, pl in enumerate(pools)]
        p.function = f_pool
        kw = {"population_size": 8}
        if cls is EpsMOEA:
            kw["epsilons"] = [0.05]
        out.append(("%s/real/function+declared-thresholds(%s)" % (nm, ",".join(sorted(stats))), cls, p, kw))
    res = []
    for name, cls, prob, kw in out:
        _random.seed(rng.getrandbits(32))
        alg = cls(prob, **kw)
        alg.run(rng.choice([6, 12, 20]))
        res.append((name, alg))
    return res


def run_live(ctx, tmp, seed, dist, lits):
    from platypus import Problem, Direction
    for name, alg in live_algorithms(seed):
        src = list(alg.result)
        for loader in ("none", "same", "other"):
            sc = _Scenario()
            sc.seed, sc.problem, sc.sols, sc.kinds = seed, alg.problem, src, [name.split("/")[1]]
            q = Problem(alg.problem.nvars, alg.problem.nobjs, alg.problem.nconstrs)
            q.constraints[:] = ">=0.125"
            lrng = _random.Random(seed * 31 + len(name))
            for i in range(q.nconstrs):          # the problem supplied on load declares constraints by functions (signed values)
                if i % 2 == 0 or lrng.random() < 0.5:
                    q.constraints[i] = mk_callable_decl(lrng)
            q.directions[:] = Direction.MINIMIZE
            sc.other, sc.indent, sc.api, sc.nfe = q, None, "path-str", alg.nfe
            supplied = {"none": None, "same": sc.problem, "other": sc.other}[loader]
            replay = {"kind": "live", "seed": seed, "name": name, "loader": loader}
            tag = "live %s seed=%d loader=%s result=%s" % (name, seed, loader, type(alg.result).__name__)
            ctx.count()
            try:
                text, loaded = do_save_load(tmp, "live.json", alg, supplied, None, "path-str")
            except Exception as e:
                ctx.violation("json:save-or-load-raises", "%s: %r [%s]" % (type(e).__name__, e, tag), replay)
                continue
            oracle_json(ctx, src, alg.problem, True, supplied, loaded, replay, tag)
            dist["live"][name.split("(")[0]] = dist["live"].get(name.split("(")[0], 0) + 1
            if "(" in name and loader == "none":
                for sp in name.split("(")[1].rstrip(")").split(","):
                    dist["constraint_spellings"][sp] = dist["constraint_spellings"].get(sp, 0) + 1
            ctx.mark(hashlib.sha1((text + "|" + loader).encode("utf-8", "surrogatepass")).hexdigest())
            # Coq literal through the same path as the synthetic cases
            lit = live_literal(ctx, alg, src, supplied, sc, text, loaded, dist)
            if lit:
                lits.append(lit)


def live_literal(ctx, alg, src, supplied, sc, text, loaded, dist):
    try:
        saved = "(SvAlgorithm Z (mkAlgo Z %s %s %s %s))" % (cstr(type(alg).__name__), C.z_lit(alg.nfe), problem_lit(alg.problem, "Supplied"),
                                                         C.list_lit([sol_lit(s) for s in src]))
        sup = "None" if supplied is None else "(Some %s)" % problem_lit(supplied, "Supplied")
        tab = build_tab([sc.problem, sc.other], [x.problem for x in loaded])
        ctab = C.list_lit(["(%s, (%s, %s))" % (cstr(op), opn, C.xq_lit(y)) for op, (opn, y) in tab.items()])
        ls = loaded_literals(loaded, supplied, dist)
        oneprob = all(b.problem is loaded[0].problem for b in loaded)
        ftab = build_ftab([sc.problem, sc.other])
        return "(K19 %s %s %s %s %s %s %s)" % (saved, sup, ctab, ftab, jlit(parse_plain(text)), C.list_lit(ls), C.bool_lit(oneprob))
    except Exception:
        return None


# ----------------------------------------------------------------------------
# float sweep (support for the hypotheses RT / ORT; a test)
# ----------------------------------------------------------------------------
def float_sweep(ctx, n):
    rng = ctx.rng
    classes = {"random-bits": 0, "uniform-exponent": 0, "subnormal": 0, "special+neighbours": 0, "powers-of-two+neighbours": 0, "decimal-boundaries": 0}
    xs = []
    for x in SPECIALS:
        for y in (x, -x, math.nextafter(x, INF), math.nextafter(x, -INF)):
            xs.append(y)
            classes["special+neighbours"] += 1
    for e in range(-1074, 1024):
        p = math.ldexp(1.0, e)
        for y in (p, math.nextafter(p, INF), math.nextafter(p, 0.0), -p):
            xs.append(y)
            classes["powers-of-two+neighbours"] += 1
    for e in range(-323, 309):
        d = float("1e%d" % e)
        for y in (d, math.nextafter(d, INF), math.nextafter(d, 0.0), -d, float("5e%d" % e) if e < 308 else d):
            xs.append(y)
            classes["decimal-boundaries"] += 1
    while len(xs) < n:
        k = rng.random()
        if k < 0.6:
            x = from_bits(rng.getrandbits(64))
            classes["random-bits"] += 1
        elif k < 0.85:
            x = from_bits((rng.getrandbits(1) << 63) | (rng.randrange(0, 2047) << 52) | rng.getrandbits(52))
            classes["uniform-exponent"] += 1
        else:
            x = from_bits((rng.getrandbits(1) << 63) | rng.getrandbits(rng.randrange(1, 53)))
            classes["subnormal"] += 1
        if x == x:
            xs.append(x)
    fails = []
    for i in range(0, len(xs), 5000):
        chunk = xs[i:i + 5000]
        back = json.loads(json.dumps(chunk))
        for x, y in zip(chunk, back):
            if type(y) is not float or bits(x) != bits(y):
                fails.append(("json.dumps/json.loads", x))
        for x in chunk:
            if bits(float(repr(x))) != bits(x):
                fails.append(("repr/float", x))
            if bits(float(str(x))) != bits(x):
                fails.append(("str/float", x))
            t = str(x)
            if not t or t.split() != [t]:
                fails.append(("str(x) is one whitespace-free token", x))
    ctx.count(len(xs))
    ctx.coverage["float_sweep"] = {"floats": len(xs), "classes": classes, "failures": len(fails)}
    ctx.obligation("test:float-sweep(%d non-NaN floats: repr/float, str/float, json dumps/loads; support for hypotheses RT/ORT)" % len(xs),
                   "test", not fails, "; ".join("%s fails on %s" % (w, x.hex()) for w, x in fails[:5]))
    for w, x in fails[:3]:
        ctx.violation("float-sweep:" + w, "CPython %s does not reproduce %s (bits %d)" % (w, x.hex(), bits(x)), {"kind": "float", "bits": bits(x)})


# ----------------------------------------------------------------------------
# run / replay
# ----------------------------------------------------------------------------
PRELUDE = "From Coq Require Import String.\nFrom PV Require Import Model.JsonModel Harness.H19.\n"


def run(ctx):
    rng = ctx.rng
    dist = {"writer": {}, "loader": {}, "n_solutions": {}, "variable_kinds": {}, "live": {}, "constraint_spellings": {}}
    tmp = tempfile.mkdtemp(prefix="c19_")
    lits, olits = [], []
    try:
        seeds = [-1] + [rng.getrandbits(40) for _ in range(ctx.scale(100, 2500))]
        for sd in seeds:
            sc = get_scenario(sd)
            for writer in WRITERS:
                for loader in (LOADERS if sd == -1 or writer != "archive" else [rng.choice(LOADERS)]):
                    lit = run_json_case(ctx, tmp, sc, writer, loader, False, dist)
                    if lit:
                        lits.append(lit)
            for loader in LOADERS:
                ol = run_objectives_case(ctx, tmp, sc, loader, dist, False)
                if ol:
                    olits.append(ol)
        # live algorithms
        for _ in range(ctx.scale(2, 12)):
            run_live(ctx, tmp, rng.getrandbits(32), dist, lits)
        # oracle only: bigger files
        for _ in range(ctx.scale(40, 1500)):
            sd = rng.getrandbits(40)
            sc = get_scenario(sd, big=True)
            run_json_case(ctx, tmp, sc, rng.choice(WRITERS), rng.choice(LOADERS), True, dist, want_lit=False)
            run_objectives_case(ctx, tmp, sc, rng.choice(LOADERS), dist, True)
    finally:
        shutil.rmtree(tmp, ignore_errors=True)
    ctx.coverage["input_distribution"] = dist
    ctx.rule = ("scenario = random problem (0-4 variables of kinds Real/Binary/Integer(Gray bits)/Permutation of ints or strings/Subset/raw JSON scalars, mixed; "
                "0-3 objectives min/max; 0-3 constraint declarations in every spelling ('<=0.5', '<= 0.5', Constraint('<=', 0.5), Constraint objects and copies, predefined constants, and FUNCTIONS returning signed values x-t, t-x, -|x|, x, min(0,x), max(0,x-t) for problems used or supplied on load) over a threshold pool with many-digit / extreme floats and ints) + 0-5 solutions (1-39 in the oracle-only stream) with floats from all "
                "classes (random bit patterns, every exponent, subnormals, +-0.0, +-inf, nextafter neighbours, decimal boundaries; constraint values on/next to "
                "thresholds); each written from list / Archive / algorithm(list result) / algorithm(Archive result) and read with no problem / the same problem / "
                "another problem of that shape, through save_json/load_json (str, pathlib, bytes paths) or dump/load, indent None/0/2/4; objectives files likewise; "
                "live NSGAII/SPEA2/EpsMOEA/GeneticAlgorithm runs on function- and subclass-based problems, incl. problems with random declarations whose function returns constraint values at the declared thresholds and their float neighbours; non-trivial = at least one solution and "
                "(a maximised objective, a constraint, a non-Real variable encoding or a long-repr float); distinct by file text + loader")
    sc0 = next((x for x in (get_scenario(sd) for sd in seeds[1:40]) if len(x.sols) >= 2 and x.problem.nconstrs and x.problem.nvars >= 2), get_scenario(seeds[1]))
    ctx.sample({"scenario_seed": sc0.seed, "problem": {"nvars": sc0.problem.nvars, "nobjs": sc0.problem.nobjs, "nconstrs": sc0.problem.nconstrs,
                                                        "types": [str(t) for t in arr(sc0.problem.types)],
                                                        "directions": [d.name for d in arr(sc0.problem.directions)],
                                                        "constraints": [c.op for c in arr(sc0.problem.constraints)]},
                "solutions": [{"variables": describe(arr(s.variables)), "objectives": describe(arr(s.objectives)),
                               "constraints": describe(arr(s.constraints))} for s in sc0.sols[:3]],
                "written_from": WRITERS, "loaded_with": LOADERS, "api": sc0.api, "indent": sc0.indent})
    if lits:
        ctx.sample({"coq_case": lits[1][:1500] if len(lits) > 1 else lits[0][:1500]})
    if olits:
        ctx.sample({"coq_objectives_case": olits[len(olits) // 2][:800]})
    bad = C.run_coq_cases(ctx, "json", ["Base.Num"], "c19case", "c19_check", lits, shard=150, prelude=PRELUDE)
    if bad is not None:
        detail = ""
        if bad:
            which = C.coq_eval(ctx, "which", ["Base.Num"], ["(c19_encoder_ok k, c19_decoder_ok k, c19_roundtrip_ok k, k_oneprob k)"],
                               prelude=PRELUDE + "Definition k := %s." % lits[bad[0]])[0]
            detail = "model and implementation differ on cases %r; first (encoder_ok, decoder_ok, roundtrip_ok, one_problem)=%s: %s" % (bad[:10], which, lits[bad[0]][:1200])
        ctx.obligation("correspondence:load_json(save_json x)(%d cases; model composite = real composite)" % len(lits), "correspondence", not bad, detail)
        ctx.coverage["correspondence_cases_json"] = len(lits)
        ctx.coverage["correspondence_mismatches_json"] = len(bad)
    # informational: the two halves at tree level (encoder's tree = the real file; model decoder on the real file = real result)
    tlits = lits[::3]
    badt = C.run_coq_cases(ctx, "tree", ["Base.Num"], "c19case", "c19_tree_ok", tlits, shard=150, prelude=PRELUDE)
    if badt is not None:
        ctx.coverage["tree_level_tie(informational)"] = {
            "cases": len(tlits), "encoder_tree_and_decoder_on_real_file_agree": len(tlits) - len(badt), "disagree": len(badt),
            "note": "not an obligation: a file layout change that keeps the round trip does not violate the property"}
        if badt:
            C.log("[C19] note: tree-level tie disagrees on %d cases (first %r) - file layout differs from the modelled one" % (len(badt), badt[:5]))
    bado = C.run_coq_cases(ctx, "objs", ["Base.Num"], "c19ocase", "c19o_check", olits, shard=300, prelude=PRELUDE)
    if bado is not None:
        ctx.obligation("correspondence:save_objectives/load_objectives(%d cases)" % len(olits), "correspondence", not bado,
                       "model and implementation differ on cases %r; first: %s" % (bado[:10], olits[bado[0]][:1200] if bado else ""))
        ctx.coverage["correspondence_cases_objectives"] = len(olits)
        ctx.coverage["correspondence_mismatches_objectives"] = len(bado)
    float_sweep(ctx, ctx.scale(20000, 1000000))
    ctx.assumptions += [
        "CPython float printing/parsing round trip for non-NaN floats (hypotheses RT, ORT) - assumed; float sweep is a test",
        "json character level (scanner, escapes, indent, decimal ints) and ' '.join/split reproduce the modelled tree / token lines - assumed; exercised through real files",
        "Constraint(op string) -> (operator, threshold) taken from the real Constraint objects (property C11 covers the parser)",
        "violation magnitudes: exact-arithmetic model; compared only where the float computation is exact, zero-ness always",
    ]


def replay(ctx, data):
    rp = data.get("replay", {})
    kind = rp.get("kind")
    dist = {"writer": {}, "loader": {}, "n_solutions": {}, "variable_kinds": {}, "live": {}, "constraint_spellings": {}}
    tmp = tempfile.mkdtemp(prefix="c19_")
    try:
        if kind == "json":
            sc = get_scenario(rp["scenario_seed"], rp.get("big", False))
            run_json_case(ctx, tmp, sc, rp["writer"], rp["loader"], rp.get("big", False), dist, want_lit=False)
        elif kind == "objectives":
            sc = get_scenario(rp["scenario_seed"], rp.get("big", False))
            run_objectives_case(ctx, tmp, sc, rp["loader"], dist, rp.get("big", False))
        elif kind == "live":
            run_live(ctx, tmp, rp["seed"], dist, [])
        elif kind == "float":
            x = from_bits(rp["bits"])
            ctx.count()
            if bits(float(repr(x))) != rp["bits"] or bits(json.loads(json.dumps(x))) != rp["bits"] or bits(float(str(x))) != rp["bits"]:
                ctx.violation(data.get("key", "float-sweep"), "replay: %s does not round-trip" % x.hex(), rp)
        else:
            run(ctx)
    finally:
        shutil.rmtree(tmp, ignore_errors=True)
