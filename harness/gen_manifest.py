"""Regenerates /verif/MANIFEST.json from the META blocks of harness/props/cXX.py."""
import importlib
import json
import os
import sys

HERE = os.path.dirname(os.path.abspath(__file__))
sys.path.insert(0, HERE)
VERIF = os.path.dirname(HERE)

NOT_APPLICABLE = {}


def main():
    ids = [json.loads(l)["id"] for l in open(os.path.join(VERIF, "properties.jsonl"))]
    checks = []
    na = []
    ready = set(open(os.path.join(HERE, "READY")).read().split())
    for pid in ids:
        path = os.path.join(HERE, "props", pid.lower() + ".py")
        if not os.path.exists(path) or pid not in ready:
            na.append({"property_id": pid, "reason": NOT_APPLICABLE.get(pid, "check not built yet (work in progress; the design in DESIGN.md section 6 applies)")})
            continue
        src = open(path).read()
        ns = {}
        # META is a literal dict at module level; evaluate only that assignment
        start = src.index("META = ")
        depth = 0
        end = None
        for i in range(start + 7, len(src)):
            if src[i] == "{":
                depth += 1
            elif src[i] == "}":
                depth -= 1
                if depth == 0:
                    end = i + 1
                    break
        exec(src[start:end], ns)
        m = ns["META"]
        checks.append({
            "property_id": pid,
            "quick_cmd": "./check %s --tier quick" % pid,
            "thorough_cmd": "./check %s --tier thorough" % pid,
            "evidence_file": "/verif/evidence/%s.json" % pid,
            "replay_cmd_template": "./check %s --replay {path}" % pid,
            "engine": "coq-proof+correspondence",
            "level_claimed": {"category": "proof", "text": m["level_text"], "design_ref": m.get("design_ref", "DESIGN.md section 6, " + pid)},
            "level_note": m["level_note"],
            "technique": m["technique"],
        })
    man = {
        "version": 1,
        "setup_cmd": "./setup.sh",
        "hooks": {
            "guard": "PLATYPUS_VERIF",
            "enable": "no source hooks: the drivers observe the real code by monkey-patching from outside (random, evaluate_all, Problem.__call__, a simulated mpi4py); checks set PLATYPUS_VERIF=1 and PYTHONPATH=/repo",
            "baseline_off_cmd": "cd /repo && /venv/bin/python -m pytest -ra -q -p no:cacheprovider --timeout=900 --continue-on-collection-errors",
            "source_commits": [],
            "add_only": True,
        },
        "engines": [{
            "name": "coq-proof+correspondence",
            "path": "/verif/check",
            "serves_properties": [c["property_id"] for c in checks],
            "kind_free_text": "Coq 8.16.1 theorems about executable Gallina models (coq/Model, coq/Proofs, coq/Props) + differential correspondence of the model (vm_compute) against the real Python code on generated inputs + independent oracle used as the search for a failing input",
        }],
        "checks": checks,
        "not_applicable": na,
        "notes": "One check per property; see DESIGN.md.  KNOWN_FINDINGS.json lists recorded defects and fix: commits.",
    }
    with open(os.path.join(VERIF, "MANIFEST.json"), "w") as f:
        json.dump(man, f, indent=1)
    print("checks:", [c["property_id"] for c in checks], "not_applicable:", [n["property_id"] for n in na])


main()
