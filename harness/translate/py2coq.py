"""py2coq — fail-closed translator from a declared subset of Python (the arithmetic of
platypus/problems.py) to real-valued Gallina, property C18.

Reading of Python:  float -> R (a float literal is read as the decimal number written in the source),
int -> Z, list of numbers -> list R, bool -> bool.  Every accepted construct is mapped to a definition of
coq/Base/RList.v (see the table at the top of that file).  Anything else raises `Unsupported` naming the
construct and the source line; the function/class concerned is then NOT emitted (fail-closed).

For every translated function two definitions are emitted:
   <name>_eval     the value computed
   <name>_defined  the conjunction of the side conditions under which CPython raises no exception on the
                   translated path (index in range, divisor <> 0, sqrt argument >= 0, pow domain,
                   lengths agree in `objectives[a:b] = v`)
Local variable names are kept (sanitised); comments, docstrings and formatting never reach the output.
The output is a pure function of the AST of the translated functions (no line numbers, no hashes), so
the generated file only changes when the translated code changes.

Not supported on purpose (non-exhaustive): while, break/continue, try, with, lambda, starred/keyword
arguments, range with a step, nested functions, generators with conditions, tuple assignment, map/partial,
attribute access other than self.nvars/self.nobjs/constructor-default attributes/solution.variables/
solution.objectives, calls to untranslated functions.
"""
import ast
import os
from fractions import Fraction

PRELUDE_IMPORT = "From Coq Require Import Reals List ZArith Bool.\nImport ListNotations.\nFrom PV Require Import Base.RList.\nOpen Scope R_scope.\n"


class Unsupported(Exception):
    def __init__(self, what, node=None):
        self.what = what
        self.line = getattr(node, "lineno", None)
        super().__init__("%s (line %s)" % (what, self.line) if self.line else what)


# ----------------------------------------------------------------------------
# IR: expressions.  ty in {"Z","R","B","LR","LZ"} or ("T", [tys]) for tuples
# ----------------------------------------------------------------------------
RESERVED = set("""
cons app 
as at cofix else end exists exists2 fix for forall fun if IF in let match mod return Set Prop Type then using where with
sin cos sqrt exp ln PI pow map seq nth fold_left fold_right repeat length firstn skipn hd tl Rabs Rmax Rmin IZR INR Int_part
sum_list prod_list zrange zlen norm_idx py_from py_upto py_slice py_nth idx_ok py_set py_set_slice slice_len_ok py_repeat
loop_upd py_rpow rpow_ok py_floor py_ceil Rltb Rleb Reqb big_sum big_prod Forall True False true false R Z nat list bool
xs nobjs nvars objs Rpower Rplus Rmult Rminus Rdiv Ropp Rinv up andb orb negb fst snd pair
""".split())


def sanitize(name):
    n = name.lstrip("_") or "v"
    if not (n[0].isalpha()):
        n = "v" + n
    n = "".join(ch if (ch.isalnum() or ch == "_") else "_" for ch in n)
    if n in RESERVED:
        n += "_"
    return n


class E:
    """expression node.  pp(sc) -> (text, level): text printed for a position whose open scope is sc
    ("R" or "Z"); level is the Coq precedence level of the text (0 = atomic)."""
    ty = None
    kids = ()

    def fv(self):
        s = set()
        for k in self.kids:
            s |= k.fv()
        return s


def fmt(e, sc, maxl):
    s, l = e.pp(sc)
    return s if l <= maxl else "(" + s + ")"


def scoped(s, level, me, sc):
    """text s was printed in scope me; deliver it for scope sc"""
    if me == sc:
        return s, level
    return "(%s)%%%s" % (s, me), 0


def sc_of(ty):
    return "Z" if ty == "Z" else "R"


class Const(E):
    def __init__(self, ty, v):
        self.ty, self.v = ty, v

    def pp(self, sc):
        if self.ty == "B":
            return ("true" if self.v else "false"), 0
        if self.ty == "Z":
            if self.v >= 0:
                return ("%d" % self.v if sc == "Z" else "%d%%Z" % self.v), 0
            return ("(%d)" % self.v if sc == "Z" else "(%d)%%Z" % self.v), 0
        fr = self.v
        if fr.denominator == 1:
            if fr.numerator >= 0:
                return ("%d" % fr.numerator if sc == "R" else "%d%%R" % fr.numerator), 0
            return ("(%d)" % fr.numerator if sc == "R" else "(%d)%%R" % fr.numerator), 0
        if fr.numerator >= 0:
            t = "(%d / %d)" % (fr.numerator, fr.denominator)
        else:
            t = "(- (%d / %d))" % (-fr.numerator, fr.denominator)
        return (t if sc == "R" else t + "%R"), 0


class Var(E):
    def __init__(self, name, ty):
        self.name, self.ty = name, ty

    def fv(self):
        return {self.name}

    def pp(self, sc):
        return self.name, 0


class ToR(E):
    ty = "R"

    def __init__(self, e):
        assert e.ty == "Z"
        self.e = e
        self.kids = (e,)

    def pp(self, sc):
        if isinstance(self.e, Const):
            return Const("R", Fraction(self.e.v)).pp(sc)
        return "IZR " + fmt(self.e, sc, 0), 10


class Bin(E):
    OPS = {"+": ("+", 50), "-": ("-", 50), "*": ("*", 40), "/": ("/", 40), "//": ("/", 40), "%": ("mod", 40)}

    def __init__(self, op, a, b, ty):
        self.op, self.a, self.b, self.ty = op, a, b, ty
        self.kids = (a, b)

    def pp(self, sc):
        me = sc_of(self.ty)
        sym, lv = self.OPS[self.op]
        s = "%s %s %s" % (fmt(self.a, me, lv), sym, fmt(self.b, me, lv - 1))
        return scoped(s, lv, me, sc)


class Neg(E):
    def __init__(self, e):
        self.e, self.ty = e, e.ty
        self.kids = (e,)

    def pp(self, sc):
        me = sc_of(self.ty)
        return scoped("- " + fmt(self.e, me, 34), 45, me, sc)


class PowN(E):
    """a ^ n for a natural-number literal n"""
    ty = "R"

    def __init__(self, a, n):
        self.a, self.n = a, n
        self.kids = (a,)

    def pp(self, sc):
        return scoped("%s ^ %d" % (fmt(self.a, "R", 29), self.n), 30, "R", sc)


class App(E):
    """application of a named Coq function; each numeric argument is printed in the scope of its type"""

    def __init__(self, fn, args, ty):
        self.fn, self.args, self.ty = fn, list(args), ty
        self.kids = tuple(self.args)
        self.side = None

    def pp(self, sc):
        if not self.args:
            return self.fn, 0
        return self.fn + " " + " ".join(fmt(a, sc, 0) for a in self.args), 10


class Cmp(E):
    ty = "B"
    ZOPS = {"<": "<?", "<=": "<=?", "==": "=?"}

    def __init__(self, op, a, b):
        self.op, self.a, self.b = op, a, b
        self.kids = (a, b)

    def pp(self, sc):
        if self.a.ty == "Z":
            s = "%s %s %s" % (fmt(self.a, "Z", 69), self.ZOPS[self.op], fmt(self.b, "Z", 69))
            return scoped(s, 70, "Z", sc)
        fn = {"<": "Rltb", "<=": "Rleb", "==": "Reqb"}[self.op]
        return "%s %s %s" % (fn, fmt(self.a, sc, 0), fmt(self.b, sc, 0)), 10


class If(E):
    def __init__(self, c, a, b):
        self.c, self.a, self.b, self.ty = c, a, b, a.ty
        self.kids = (c, a, b)

    def pp(self, sc):
        return "if %s then %s else %s" % (fmt(self.c, sc, 200), fmt(self.a, sc, 199), fmt(self.b, sc, 199)), 200


class ListLit(E):
    ty = "LR"

    def __init__(self, items):
        self.items = list(items)
        self.kids = tuple(self.items)

    def pp(self, sc):
        if not self.items:
            return "(@nil R)", 0
        return "[" + "; ".join(fmt(i, sc, 99) for i in self.items) + "]", 0


class Tuple(E):
    def __init__(self, items):
        self.items = list(items)
        self.kids = tuple(self.items)
        self.ty = ("T", [i.ty for i in items])

    def pp(self, sc):
        if len(self.items) == 1:
            return self.items[0].pp(sc)
        return "(" + ", ".join(fmt(i, sc, 199) for i in self.items) + ")", 0


class Map(E):
    ty = "LR"

    def __init__(self, var, vty, body, dom):
        self.var, self.vty, self.body, self.dom = var, vty, body, dom
        self.kids = (body, dom)

    def fv(self):
        return (self.body.fv() - {self.var}) | self.dom.fv()

    def pp(self, sc):
        return "map (fun %s => %s) %s" % (self.var, fmt(self.body, sc, 200), fmt(self.dom, sc, 0)), 10


def pat_of(names):
    return names[0] if len(names) == 1 else "'(" + ", ".join(names) + ")"


class Let(E):
    """let names := e in body  (several names = destructuring of a tuple)"""

    def __init__(self, names, e, body):
        self.names, self.e, self.body, self.ty = list(names), e, body, body.ty
        self.kids = (e, body)

    def fv(self):
        return self.e.fv() | (self.body.fv() - set(self.names))

    def pp(self, sc):
        return "let %s := %s in %s" % (pat_of(self.names), fmt(self.e, sc, 200), fmt(self.body, sc, 200)), 200

    def block(self, sc, indent):
        """multi-line rendering for statement position"""
        e = self.e.block(sc, indent + "    ") if isinstance(self.e, (Fold, LoopUpd)) else fmt(self.e, sc, 200)
        b = self.body.block(sc, indent) if isinstance(self.body, Let) else fmt(self.body, sc, 200)
        return "let %s := %s in\n%s%s" % (pat_of(self.names), e, indent, b)


def blk(e, sc, indent):
    return e.block(sc, indent) if isinstance(e, Let) else fmt(e, sc, 200)


class Fold(E):
    """fold_left (fun state i => body) dom init"""

    def __init__(self, names, ivar, body, dom, init):
        self.names, self.ivar, self.body, self.dom, self.init = list(names), ivar, body, dom, init
        self.ty = init.ty
        self.kids = (body, dom, init)

    def fv(self):
        return (self.body.fv() - set(self.names) - {self.ivar}) | self.dom.fv() | self.init.fv()

    def pp(self, sc):
        return "fold_left (fun %s %s => %s) %s %s" % (pat_of(self.names), self.ivar, fmt(self.body, sc, 200), fmt(self.dom, sc, 0), fmt(self.init, sc, 0)), 10

    def block(self, sc, indent):
        return "fold_left (fun %s %s =>\n%s%s)\n%s%s %s" % (pat_of(self.names), self.ivar, indent, blk(self.body, sc, indent),
                                                           indent, fmt(self.dom, sc, 0), fmt(self.init, sc, 0))


class LoopUpd(E):
    ty = "LR"

    def __init__(self, f, lo, hi, ivar, vvar, body):
        self.f, self.lo, self.hi, self.ivar, self.vvar, self.body = f, lo, hi, ivar, vvar, body
        self.kids = (f, lo, hi, body)

    def fv(self):
        return self.f.fv() | self.lo.fv() | self.hi.fv() | (self.body.fv() - {self.ivar, self.vvar})

    def pp(self, sc):
        return "loop_upd %s %s %s (fun %s %s => %s)" % (fmt(self.f, sc, 0), fmt(self.lo, sc, 0), fmt(self.hi, sc, 0), self.ivar, self.vvar, fmt(self.body, sc, 200)), 10

    def block(self, sc, indent):
        return "loop_upd %s %s %s (fun %s %s =>\n%s%s)" % (fmt(self.f, sc, 0), fmt(self.lo, sc, 0), fmt(self.hi, sc, 0), self.ivar, self.vvar,
                                                            indent, blk(self.body, sc, indent))


# ----------------------------------------------------------------------------
# IR: side conditions (Prop)
# ----------------------------------------------------------------------------
class P:
    def fv(self):
        return set()


class PTrue(P):
    def pr(self, indent="  "):
        return "True"


class PAtom(P):
    """fmt with {0},{1}.. replaced by printed expressions (R scope, atomic)"""

    def __init__(self, fmt_, *es, level=0):
        self.fmt, self.es, self.level = fmt_, es, level

    def fv(self):
        s = set()
        for e in self.es:
            s |= e.fv()
        return s

    def pr(self, indent="  "):
        return self.fmt.format(*[fmt(e, "R", self.level) for e in self.es])


class PAnd(P):
    def __init__(self, ps):
        self.ps = ps

    def fv(self):
        s = set()
        for p in self.ps:
            s |= p.fv()
        return s

    def pr(self, indent="  "):
        return " /\\ ".join("(" + p.pr(indent) + ")" if isinstance(p, (PLet, PIf, PAnd)) else p.pr(indent) for p in self.ps)


class PForall(P):
    def __init__(self, var, dom, p):
        self.var, self.dom, self.p = var, dom, p

    def fv(self):
        return (self.p.fv() - {self.var}) | self.dom.fv()

    def pr(self, indent="  "):
        return "Forall (fun %s => %s) %s" % (self.var, self.p.pr(indent), fmt(self.dom, "R", 0))


class PLet(P):
    def __init__(self, names, e, p):
        self.names, self.e, self.p = list(names), e, p

    def fv(self):
        return self.e.fv() | (self.p.fv() - set(self.names))

    def pr(self, indent="  "):
        e = self.e.block("R", indent + "    ") if isinstance(self.e, (Fold, LoopUpd)) else fmt(self.e, "R", 200)
        return "let %s := %s in\n%s%s" % (pat_of(self.names), e, indent, self.p.pr(indent))


class PIf(P):
    def __init__(self, c, a, b):
        self.c, self.a, self.b = c, a, b

    def fv(self):
        return self.c.fv() | self.a.fv() | self.b.fv()

    def pr(self, indent="  "):
        return "if %s then (%s) else (%s)" % (fmt(self.c, "R", 200), self.a.pr(indent), self.b.pr(indent))


def pand(*ps):
    out = []
    seen = set()
    for p in ps:
        for q in (p.ps if isinstance(p, PAnd) else [p]):
            if isinstance(q, PTrue):
                continue
            key = q.pr() if isinstance(q, PAtom) else None
            if key is not None:
                if key in seen:
                    continue
                seen.add(key)
            out.append(q)
    if not out:
        return PTrue()
    return out[0] if len(out) == 1 else PAnd(out)


def plet(names, e, p):
    if isinstance(p, PTrue):
        return p
    if not (set(names) & p.fv()):
        return p
    return PLet(names, e, p)


def pforall(var, dom, p):
    return p if isinstance(p, PTrue) else PForall(var, dom, p)


def pif(c, a, b):
    if isinstance(a, PTrue) and isinstance(b, PTrue):
        return a
    return PIf(c, a, b)


def nonzero_const(e):
    if isinstance(e, Const):
        return e.v != 0
    if isinstance(e, ToR):
        return nonzero_const(e.e)
    return False


def cond(e):
    """side condition of evaluating expression e (in the scope where e lives)"""
    if isinstance(e, (Const, Var)):
        return PTrue()
    if isinstance(e, ToR):
        return cond(e.e)
    if isinstance(e, Bin):
        c = pand(cond(e.a), cond(e.b))
        if e.op in ("/", "//", "%") and not nonzero_const(e.b):
            c = pand(c, PAtom("{0} <> 0" if e.ty == "R" else "{0} <> 0%Z", e.b, level=69))
        return c
    if isinstance(e, Neg):
        return cond(e.e)
    if isinstance(e, PowN):
        return cond(e.a)
    if isinstance(e, App):
        c = pand(*[cond(a) for a in e.args])
        if e.side is not None:
            c = pand(c, e.side)
        return c
    if isinstance(e, Cmp):
        return pand(cond(e.a), cond(e.b))
    if isinstance(e, If):
        return pand(cond(e.c), pif(e.c, cond(e.a), cond(e.b)))
    if isinstance(e, (ListLit, Tuple)):
        return pand(*[cond(i) for i in e.items])
    if isinstance(e, Map):
        return pand(cond(e.dom), pforall(e.var, e.dom, cond(e.body)))
    if isinstance(e, Let):
        c = cond(e.e)
        extra = getattr(e, "extra_side", None)
        if extra is not None:
            c = pand(c, extra)
        return pand(c, plet(e.names, e.e, cond(e.body)))
    if isinstance(e, Fold):
        cb = cond(e.body)
        if set(e.names) & cb.fv():
            raise Unsupported("side condition inside a loop depends on the loop state (%s)" % ", ".join(sorted(set(e.names) & cb.fv())))
        return pand(cond(e.dom), cond(e.init), pforall(e.ivar, e.dom, cb))
    if isinstance(e, LoopUpd):
        cb = cond(e.body)
        if e.vvar in cb.fv():
            raise Unsupported("side condition inside an update loop depends on the updated element")
        dom = App("zrange", [e.lo, e.hi], "LZ")
        return pand(cond(e.f), cond(e.lo), cond(e.hi),
                    pforall(e.ivar, dom, pand(PAtom("idx_ok {0} {1}", e.f, Var(e.ivar, "Z")), cb)))
    raise AssertionError("cond: " + type(e).__name__)


# ----------------------------------------------------------------------------
# Python AST -> IR
# ----------------------------------------------------------------------------
def toR(e, node=None):
    if e.ty == "R":
        return e
    if e.ty == "Z":
        return ToR(e)
    raise Unsupported("expected a number, got %s" % (e.ty,), node)


def app(fn, args, ty, side=None):
    a = App(fn, args, ty)
    a.side = side
    return a


def frac_of_float(v):
    return Fraction(repr(float(v)))


class Env:
    def __init__(self, tr, kind, cls=None):
        self.tr = tr            # Translator
        self.kind = kind        # "method" | "function"
        self.cls = cls
        self.vars = {}          # python name -> (coq name, ty)
        self.order = []         # python names in order of first binding
        self.used = set(["xs", "nobjs", "nvars", "objs"])
        self.assumptions = []
        self.extra_params = {}

    def copy(self):
        e = Env(self.tr, self.kind, self.cls)
        e.vars = dict(self.vars)
        e.order = list(self.order)
        e.used = self.used          # shared: fresh names are global per function
        e.assumptions = self.assumptions
        e.extra_params = self.extra_params
        return e

    def bind(self, pyname, ty):
        """(re)bind pyname; returns coq name.  Same coq name is reused (shadowing)."""
        if pyname in self.vars:
            cn = self.vars[pyname][0]
        else:
            cn = sanitize(pyname)
            while cn in self.used and cn not in [v[0] for v in self.vars.values()] or cn in ("xs", "nobjs", "nvars", "objs"):
                cn += "_"
            self.used.add(cn)
            self.order.append(pyname)
        self.vars[pyname] = (cn, ty)
        return cn

    def fresh(self, base):
        cn = sanitize(base)
        while cn in self.used:
            cn += "0"
        self.used.add(cn)
        return cn


def is_name(n, s):
    return isinstance(n, ast.Name) and n.id == s


def is_attr(n, obj, attr):
    return isinstance(n, ast.Attribute) and is_name(n.value, obj) and n.attr == attr


class FnTranslator:
    """translates one function body"""

    def __init__(self, tr, env, selfname=None, solname=None):
        self.tr, self.env, self.selfname, self.solname = tr, env, selfname, solname

    # ---------------- expressions
    def expr(self, n, env):
        m = getattr(self, "e_" + type(n).__name__, None)
        if m is None:
            raise Unsupported("expression " + type(n).__name__, n)
        return m(n, env)

    def e_Constant(self, n, env):
        v = n.value
        if isinstance(v, bool):
            return Const("B", v)
        if isinstance(v, int):
            return Const("Z", v)
        if isinstance(v, float):
            if v != v or v in (float("inf"), float("-inf")):
                raise Unsupported("non-finite float literal", n)
            return Const("R", frac_of_float(v))
        raise Unsupported("constant of type " + type(v).__name__, n)

    def e_Name(self, n, env):
        if n.id in env.vars:
            cn, ty = env.vars[n.id]
            return Var(cn, ty)
        if n.id in self.tr.module_consts:
            return self.tr.module_consts[n.id]
        raise Unsupported("unknown name " + n.id, n)

    def e_Attribute(self, n, env):
        if self.selfname and is_name(n.value, self.selfname):
            if n.attr in ("nvars", "nobjs"):
                return Var(n.attr, "Z")
            c = self.tr.ctor_default(env.cls, n.attr)
            if c is not None:
                # a constructor parameter stored as self.<attr>: an extra parameter of the generated function
                # (typed like its default value: float -> R, int -> Z)
                cn = sanitize(n.attr)
                if cn in ("xs", "nobjs", "nvars", "objs", "cons"):
                    raise Unsupported("attribute name self." + n.attr, n)
                env.extra_params[n.attr] = (cn, c[0].ty)
                env.assumptions.append("%s.%s is a parameter of the generated function (constructor default %s)" % (env.cls, n.attr, c[1]))
                return Var(cn, c[0].ty)
            c = self.tr.ctor_super(env.cls, n.attr)
            if c is not None:
                env.assumptions.append("%s.%s = %s (from the constructor's super().__init__ call)" % (env.cls, n.attr, ast.unparse(c)))
                cenv = Env(self.tr, "function")
                cenv.vars = {"nobjs": ("nobjs", "Z"), "nvars": ("nvars", "Z")}
                v = FnTranslator(self.tr, cenv).expr(c, cenv)
                if v.ty not in ("Z", "R"):
                    raise Unsupported("attribute self.%s resolves to a non-number" % n.attr, n)
                return v
            raise Unsupported("attribute self." + n.attr, n)
        if self.solname and is_name(n.value, self.solname) and n.attr == "variables":
            return Var("xs", "LR")
        if is_name(n.value, "math") and n.attr == "pi":
            return app("PI", [], "R")
        raise Unsupported("attribute " + ast.unparse(n), n)

    def e_UnaryOp(self, n, env):
        v = self.expr(n.operand, env)
        if isinstance(n.op, ast.USub):
            if v.ty not in ("Z", "R"):
                raise Unsupported("unary minus on " + str(v.ty), n)
            if isinstance(v, Const):
                return Const(v.ty, -v.v)
            return Neg(v)
        if isinstance(n.op, ast.UAdd) and v.ty in ("Z", "R"):
            return v
        if isinstance(n.op, ast.Not) and v.ty == "B":
            return app("negb", [v], "B")
        raise Unsupported("unary operator " + type(n.op).__name__, n)

    def arith(self, op, a, b, n):
        if a.ty not in ("Z", "R") or b.ty not in ("Z", "R"):
            raise Unsupported("operator %s on %s, %s" % (op, a.ty, b.ty), n)
        if op == "/":
            return Bin("/", toR(a), toR(b), "R")
        if op in ("//", "%"):
            if a.ty == "Z" and b.ty == "Z":
                return Bin(op, a, b, "Z")
            raise Unsupported("operator %s on floats" % op, n)
        if a.ty == "Z" and b.ty == "Z":
            return Bin(op, a, b, "Z")
        return Bin(op, toR(a), toR(b), "R")

    def power(self, a, b, n):
        """a ** b / math.pow(a, b)"""
        if a.ty not in ("Z", "R") or b.ty not in ("Z", "R"):
            raise Unsupported("power on %s, %s" % (a.ty, b.ty), n)
        lit = None
        if isinstance(b, Const):
            lit = Fraction(b.v)
        if lit is not None and lit.denominator == 1 and 0 <= lit.numerator <= 1000:
            return PowN(toR(a), int(lit))
        if lit is not None and lit.denominator == 1 and -1000 <= lit.numerator < 0:
            return Bin("/", Const("R", Fraction(1)), PowN(toR(a), int(-lit)), "R")
        ar, br = toR(a), toR(b)
        return app("py_rpow", [ar, br], "R", side=PAtom("rpow_ok {0} {1}", ar, br))

    def e_BinOp(self, n, env):
        opn = type(n.op).__name__
        if opn == "Mult":
            # [c]*n
            l, r = self.expr(n.left, env), self.expr(n.right, env)
            if l.ty == "LR" and r.ty == "Z" and isinstance(l, ListLit) and len(l.items) == 1:
                return app("py_repeat", [l.items[0], r], "LR")
            if l.ty == "LR" or r.ty == "LR":
                raise Unsupported("list repetition other than [c]*n", n)
            return self.arith("*", l, r, n)
        l, r = self.expr(n.left, env), self.expr(n.right, env)
        if opn == "Add":
            if l.ty == "LR" and r.ty == "LR":
                return app("app", [l, r], "LR")
            return self.arith("+", l, r, n)
        if opn == "Sub":
            return self.arith("-", l, r, n)
        if opn == "Div":
            return self.arith("/", l, r, n)
        if opn == "FloorDiv":
            return self.arith("//", l, r, n)
        if opn == "Mod":
            return self.arith("%", l, r, n)
        if opn == "Pow":
            return self.power(l, r, n)
        raise Unsupported("binary operator " + opn, n)

    def compare(self, op, a, b, n):
        if a.ty == "B" or b.ty == "B" or a.ty not in ("Z", "R") or b.ty not in ("Z", "R"):
            raise Unsupported("comparison of %s, %s" % (a.ty, b.ty), n)
        if a.ty != b.ty:
            a, b = toR(a), toR(b)
        opn = type(op).__name__
        if opn == "Lt":
            return Cmp("<", a, b)
        if opn == "LtE":
            return Cmp("<=", a, b)
        if opn == "Gt":
            return Cmp("<", b, a)
        if opn == "GtE":
            return Cmp("<=", b, a)
        if opn == "Eq":
            return Cmp("==", a, b)
        if opn == "NotEq":
            return app("negb", [Cmp("==", a, b)], "B")
        raise Unsupported("comparison operator " + opn, n)

    def e_Compare(self, n, env):
        if len(n.ops) != 1:
            raise Unsupported("chained comparison", n)
        return self.compare(n.ops[0], self.expr(n.left, env), self.expr(n.comparators[0], env), n)

    def e_BoolOp(self, n, env):
        vs = [self.expr(v, env) for v in n.values]
        if any(v.ty != "B" for v in vs):
            raise Unsupported("and/or on non-boolean values", n)
        fn = "andb" if isinstance(n.op, ast.And) else "orb"
        r = vs[0]
        for v in vs[1:]:
            r = app(fn, [r, v], "B")
        return r

    def e_IfExp(self, n, env):
        c = self.expr(n.test, env)
        if c.ty != "B":
            raise Unsupported("non-boolean condition", n)
        a, b = self.expr(n.body, env), self.expr(n.orelse, env)
        if a.ty != b.ty:
            a, b = toR(a, n), toR(b, n)
        return If(c, a, b)

    def e_List(self, n, env):
        return ListLit([toR(self.expr(e, env), e) for e in n.elts])

    def index_of(self, lst, i, n):
        if i.ty != "Z":
            raise Unsupported("non-integer index", n)
        return app("py_nth", [lst, i], "R", side=PAtom("idx_ok {0} {1}", lst, i))

    def e_Subscript(self, n, env):
        lst = self.expr(n.value, env)
        if lst.ty != "LR":
            raise Unsupported("subscript of " + str(lst.ty), n)
        s = n.slice
        if isinstance(s, ast.Slice):
            if s.step is not None:
                raise Unsupported("slice with a step", n)
            lo = self.expr(s.lower, env) if s.lower is not None else None
            hi = self.expr(s.upper, env) if s.upper is not None else None
            for b in (lo, hi):
                if b is not None and b.ty != "Z":
                    raise Unsupported("non-integer slice bound", n)
            if lo is None and hi is None:
                return lst
            if hi is None:
                return app("py_from", [lst, lo], "LR")
            if lo is None:
                return app("py_upto", [lst, hi], "LR")
            return app("py_slice", [lst, lo, hi], "LR")
        return self.index_of(lst, self.expr(s, env), n)

    def range_of(self, call, env):
        if call.keywords or not (1 <= len(call.args) <= 2):
            raise Unsupported("range with a step or keywords", call)
        args = [self.expr(a, env) for a in call.args]
        if any(a.ty != "Z" for a in args):
            raise Unsupported("non-integer range bound", call)
        lo, hi = (Const("Z", 0), args[0]) if len(args) == 1 else args
        return lo, hi

    def e_ListComp(self, n, env):
        if len(n.generators) != 1:
            raise Unsupported("comprehension with several generators", n)
        g = n.generators[0]
        if g.ifs or g.is_async:
            raise Unsupported("comprehension with a condition", n)
        if not isinstance(g.target, ast.Name):
            raise Unsupported("comprehension target", n)
        if isinstance(g.iter, ast.Call) and is_name(g.iter.func, "range"):
            lo, hi = self.range_of(g.iter, env)
            dom, vty = app("zrange", [lo, hi], "LZ"), "Z"
        else:
            dom = self.expr(g.iter, env)
            if dom.ty != "LR":
                raise Unsupported("comprehension over " + str(dom.ty), n)
            vty = "R"
        inner = env.copy()
        # the comprehension variable is local to the comprehension (Python 3)
        saved = inner.vars.pop(g.target.id, None)
        cn = inner.fresh(g.target.id)
        inner.vars[g.target.id] = (cn, vty)
        body = toR(self.expr(n.elt, inner), n.elt)
        return Map(cn, vty, body, dom)

    def e_Call(self, n, env):
        if n.keywords or any(isinstance(a, ast.Starred) for a in n.args):
            raise Unsupported("keyword/starred arguments in call " + ast.unparse(n.func), n)
        f = n.func
        if isinstance(f, ast.Attribute) and is_name(f.value, "math"):
            args = [self.expr(a, env) for a in n.args]
            name = f.attr
            if name in ("sin", "cos", "exp") and len(args) == 1:
                return app(name, [toR(args[0], n)], "R")
            if name == "sqrt" and len(args) == 1:
                a = toR(args[0], n)
                return app("sqrt", [a], "R", side=PAtom("0 <= {0}", a))
            if name == "pow" and len(args) == 2:
                return self.power(args[0], args[1], n)
            if name == "floor" and len(args) == 1:
                return args[0] if args[0].ty == "Z" else app("py_floor", [toR(args[0], n)], "Z")
            if name == "ceil" and len(args) == 1:
                return args[0] if args[0].ty == "Z" else app("py_ceil", [toR(args[0], n)], "Z")
            if name == "fabs" and len(args) == 1:
                return app("Rabs", [toR(args[0], n)], "R")
            raise Unsupported("math." + name, n)
        if isinstance(f, ast.Attribute) and is_name(f.value, "functools") and f.attr == "reduce":
            if len(n.args) != 3 or not (isinstance(n.args[0], ast.Attribute) and is_name(n.args[0].value, "operator") and n.args[0].attr in ("mul", "add")):
                raise Unsupported("functools.reduce other than reduce(operator.mul|add, L, start)", n)
            lst = self.expr(n.args[1], env)
            init = self.expr(n.args[2], env)
            if lst.ty != "LR" or init.ty not in ("Z", "R"):
                raise Unsupported("reduce over " + str(lst.ty), n)
            mul = n.args[0].attr == "mul"
            unit = 1 if mul else 0
            iv = Fraction(init.v) if isinstance(init, Const) else None
            if iv == unit:
                return app("prod_list" if mul else "sum_list", [lst], "R")
            return app("fold_left", [app("Rmult" if mul else "Rplus", [], "R"), lst, toR(init)], "R")
        if isinstance(f, ast.Name) and f.id == "list" and len(n.args) == 1 and isinstance(n.args[0], ast.Call) \
                and is_name(n.args[0].func, "map") and len(n.args[0].args) == 2 and not n.args[0].keywords:
            return self.map_call(n.args[0], env)
        if isinstance(f, ast.Name):
            name = f.id
            if name == "sum" and len(n.args) == 1:
                lst = self.expr(n.args[0], env)
                if lst.ty != "LR":
                    raise Unsupported("sum over " + str(lst.ty), n)
                return app("sum_list", [lst], "R")
            if name == "len" and len(n.args) == 1:
                lst = self.expr(n.args[0], env)
                if lst.ty != "LR":
                    raise Unsupported("len of " + str(lst.ty), n)
                return app("zlen", [lst], "Z")
            if name == "abs" and len(n.args) == 1:
                a = self.expr(n.args[0], env)
                if a.ty == "Z":
                    return app("Z.abs", [a], "Z")
                return app("Rabs", [toR(a, n)], "R")
            if name in ("max", "min") and len(n.args) == 2:
                a, b = self.expr(n.args[0], env), self.expr(n.args[1], env)
                if a.ty == "Z" and b.ty == "Z":
                    return app("Z." + name, [a, b], "Z")
                return app("R" + name, [toR(a, n), toR(b, n)], "R")
            if name == "float" and len(n.args) == 1:
                return toR(self.expr(n.args[0], env), n)
            if name in self.tr.functions:
                sig = self.tr.functions[name]
                if sig is None:
                    raise Unsupported("call to untranslated function " + name, n)
                ptys, rty, cname, trivial = sig
                if len(n.args) != len(ptys):
                    raise Unsupported("call to %s with %d arguments" % (name, len(n.args)), n)
                args = []
                for a, t in zip(n.args, ptys):
                    v = self.expr(a, env)
                    if t == "R":
                        v = toR(v, a)
                    if v.ty != t:
                        raise Unsupported("argument of %s: expected %s, got %s" % (name, t, v.ty), a)
                    args.append(v)
                side = None if trivial else PAtom(cname + "_defined " + " ".join("{%d}" % i for i in range(len(args))), *args)
                return app(cname + "_eval", args, rty, side=side)
            raise Unsupported("call to " + name, n)
        raise Unsupported("call to " + ast.unparse(f), n)

    def map_call(self, m, env):
        """list(map(F, L)) or list(map(functools.partial(F, name=value, ...), L)) for a translated function F whose first
        parameter receives the list element; the remaining parameters are given by keyword"""
        fn, lst = m.args
        dom = self.expr(lst, env)
        if dom.ty != "LR":
            raise Unsupported("map over " + str(dom.ty), m)
        kws = {}
        if isinstance(fn, ast.Call) and isinstance(fn.func, ast.Attribute) and is_name(fn.func.value, "functools") and fn.func.attr == "partial":
            if len(fn.args) != 1 or not isinstance(fn.args[0], ast.Name):
                raise Unsupported("functools.partial with positional arguments", m)
            for kw in fn.keywords:
                if kw.arg is None:
                    raise Unsupported("functools.partial with **kwargs", m)
                kws[kw.arg] = self.expr(kw.value, env)
            fname = fn.args[0].id
        elif isinstance(fn, ast.Name):
            fname = fn.id
        else:
            raise Unsupported("map with " + ast.unparse(fn)[:40], m)
        sig = self.tr.functions.get(fname)
        if sig is None:
            raise Unsupported("map of untranslated function " + fname, m)
        ptys, rty, cname, trivial = sig
        pnames = [a.arg for a in self.tr.defs[fname].args.args]
        if rty != "R" or ptys[0] != "R" or set(kws) != set(pnames[1:]):
            raise Unsupported("map of %s: keywords %s do not match parameters %s" % (fname, sorted(kws), pnames[1:]), m)
        inner = env.copy()
        v = inner.fresh("v")
        args = [Var(v, "R")]
        for pn, t in zip(pnames[1:], ptys[1:]):
            a = kws[pn]
            if t == "R":
                a = toR(a, m)
            if a.ty != t:
                raise Unsupported("map of %s: parameter %s expects %s, got %s" % (fname, pn, t, a.ty), m)
            args.append(a)
        side = None if trivial else PAtom(cname + "_defined " + " ".join("{%d}" % i for i in range(len(args))), *args)
        return Map(v, "R", app(cname + "_eval", args, "R", side=side), dom)

    # ---------------- statements
    # A block is translated to a function  k -> IR  where k builds the continuation from the final env
    # (continuation-passing so that lets nest correctly).  `ret` collects the result.
    def assigned_names(self, stmts):
        out = []

        def visit(ss):
            for s in ss:
                if isinstance(s, (ast.Assign, ast.AugAssign)):
                    tgts = s.targets if isinstance(s, ast.Assign) else [s.target]
                    for t in tgts:
                        if isinstance(t, ast.Name):
                            if t.id not in out:
                                out.append(t.id)
                        elif isinstance(t, ast.Subscript) and isinstance(t.value, ast.Name):
                            if t.value.id not in out:
                                out.append(t.value.id)
                        elif isinstance(t, ast.Subscript) and self.solname and is_attr(t.value, self.solname, "objectives"):
                            if "$objs" not in out:
                                out.append("$objs")
                        elif isinstance(t, ast.Subscript) and self.solname and is_attr(t.value, self.solname, "constraints"):
                            if "$cons" not in out:
                                out.append("$cons")
                elif isinstance(s, ast.Expr) and self.append_call(s) is not None:
                    if self.append_call(s)[0] not in out:
                        out.append(self.append_call(s)[0])
                elif isinstance(s, ast.If):
                    visit(s.body)
                    visit(s.orelse)
                elif isinstance(s, ast.For):
                    visit(s.body)
        visit(stmts)
        return out

    def append_call(self, s):
        v = s.value
        if isinstance(v, ast.Call) and isinstance(v.func, ast.Attribute) and v.func.attr == "append" and isinstance(v.func.value, ast.Name) \
                and len(v.args) == 1 and not v.keywords:
            return v.func.value.id, v.args[0]
        return None

    def mentions(self, node, name):
        return any(isinstance(x, ast.Name) and x.id == name for x in ast.walk(node))

    def block(self, stmts, env, k):
        """translate stmts then continue with k(env) -> (expr); returns expr"""
        if not stmts:
            return k(env)
        s, rest = stmts[0], stmts[1:]
        cont = lambda e: self.block(rest, e, k)  # noqa: E731
        if isinstance(s, ast.Expr):
            if isinstance(s.value, ast.Constant) and isinstance(s.value.value, str):
                return cont(env)        # docstring
            ap = self.append_call(s)
            if ap is not None:
                lname, arg = ap
                if lname not in env.vars or env.vars[lname][1] != "LR":
                    raise Unsupported("append to something that is not a local list", s)
                cn, _ = env.vars[lname]
                val = app("app", [Var(cn, "LR"), ListLit([toR(self.expr(arg, env), s)])], "LR")
                env2 = env.copy()
                env2.bind(lname, "LR")
                return Let([cn], val, cont(env2))
            raise Unsupported("expression statement " + ast.unparse(s)[:40], s)
        if isinstance(s, ast.Pass):
            return cont(env)
        if isinstance(s, ast.Assign):
            if len(s.targets) != 1:
                raise Unsupported("chained assignment", s)
            return self.assign(s.targets[0], self.expr(s.value, env), env, cont, s)
        if isinstance(s, ast.AugAssign):
            opn = type(s.op).__name__
            op = {"Add": "+", "Sub": "-", "Mult": "*", "Div": "/"}.get(opn)
            if op is None:
                raise Unsupported("augmented assignment " + opn, s)
            cur = self.expr(self.as_load(s.target), env)
            val = self.arith(op, cur, self.expr(s.value, env), s)
            return self.assign(s.target, val, env, cont, s)
        if isinstance(s, ast.If):
            return self.if_stmt(s, env, cont)
        if isinstance(s, ast.For):
            return self.for_stmt(s, env, cont)
        if isinstance(s, ast.Return):
            if rest:
                raise Unsupported("code after return", s)
            if self.env.kind != "function" or s.value is None:
                raise Unsupported("return in a method / bare return", s)
            return self.ret(self.expr(s.value, env))
        raise Unsupported("statement " + type(s).__name__, s)

    def as_load(self, t):
        t2 = ast.parse(ast.unparse(t), mode="eval").body
        ast.copy_location(t2, t)
        for x in ast.walk(t2):
            if not hasattr(x, "lineno"):
                x.lineno = getattr(t, "lineno", None)
        return t2

    def objs_now(self, env):
        if "$objs" in env.vars:
            return Var("objs", "LR")
        return None

    def assign(self, tgt, val, env, cont, s):
        if isinstance(tgt, ast.Name):
            if val.ty not in ("Z", "R", "LR", "B"):
                raise Unsupported("assignment of a value of type %s" % (val.ty,), s)
            env2 = env.copy()
            cn = env2.bind(tgt.id, val.ty)
            return Let([cn], val, cont(env2))
        if isinstance(tgt, ast.Subscript):
            # solution.objectives[...] = ...
            if self.solname and is_attr(tgt.value, self.solname, "objectives"):
                return self.assign_objs(tgt, val, env, cont, s)
            if self.solname and is_attr(tgt.value, self.solname, "constraints"):
                return self.assign_objs(tgt, val, env, cont, s, what="cons")
            if self.solname and is_attr(tgt.value, self.solname, "variables"):
                raise Unsupported("store into solution.variables", s)
            if isinstance(tgt.value, ast.Name) and tgt.value.id in env.vars and env.vars[tgt.value.id][1] == "LR":
                if isinstance(tgt.slice, ast.Slice):
                    raise Unsupported("slice assignment to a local list", s)
                cn, _ = env.vars[tgt.value.id]
                i = self.expr(tgt.slice, env)
                if i.ty != "Z":
                    raise Unsupported("non-integer index", s)
                lst = Var(cn, "LR")
                new = app("py_set", [lst, i, toR(val, s)], "LR", side=PAtom("idx_ok {0} {1}", lst, i))
                env2 = env.copy()
                env2.bind(tgt.value.id, "LR")
                return Let([cn], new, cont(env2))
        raise Unsupported("assignment target " + ast.unparse(tgt), s)

    def assign_objs(self, tgt, val, env, cont, s, what="objs"):
        if self.env.kind != "method":
            raise Unsupported("objectives outside evaluate", s)
        env2 = env.copy()
        key = "$" + what
        if what == "objs":
            nobjs = Var("nobjs", "Z")
        else:
            c = self.tr.ctor_super(env.cls, "nconstrs")
            if c is None or not isinstance(c, ast.Constant) or not isinstance(c.value, int):
                raise Unsupported("number of constraints of %s is not a constructor constant" % env.cls, s)
            nobjs = Const("Z", c.value)
        cur = Var(what, "LR") if key in env.vars else None
        sl = tgt.slice
        if isinstance(sl, ast.Slice):
            if sl.step is not None:
                raise Unsupported("slice with a step", s)
            if val.ty != "LR":
                raise Unsupported("objectives[a:b] = non-list", s)
            lo = self.expr(sl.lower, env) if sl.lower is not None else Const("Z", 0)
            hi = self.expr(sl.upper, env) if sl.upper is not None else nobjs
            if lo.ty != "Z" or hi.ty != "Z":
                raise Unsupported("non-integer slice bound", s)
            if sl.lower is None and sl.upper is None:
                # objectives[:] = V : all slots replaced when len(V) = nobjs (FixedLengthArray broadcasts otherwise)
                new = val
                side = PAtom("zlen {0} = {1}", val, nobjs)
                env2.vars[key] = (what, "LR")
                e = Let([what], new, cont(env2))
                e.extra_side = side
                return e
            base = cur if cur is not None else app("py_repeat", [Const("R", Fraction(0)), nobjs], "LR")
            new = app("py_set_slice", [base, lo, hi, val], "LR", side=PAtom("slice_len_ok {0} {1} {2} {3}", base, lo, hi, val))
        else:
            i = self.expr(sl, env)
            if i.ty != "Z":
                raise Unsupported("non-integer index", s)
            base = cur if cur is not None else app("py_repeat", [Const("R", Fraction(0)), nobjs], "LR")
            new = app("py_set", [base, i, toR(val, s)], "LR", side=PAtom("idx_ok {0} {1}", base, i))
        env2.vars[key] = (what, "LR")
        return Let([what], new, cont(env2))

    def state_of(self, names, env):
        """python names (or $objs) assigned in a nested block that are live in env"""
        return [n for n in names if n in env.vars]

    def if_stmt(self, s, env, cont):
        c = self.expr(s.test, env)
        if c.ty != "B":
            raise Unsupported("non-boolean condition (truthiness is not modelled)", s)
        # returning if/elif/else chain in a function
        if self.env.kind == "function" and self.all_return(s.body) and s.orelse and self.all_return(s.orelse):
            a = self.block(s.body, env, lambda e: None)
            b = self.block(s.orelse, env, lambda e: None)
            if a.ty != b.ty:
                raise Unsupported("branches return different types", s)
            return If(c, a, b)
        names = self.state_of(self.assigned_names(s.body + s.orelse), env)
        if not names:
            raise Unsupported("if statement that assigns no live variable", s)

        def tup(e):
            items = []
            for nme in names:
                cn, ty = e.vars[nme]
                if ty != env.vars[nme][1]:
                    raise Unsupported("variable %s changes type in a branch" % nme, s)
                items.append(Var(cn, ty))
            return Tuple(items)
        a = self.block(s.body, env, tup)
        b = self.block(s.orelse, env, tup)
        cns = [env.vars[nme][0] for nme in names]
        return Let(cns, If(c, a, b), cont(env))

    def all_return(self, stmts):
        if not stmts:
            return False
        last = stmts[-1]
        if isinstance(last, ast.Return):
            return True
        if isinstance(last, ast.If):
            return self.all_return(last.body) and bool(last.orelse) and self.all_return(last.orelse)
        return False

    def pointwise(self, s, env):
        """for i in range(..): f[i] op= E ; if c(i): f[i] op= E   -- with E, c not reading f"""
        if not isinstance(s.target, ast.Name):
            return None
        ivar = s.target.id
        fname = [None]

        def ok_target(t):
            if isinstance(t, ast.Subscript) and isinstance(t.value, ast.Name) and is_name(t.slice, ivar):
                if fname[0] in (None, t.value.id):
                    fname[0] = t.value.id
                    return True
            return False

        def ok(ss):
            for st in ss:
                if isinstance(st, ast.AugAssign):
                    if not ok_target(st.target) or self.mentions(st.value, fname[0]):
                        return False
                elif isinstance(st, ast.Assign):
                    if len(st.targets) != 1 or not ok_target(st.targets[0]) or self.mentions(st.value, fname[0]):
                        return False
                elif isinstance(st, ast.If):
                    if not ok(st.body) or not ok(st.orelse):
                        return False
                    if fname[0] is not None and self.mentions(st.test, fname[0]):
                        return False
                else:
                    return False
            return True
        if not ok(s.body) or fname[0] is None:
            return None
        if fname[0] not in env.vars or env.vars[fname[0]][1] != "LR" or fname[0] == ivar:
            return None
        return ivar, fname[0]

    def for_stmt(self, s, env, cont):
        if s.orelse:
            raise Unsupported("for ... else", s)
        if not isinstance(s.target, ast.Name):
            raise Unsupported("for target", s)
        if not (isinstance(s.iter, ast.Call) and is_name(s.iter.func, "range")):
            raise Unsupported("for loop over something other than range(..)", s)
        lo, hi = self.range_of(s.iter, env)
        pw = self.pointwise(s, env)
        if pw is not None:
            ivar, fname = pw
            fcn, _ = env.vars[fname]
            inner = env.copy()
            inner.vars.pop(ivar, None)
            icn = inner.fresh(ivar)
            inner.vars[ivar] = (icn, "Z")
            vcn = inner.fresh("v")
            # inside the body, f[i] is the scalar v: rewrite the statements to assignments to a scalar
            body = self.pw_block(s.body, inner, fname, ivar, vcn)
            new = LoopUpd(Var(fcn, "LR"), lo, hi, icn, vcn, body)
            env2 = env.copy()
            env2.bind(fname, "LR")
            return Let([fcn], new, cont(env2))
        names = self.state_of(self.assigned_names(s.body), env)
        if s.target.id in names:
            raise Unsupported("loop variable assigned in the loop", s)
        if not names:
            raise Unsupported("loop that assigns no live variable", s)
        inner = env.copy()
        inner.vars.pop(s.target.id, None)
        icn = inner.fresh(s.target.id)
        inner.vars[s.target.id] = (icn, "Z")

        def tup(e):
            items = []
            for nme in names:
                cn, ty = e.vars[nme]
                if ty != env.vars[nme][1]:
                    raise Unsupported("variable %s changes type inside a loop (%s -> %s)" % (nme, env.vars[nme][1], ty), s)
                items.append(Var(cn, ty))
            return Tuple(items)
        body = self.block(s.body, inner, tup)
        cns = [env.vars[nme][0] for nme in names]
        init = Tuple([Var(env.vars[nme][0], env.vars[nme][1]) for nme in names])
        fold = Fold(cns, icn, body, app("zrange", [lo, hi], "LZ"), init)
        return Let(cns, fold, cont(env))

    def pw_block(self, stmts, env, fname, ivar, vcn):
        """body of a pointwise loop as an expression in the scalar vcn"""
        def go(ss, k):
            if not ss:
                return k()
            st, rest = ss[0], ss[1:]
            if isinstance(st, ast.AugAssign):
                op = {"Add": "+", "Sub": "-", "Mult": "*", "Div": "/"}.get(type(st.op).__name__)
                if op is None:
                    raise Unsupported("augmented assignment " + type(st.op).__name__, st)
                val = self.arith(op, Var(vcn, "R"), self.expr(st.value, env), st)
                return Let([vcn], val, go(rest, k))
            if isinstance(st, ast.Assign):
                return Let([vcn], toR(self.expr(st.value, env), st), go(rest, k))
            if isinstance(st, ast.If):
                c = self.expr(st.test, env)
                if c.ty != "B":
                    raise Unsupported("non-boolean condition", st)
                a = go(st.body, lambda: Var(vcn, "R"))
                b = go(st.orelse, lambda: Var(vcn, "R"))
                return Let([vcn], If(c, a, b), go(rest, k))
            raise AssertionError
        return go(stmts, lambda: Var(vcn, "R"))

    def ret(self, e):
        return e


# helper-function signatures (positional parameter types, result type); a body that does not type-check
# under them is rejected
SIGNATURES = {
    "_correct_to_01": (["R"], "R"),
    "_create_A": (["Z", "B"], "LR"),
    "_calculate_x": (["LR", "LR"], "LR"),
    "_convex": (["LR", "Z"], "R"),
    "_concave": (["LR", "Z"], "R"),
    "_linear": (["LR", "Z"], "R"),
    "_mixed": (["LR", "R", "R"], "R"),
    "_disc": (["LR", "R", "R", "R"], "R"),
    "_calculate_f": (["R", "LR", "LR", "LR"], "LR"),
    "_WFG_calculate_f": (["LR", "LR"], "LR"),
    "_WFG1_shape": (["LR"], "LR"),
    "_WFG2_shape": (["LR"], "LR"),
    "_WFG3_shape": (["LR"], "LR"),
    "_WFG4_shape": (["LR"], "LR"),
    "_normalize_z": (["LR"], "LR"),
    "_s_linear": (["R", "R"], "R"),
    "_s_multi": (["R", "R", "R", "R"], "R"),
    "_s_decept": (["R", "R", "R", "R"], "R"),
    "_b_flat": (["R", "R", "R", "R"], "R"),
    "_b_poly": (["R", "R"], "R"),
    "_b_param": (["R", "R", "R", "R", "R"], "R"),
    "_r_sum": (["LR", "LR"], "R"),
    "_subvector": (["LR", "Z", "Z"], "LR"),
    "_r_nonsep": (["LR", "Z"], "R"),
    "_WFG1_t1": (["LR", "Z"], "LR"),
    "_WFG1_t2": (["LR", "Z"], "LR"),
    "_WFG1_t3": (["LR"], "LR"),
    "_WFG1_t4": (["LR", "Z", "Z"], "LR"),
    "_WFG2_t2": (["LR", "Z"], "LR"),
    "_WFG2_t3": (["LR", "Z", "Z"], "LR"),
    "_WFG4_t1": (["LR"], "LR"),
    "_WFG5_t1": (["LR"], "LR"),
    "_WFG6_t2": (["LR", "Z", "Z"], "LR"),
    "_WFG7_t1": (["LR", "Z"], "LR"),
    "_WFG8_t1": (["LR", "Z"], "LR"),
    "_WFG9_t1": (["LR"], "LR"),
    "_WFG9_t2": (["LR", "Z"], "LR"),
}
FUNCTION_ORDER = ["_correct_to_01", "_normalize_z", "_s_linear", "_s_multi", "_s_decept", "_b_flat", "_b_poly", "_b_param", "_subvector", "_r_sum", "_r_nonsep",
                  "_WFG1_t1", "_WFG1_t2", "_WFG1_t3", "_WFG1_t4", "_WFG2_t2", "_WFG2_t3", "_WFG4_t1", "_WFG5_t1", "_WFG6_t2", "_WFG7_t1", "_WFG8_t1",
                  "_WFG9_t1", "_WFG9_t2",
                  "_create_A", "_calculate_x", "_convex", "_concave", "_linear", "_mixed", "_disc",
                  "_calculate_f", "_WFG_calculate_f", "_WFG1_shape", "_WFG2_shape", "_WFG3_shape", "_WFG4_shape"]
CLASS_ORDER = ["DTLZ1", "DTLZ2", "DTLZ3", "DTLZ4", "DTLZ7", "ZDT1", "ZDT2", "ZDT3", "ZDT4", "ZDT6",
               "UF1", "UF2", "UF3", "UF4", "UF5", "UF6", "UF7", "UF8", "UF9", "UF10",
               "WFG1", "WFG2", "WFG3", "WFG4", "WFG5", "WFG6", "WFG7", "WFG8", "WFG9", "UF13",
               "CF1", "CF2", "CF3", "CF4", "CF5", "CF6", "CF7", "CF8", "CF9", "CF10"]
TY_COQ = {"Z": "Z", "R": "R", "B": "bool", "LR": "list R"}


class Translator:
    def __init__(self, problems_src, math_src=None):
        self.tree = ast.parse(problems_src)
        self.classes = {n.name: n for n in self.tree.body if isinstance(n, ast.ClassDef)}
        self.defs = {n.name: n for n in self.tree.body if isinstance(n, ast.FunctionDef)}
        self.functions = {}        # python name -> None (failed) | (ptys, rty, coqname)
        self.module_consts = {}
        self.results = {}          # name -> {"ok":bool, "error":str, "assumptions":[...]}
        self.out = []
        self.math_src = math_src
        self.resolve_imports()

    def resolve_imports(self):
        """from ._math import EPSILON  ->  EPSILON = sys.float_info.epsilon = 2^-52"""
        for n in self.tree.body:
            if isinstance(n, ast.ImportFrom) and n.module == "_math" and n.level == 1:
                for a in n.names:
                    if a.name == "EPSILON" and self.math_src is not None:
                        mt = ast.parse(self.math_src)
                        for m in mt.body:
                            if isinstance(m, ast.Assign) and len(m.targets) == 1 and is_name(m.targets[0], "EPSILON"):
                                if ast.unparse(m.value) == "sys.float_info.epsilon":
                                    self.module_consts[a.asname or a.name] = Const("R", Fraction(1, 2 ** 52))

    def ctor_default(self, cls, attr):
        """self.attr = <param> in __init__ with a literal default for <param>"""
        c = self.classes.get(cls)
        if c is None:
            return None
        for f in c.body:
            if isinstance(f, ast.FunctionDef) and f.name == "__init__":
                params = [a.arg for a in f.args.args]
                defaults = dict(zip(params[len(params) - len(f.args.defaults):], f.args.defaults))
                for st in f.body:
                    if isinstance(st, ast.Assign) and len(st.targets) == 1 and isinstance(st.targets[0], ast.Attribute) \
                            and is_name(st.targets[0].value, params[0]) and st.targets[0].attr == attr and isinstance(st.value, ast.Name):
                        d = defaults.get(st.value.id)
                        if isinstance(d, ast.Constant) and isinstance(d.value, (int, float)) and not isinstance(d.value, bool):
                            if isinstance(d.value, int):
                                return Const("Z", d.value), repr(d.value)
                            return Const("R", frac_of_float(d.value)), repr(d.value)
        return None

    EXTERNAL_BASES = {"Problem": ["nvars", "nobjs", "nconstrs", "function"]}     # platypus.core.Problem.__init__

    def ctor_super(self, cls, attr):
        """self.attr where the class's __init__ passes an expression over its own parameters (nobjs/nvars only) or
        constants to super().__init__ and the base __init__ stores that parameter as self.attr; returns the AST of the
        argument expression"""
        c = self.classes.get(cls)
        if c is None:
            return None
        init = [f for f in c.body if isinstance(f, ast.FunctionDef) and f.name == "__init__"]
        if len(init) != 1:
            return None
        init = init[0]
        own = [a.arg for a in init.args.args][1:]
        call = None
        for st in init.body:
            if isinstance(st, ast.Expr) and isinstance(st.value, ast.Call) and isinstance(st.value.func, ast.Attribute) \
                    and st.value.func.attr == "__init__" and isinstance(st.value.func.value, ast.Call) and is_name(st.value.func.value.func, "super"):
                call = st.value
        if call is None or call.keywords or len(c.bases) != 1 or not isinstance(c.bases[0], ast.Name):
            return None
        bname = c.bases[0].id
        if bname in self.classes:
            binit = [f for f in self.classes[bname].body if isinstance(f, ast.FunctionDef) and f.name == "__init__"]
            if len(binit) != 1:
                return None
            bparams = [a.arg for a in binit[0].args.args][1:]
            stored = None
            for st in binit[0].body:
                if isinstance(st, ast.Assign) and len(st.targets) == 1 and isinstance(st.targets[0], ast.Attribute) \
                        and is_name(st.targets[0].value, binit[0].args.args[0].arg) and st.targets[0].attr == attr and isinstance(st.value, ast.Name):
                    stored = st.value.id
            if stored is None or stored not in bparams:
                return None
            idx = bparams.index(stored)
        elif bname in self.EXTERNAL_BASES:
            if attr not in self.EXTERNAL_BASES[bname]:
                return None
            idx = self.EXTERNAL_BASES[bname].index(attr)
        else:
            return None
        if idx >= len(call.args):
            return ast.Constant(value=0) if (bname == "Problem" and attr == "nconstrs") else None
        arg = call.args[idx]
        for x in ast.walk(arg):
            if isinstance(x, ast.Name) and (x.id not in own or x.id not in ("nobjs", "nvars")):
                return None
            if not isinstance(x, (ast.Name, ast.Constant, ast.BinOp, ast.operator, ast.expr_context, ast.UnaryOp, ast.unaryop)):
                return None
        return arg

    # ---------------- emit
    def emit_def(self, coqname, params, rty, body, side, comment):
        ps = " ".join("(%s : %s)" % (p, TY_COQ[t]) for p, t in params)
        self.out.append("(* %s *)" % comment)
        self.out.append("Definition %s_eval %s : %s :=\n  %s.\n" % (coqname, ps, TY_COQ[rty], blk(body, "R", "  ")))
        self.out.append("Definition %s_defined %s : Prop :=\n  %s.\n" % (coqname, ps, side.pr("  ")))

    def do_function(self, name):
        sig = SIGNATURES[name]
        fd = self.defs.get(name)
        coqname = "fn_" + name.lstrip("_")
        try:
            if fd is None:
                raise Unsupported("function %s not found" % name)
            a = fd.args
            if a.vararg or a.kwarg or a.kwonlyargs or a.defaults or a.posonlyargs:
                raise Unsupported("parameter list of " + name, fd)
            if len(a.args) != len(sig[0]):
                raise Unsupported("%s: %d parameters, signature table has %d" % (name, len(a.args), len(sig[0])), fd)
            if fd.decorator_list:
                raise Unsupported("decorator", fd)
            env = Env(self, "function")
            params = []
            for p, t in zip(a.args, sig[0]):
                cn = env.bind(p.arg, t)
                params.append((cn, t))
            ft = FnTranslator(self, env)
            body = ft.block(fd.body, env, lambda e: (_ for _ in ()).throw(Unsupported("function %s can end without return" % name, fd)))
            if body.ty != sig[1]:
                if sig[1] == "R" and body.ty == "Z":
                    body = lift_result(body)
                else:
                    raise Unsupported("%s returns %s, signature table says %s" % (name, body.ty, sig[1]), fd)
            side = cond(body)
            self.emit_def(coqname, params, sig[1], body, side, "def %s" % name)
            self.functions[name] = (sig[0], sig[1], coqname, isinstance(side, PTrue))
            self.results[name] = {"ok": True, "error": "", "assumptions": sorted(set(env.assumptions)), "coq": coqname + "_eval"}
        except Unsupported as u:
            self.functions[name] = None
            self.results[name] = {"ok": False, "error": str(u), "assumptions": []}
            self.out.append("(* def %s: NOT TRANSLATED: %s *)\n" % (name, u.what.replace("*)", "* )")))

    def do_class(self, name):
        try:
            c = self.classes.get(name)
            if c is None:
                raise Unsupported("class %s not found" % name)
            ev = [f for f in c.body if isinstance(f, ast.FunctionDef) and f.name == "evaluate"]
            if len(ev) != 1:
                raise Unsupported("class %s has no evaluate of its own" % name, c)
            fd = ev[0]
            a = fd.args
            if a.vararg or a.kwarg or a.kwonlyargs or a.defaults or a.posonlyargs or len(a.args) != 2 or fd.decorator_list:
                raise Unsupported("signature of %s.evaluate" % name, fd)
            env = Env(self, "method", name)
            ft = FnTranslator(self, env, selfname=a.args[0].arg, solname=a.args[1].arg)

            def fin(e):
                if "$objs" not in e.vars:
                    raise Unsupported("evaluate never stores objectives", fd)
                return Var("objs", "LR")
            body = ft.block(fd.body, env, fin)
            side = cond(body)
            params = [("nobjs", "Z"), ("nvars", "Z")] + [env.extra_params[k_] for k_ in sorted(env.extra_params)] + [("xs", "LR")]
            self.emit_def(name, params, "LR", body, side, "class %s: evaluate" % name)
            env_c = Env(self, "method", name)
            ft_c = FnTranslator(self, env_c, selfname=a.args[0].arg, solname=a.args[1].arg)
            has_cons = [False]

            def fin_c(e):
                has_cons[0] = "$cons" in e.vars
                return Var("cons", "LR") if has_cons[0] else Var("objs", "LR")
            body_c = ft_c.block(fd.body, env_c, fin_c)
            if has_cons[0]:
                ps = " ".join("(%s : %s)" % (p_, TY_COQ[t_]) for p_, t_ in params)
                self.out.append("(* class %s: evaluate, the constraint values *)" % name)
                self.out.append("Definition %s_constr_eval %s : list R :=\n  %s.\n" % (name, ps, blk(body_c, "R", "  ")))
            self.results[name] = {"ok": True, "error": "", "assumptions": sorted(set(env.assumptions)), "coq": name + "_eval"}
        except Unsupported as u:
            self.results[name] = {"ok": False, "error": str(u), "assumptions": []}
            self.out.append("(* class %s: NOT TRANSLATED: %s *)\n" % (name, u.what.replace("*)", "* )")))

    def run(self, classes=None, functions=None):
        self.out = ["(* GENERATED by harness/translate/py2coq.py from platypus/problems.py — do not edit.\n"
                    "   Regenerated on every run of ./check C18; rewritten only when its content changes.\n"
                    "   Reading of Python: float -> R, int -> Z, list -> list R; see coq/Base/RList.v for every helper. *)",
                    PRELUDE_IMPORT]
        for f in (functions if functions is not None else FUNCTION_ORDER):
            self.do_function(f)
        for c in (classes if classes is not None else CLASS_ORDER):
            self.do_class(c)
        return "\n".join(self.out), self.results


def lift_result(body):
    if isinstance(body, Let):
        b2 = Let(body.names, body.e, lift_result(body.body))
        if hasattr(body, "extra_side"):
            b2.extra_side = body.extra_side
        return b2
    if isinstance(body, If):
        return If(body.c, lift_result(body.a), lift_result(body.b))
    return toR(body)


def translate_repo(repo):
    with open(os.path.join(repo, "platypus", "problems.py")) as f:
        src = f.read()
    msrc = None
    mp = os.path.join(repo, "platypus", "_math.py")
    if os.path.exists(mp):
        with open(mp) as f:
            msrc = f.read()
    return Translator(src, msrc).run()


def write_if_changed(path, text):
    old = None
    if os.path.exists(path):
        with open(path) as f:
            old = f.read()
    if old == text:
        return False
    tmp = path + ".tmp"
    with open(tmp, "w") as f:
        f.write(text)
    os.replace(tmp, path)
    return True


if __name__ == "__main__":
    import sys
    repo = sys.argv[1] if len(sys.argv) > 1 else os.environ.get("VERIF_REPO", "/repo")
    text, res = translate_repo(repo)
    if len(sys.argv) > 2:
        print("changed" if write_if_changed(sys.argv[2], text + "\n") else "unchanged")
    else:
        print(text)
    for k, v in res.items():
        print("%-18s %s %s" % (k, "ok" if v["ok"] else "FAILED", v["error"]), file=sys.stderr)
