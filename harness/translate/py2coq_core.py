"""py2coq_core — fail-closed translator from the imperative comparison/decision core of Platypus
(platypus/core.py, _math.py, types.py) to Gallina.  Second, independent tie of C02/C03/C04/C05/C06/C08/C11/C17:
coq/Gen/Core.v is REGENERATED from the source text of C.REPO on every run and coq/Tie/Txx.v proves
`generated definition = hand model`; an edit of the source therefore breaks a proof obligation.
(py2coq.py is the translator for the real-valued benchmark problems, C18; the two share nothing.)

READING OF PYTHON (the trusted part; the Coq side of every item is defined in coq/Base/PyCore.v)
  values     what a function may read is DECLARED per function in SPECS below: each input is an access path from a
             positional parameter ("1.problem.nobjs" = <second parameter>.problem.nobjs; parameter NAMES are never
             used) with a type:  V float-valued number in an abstract carrier with a record O : NumOps V of
             operations, Z Python int, B bool, T opaque object, Dir a Direction (only ever compared with
             Direction.MAXIMIZE; represented by that boolean), L t list, F callee (a method/function the
             translated code calls and the translator does not look into; it is a parameter of the generated
             definition; `partial` callees may raise).  Reading any other attribute aborts.
  numbers    <,<=,==,!=,>,>= on V are n_lt/n_le/n_eq of the record (a > b is n_lt b a, a >= b is n_le b a,
             a != b is negb (n_eq a b)); on Z they are Z.ltb/leb/gtb/geb/eqb; on B Bool.eqb.
             + - * unary-minus abs math.floor = n_add n_sub n_mul n_neg n_abs n_floor (Z.add ... on ints);
             a / b on V = py_div (ZeroDivisionError when b == 0); math.pow(x, 2.0) and x ** 2 = n_mul x x
             (exact reading; libm pow is not modelled); float(x) = x on V, n_of_Z x on Z.
             A numeric literal in a V position is n_lit O (n # d) with n/d the EXACT value (float literal: its
             binary64 value, fractions.Fraction(float)); an int-typed expression in a V position is n_of_Z O e.
             min(a, b) / max(a, b) = py_min / py_max (CPython keeps the FIRST argument unless the second is
             strictly smaller / larger: argument order is kept).  A bool used in arithmetic is b2z.
  control    a function body without loops, partial operations and fall-through-after-return is translated to a
             plain Gallina expression (if/elif/else chains of returns, lets).  Otherwise it is translated in the
             ctl style of PyCore.v and the function returns option (None = an exception was raised).
             xs[i] = py_index (IndexError = Raise), calls of partial callees and "/" are evaluated before the
             statement that contains them (they may not occur under and/or/conditional-expression operands
             that Python might skip: that aborts).
             for i in range(n) / for x in xs = for_range / for_list threading exactly the locals that the body
             assigns and that exist before the loop, in the order of their first binding; a local first bound
             inside the loop is not visible after it (reading it aborts).  while loops run on explicit fuel.
             An attribute store is only accepted on a path declared in `state`; the generated function then
             returns (final value of the state paths..., return value).
  ignored    docstrings, comments, formatting, `pass`, calls of LOGGER.* / logging.* / print / warnings.warn
             in statement position; names of locals and parameters.
  phase 2    generators: a function with `yield` denotes the LIST of the values it yields (list(gen(...)) at the callers);
             "it = iter(X); try: while True: ...next(it)... except StopIteration: H" is read as "for x in X: ...; H" (only
             when next(it) occurs once, in the first statement of the loop body, `it` is used nowhere else and nothing
             else in the body is a call).  [e for x in xs if c] = map/filter; a comprehension element may contain several
             partial operations (obind, left to right).  sum(xs) = fold_left + from the literal 0; min(xs)/max(xs) on a
             list = first smallest/largest, ValueError = None; xs[:k] with an int k = py_upto_z; xs[:] = a copy.
             `break` in a while = a flag tested first by the loop condition; `return` inside a while is allowed.
             b.extend(xs) on a fresh, non-escaping local list = b ++ xs.  Tuples are products.
             obj.attr[:] = e on a declared state path replaces the attribute (FixedLengthArray conversion not modelled).
             A function with ret=None is a procedure: its result is the tuple of final values of its state paths.
             `effects`: a declared callee (method of self / of an opaque local / a parameter) is a FUNCTION from the declared
             attributes it reads to the declared attributes it writes; nothing else is assumed to change.  An attribute of
             an object that is itself a changing state value is read through a declared reader (self._extensions).
             `assume`: the outcome of an if-test is DECLARED (isinstance(x, int), callback is not None); only the taken
             branch is translated, the assumption is printed above the generated definition, and the same Python function
             may be translated once per assumption set.  Callees may be declared with keyword names and the Python default
             of an omitted keyword (kwdefaults) — a declared fact about the callee's signature.
  phase 3    `effects` may take ordinary value arguments, return a value (x = self.selector.select(...)), update a local list
             argument in place, and may be partial; b.extend(<effect call>) is tmp = <effect call>; b.extend(tmp).  The
             pseudo state path "$world" stands for everything such effects read and change besides their arguments.
             xs[i] = e, xs[i] op= e and a, b = c, d (right-hand sides first, then the targets left to right) store into
             an OWNED list: a declared state path (also a list parameter declared as state: the updated list is part of
             the result) or a fresh non-escaping local; py_set = functional update, IndexError = None.
             `break` in a for loop = a flag; later iterations are skipped.  a % b on ints = py_mod (ZeroDivisionError).
             `attr_identity`: a declared attribute is read as the object itself (a solution represented by its
             normalized_objectives vector in indicators.Hypervolume).
  phase 4    range(a, b) and range(a, b, -1) = for_range2 / for_range_down; [v] * n = py_repeat; raise X(...) = Raise (the
             kind of exception is not kept); A[i][j] = v / op= v on an owned list of lists reads the row, updates it and
             stores it back (rows are assumed not to be shared between positions); a break belongs to its innermost loop,
             so an inner while with break inside an outer while is accepted.
Anything else raises Unsupported naming the construct and line: the function is NOT emitted, its
`translate:<function>` obligation is broken, and every Tie file that mentions it no longer builds.
"""
import ast
import atexit
import fcntl
import os
import re
import time
from fractions import Fraction


class Unsupported(Exception):
    def __init__(self, what, node=None):
        self.what = what
        self.line = getattr(node, "lineno", None)
        super().__init__("%s (line %s)" % (what, self.line) if self.line else what)


class NeedCtl(Exception):
    """the pure (expression) style does not apply: retry in ctl style"""


# ----------------------------------------------------------------------------------------------- types
V, Z, B, T, DIR = "V", "Z", "B", "T", "Dir"
ZLIT = "Zlit"          # an int literal: Z or, in a V position, n_lit


def L(t):
    return ("L", t)


def F(args, ret, partial=False, kw=(), kwdefaults=None):
    """callee type; the last len(kw) arguments may be passed by keyword under these names; kwdefaults gives the Coq
    term used when such an argument is omitted at the call (the Python default of the callee, DECLARED here)"""
    return ("F", tuple(args), ret, bool(partial), tuple(kw), tuple(sorted((kwdefaults or {}).items())))


def is_list(t):
    return isinstance(t, tuple) and t[0] == "L"


def is_fun(t):
    return isinstance(t, tuple) and t[0] == "F"


def coq_type(t, top=True):
    if t is None:
        return "_"           # element type of a list that was created empty and not yet stored into
    if t == V:
        return "V"
    if t == Z:
        return "Z"
    if t == B:
        return "bool"
    if t == T:
        return "T"
    if t == DIR:
        return "bool"
    if isinstance(t, str) and t.startswith("T_"):
        return t[2:]                      # a further opaque carrier (Section variable of Gen/Core.v)
    if is_list(t):
        s = "list " + coq_type(t[1], False)
        return s if top else "(" + s + ")"
    if is_fun(t):
        r = coq_type(t[2], False)
        if t[3]:
            r = "option " + r
        s = " -> ".join([coq_type(a, False) for a in t[1]] + [r])
        return s if top else "(" + s + ")"
    if isinstance(t, tuple) and t[0] == "P":
        s = " * ".join(coq_type(a, False) for a in t[1])
        return s if top else "(" + s + ")"
    raise AssertionError(t)


# ----------------------------------------------------------------------------------------------- specs
class Spec:
    def __init__(self, coq, file, qual, inputs, ret, state=(), defaults=(), effects=None, assume=None, attr_identity=()):
        self.coq, self.file, self.qual = coq, file, qual
        self.key = qual           # name of the translate:<key> obligation (several definitions may come from one function)
        # effects: {callee path: {"args": [object paths], "reads": [state/input paths], "writes": [state paths]}} — a callee
        #   that updates the listed attributes of the objects it is given, as a function of the listed ones
        self.effects = dict(effects or {})
        # assume: {python expression text: bool} — tests whose outcome is DECLARED (e.g. isinstance(x, int)); printed in the output
        self.assume = dict(assume or {})
        self.used_assumptions = []
        # attr_identity: attributes that are read as the object itself (a solution REPRESENTED BY its normalized_objectives vector)
        self.attr_identity = set(attr_identity)
        self.inputs = list(inputs)          # (path, coqname, type)
        self.ret = ret
        self.state = list(state)            # paths that may be stored; must be inputs
        self.defaults = list(defaults)      # coqnames whose Python default value is emitted as <coq>_default_<name>


PARETO_INPUTS = [
    ("1.problem.nconstrs", "nconstrs", Z), ("1.problem.nobjs", "nobjs", Z), ("1.problem.directions", "directions", L(DIR)),
    ("1.constraint_violation", "cv1", V), ("1.objectives", "objs1", L(V)),
    ("2.constraint_violation", "cv2", V), ("2.objectives", "objs2", L(V)),
]

SPECS = [
    Spec("constraint_eq", "platypus/core.py", "_constraint_eq", [("0", "x", V), ("1", "y", V)], V),
    Spec("constraint_leq", "platypus/core.py", "_constraint_leq", [("0", "x", V), ("1", "y", V)], V),
    Spec("constraint_geq", "platypus/core.py", "_constraint_geq", [("0", "x", V), ("1", "y", V)], V),
    Spec("constraint_neq", "platypus/core.py", "_constraint_neq", [("0", "x", V), ("1", "y", V)], V),
    Spec("constraint_lt", "platypus/core.py", "_constraint_lt", [("0", "x", V), ("1", "y", V), ("2", "delta", V)], V, defaults=["delta"]),
    Spec("constraint_gt", "platypus/core.py", "_constraint_gt", [("0", "x", V), ("1", "y", V), ("2", "delta", V)], V, defaults=["delta"]),
    Spec("ParetoDominance_compare", "platypus/core.py", "ParetoDominance.compare", PARETO_INPUTS, Z),
    Spec("AttributeDominance_compare", "platypus/core.py", "AttributeDominance.compare",
         [("0.getter", "getter", F([T], V)), ("0.larger_preferred", "larger_preferred", B), ("1", "solution1", T), ("2", "solution2", T)], Z),
    Spec("clip", "platypus/_math.py", "clip", [("0", "value", V), ("1", "min_value", V), ("2", "max_value", V)], V),
    Spec("MaxEvaluations_shouldTerminate", "platypus/core.py", "MaxEvaluations.shouldTerminate",
         [("0.nfe", "max_nfe", Z), ("0.starting_nfe", "starting_nfe", Z), ("1.nfe", "algorithm_nfe", Z)], B),
    Spec("nondominated_sort_cmp", "platypus/core.py", "nondominated_sort_cmp",
         [("0.rank", "x_rank", Z), ("0.crowding_distance", "x_crowding", V), ("1.rank", "y_rank", Z), ("1.crowding_distance", "y_crowding", V)], Z),
    Spec("Integer_decode", "platypus/types.py", "Integer.decode",
         [("bin2int", "bin2int", F([L(B)], Z, partial=True)), ("gray2bin", "gray2bin", F([L(B)], L(B), partial=True)),
          ("0.min_value", "min_value", Z), ("0.max_value", "max_value", Z), ("1", "bits", L(B))], Z),
    Spec("Integer_encode", "platypus/types.py", "Integer.encode",
         [("bin2gray", "bin2gray", F([L(B)], L(B))), ("int2bin", "int2bin", F([Z, Z], L(B), partial=True)),
          ("0.min_value", "min_value", Z), ("0.nbits", "nbits", Z), ("1", "value", Z)], L(B)),
    Spec("Archive_add", "platypus/core.py", "Archive.add",
         [("0._dominance.compare", "compare", F([T, T], Z, partial=True)), ("0._contents", "contents", L(T)), ("1", "solution", T)], B,
         state=["0._contents"]),
    Spec("EpsilonDominance_same_box", "platypus/core.py", "EpsilonDominance.same_box",
         [("0.epsilons", "epsilons", L(V))] + PARETO_INPUTS, B),
    Spec("EpsilonDominance_compare", "platypus/core.py", "EpsilonDominance.compare",
         [("0.epsilons", "epsilons", L(V))] + PARETO_INPUTS, Z),
    Spec("bin2int", "platypus/types.py", "bin2int", [("0", "bits", L(B))], Z),
    Spec("gray2bin", "platypus/types.py", "gray2bin", [("0", "bits", L(B))], L(B)),
    Spec("bin2gray", "platypus/types.py", "bin2gray", [("0", "bits", L(B))], L(B)),
    Spec("int2bin", "platypus/types.py", "int2bin", [("fuel", "fuel", "nat"), ("0", "n", Z), ("1", "nbits", Z)], L(B)),
]
SPECS += [
    # list(_chunks(items, n)): the sequence of chunks the generator yields
    Spec("chunks", "platypus/evaluator.py", "_chunks", [("0", "items", L(T)), ("1", "n", Z)], L(L(T))),
]
KEY, CMP, VAL, TY = "T_Key", "T_Cmp", "T_Val", "T_Ty"
SPECS += [
    Spec("matches_gen", "platypus/filters.py", "_matches",
         [("0", "solutions", L(T)), ("1", "value", Z), ("2", "key", F([T], Z))], L(T)),
    Spec("matches", "platypus/filters.py", "matches",
         [("_matches", "matches_gen", F([L(T), Z, F([T], Z)], L(T), partial=True, kw=("key",))),
          ("0", "solutions", L(T)), ("1", "value", Z), ("2", "key", F([T], Z))], L(T)),
    Spec("truncate", "platypus/filters.py", "truncate",
         [("sorted", "sorted", F([L(T), KEY, B], L(T), kw=("key", "reverse"))),
          ("0", "solutions", L(T)), ("1", "size", Z), ("2", "key", KEY), ("3", "reverse", B)], L(T), defaults=["reverse"]),
    Spec("nondominated_truncate", "platypus/core.py", "nondominated_truncate",
         [("truncate", "truncate", F([L(T), Z, KEY, B], L(T), kw=("key", "reverse"), kwdefaults={"reverse": "false"})),
          ("functools.cmp_to_key", "cmp_to_key", F([CMP], KEY)), ("nondominated_sort_cmp", "sort_cmp", CMP),
          ("0", "solutions", L(T)), ("1", "size", Z)], L(T)),
    Spec("truncate_fitness", "platypus/core.py", "truncate_fitness",
         [("truncate", "truncate", F([L(T), Z, KEY, B], L(T), kw=("key", "reverse"), kwdefaults={"reverse": "false"})),
          ("0", "solutions", L(T)), ("1", "size", Z), ("2", "larger_preferred", B), ("3", "getter", KEY)], L(T),
         defaults=["larger_preferred"]),
    Spec("nondominated_split", "platypus/core.py", "nondominated_split",
         [("fuel", "fuel", "nat"), ("matches", "matches", F([L(T), Z, KEY], L(T), kw=("key",))), ("rank_key", "rank_key", KEY),
          ("0", "solutions", L(T)), ("1", "size", Z)], ("P", (L(T), L(T)))),
    # Problem.__call__(solution): a procedure on the attributes of the solution
    Spec("Problem_call", "platypus/core.py", "Problem.__call__",
         [("0.evaluate", "evaluate", F([L(VAL)], ("P", (L(V), L(V))))),
          ("@T_Ty.decode", "decode", F([TY, VAL], VAL)), ("@T_Ty.encode", "encode", F([TY, VAL], VAL)),
          ("1.problem.types", "types", L(TY)), ("1.problem.nvars", "nvars", Z),
          ("1.problem.constraints", "constraint_functions", L(F([V], V))),
          ("1.variables", "variables", L(VAL)), ("1.objectives", "objectives", L(V)), ("1.constraints", "constraints", L(V)),
          ("1.constraint_violation", "constraint_violation", V), ("1.feasible", "feasible", B), ("1.evaluated", "evaluated", B)],
         None,
         state=["1.variables", "1.objectives", "1.constraints", "1.constraint_violation", "1.feasible", "1.evaluated"],
         effects={"0.evaluate": {"args": ["1"], "reads": ["1.variables"], "writes": ["1.objectives", "1.constraints"]}}),
]
ST, EXT, COND = "T_St", "T_Ext", "T_Cond"


def run_spec(coq, with_callback):
    """Algorithm.run(condition, callback): `self` is an opaque state that every hook / step / callback transforms"""
    return Spec(coq, "platypus/core.py", "Algorithm.run",
                [("fuel", "fuel", "nat"),
                 ("0._extensions", "extensions_of", F([ST], L(EXT))),
                 ("@T_Ext.start_run", "ext_start_run", F([EXT, ST], ST)), ("@T_Ext.pre_step", "ext_pre_step", F([EXT, ST], ST)),
                 ("@T_Ext.post_step", "ext_post_step", F([EXT, ST], ST)), ("@T_Ext.end_run", "ext_end_run", F([EXT, ST], ST)),
                 ("0.step", "step", F([ST], ST)),
                 ("1.initialize", "initialize", F([COND, ST], COND)), ("1()", "should_stop", F([COND, ST], B)),
                 ("2", "callback", F([ST], ST)),
                 ("0", "self", ST), ("1", "condition", COND)],
                None, state=["0", "1"],
                effects={"@T_Ext.start_run": {"args": ["0"], "reads": ["0"], "writes": ["0"]},
                         "@T_Ext.pre_step": {"args": ["0"], "reads": ["0"], "writes": ["0"]},
                         "@T_Ext.post_step": {"args": ["0"], "reads": ["0"], "writes": ["0"]},
                         "@T_Ext.end_run": {"args": ["0"], "reads": ["0"], "writes": ["0"]},
                         "0.step": {"args": [], "reads": ["0"], "writes": ["0"]},
                         "1.initialize": {"args": ["0"], "reads": ["1", "0"], "writes": ["1"]},
                         "2": {"args": ["0"], "reads": ["0"], "writes": ["0"]}},
                assume={"isinstance(<1>, int)": False, "isinstance(<1>, TerminationCondition)": True,
                        "<2> is not None": with_callback})


SPECS += [run_spec("Algorithm_run", True), run_spec("Algorithm_run_no_callback", False)]
W = "T_W"
WORLD = ("$world", "world", W)      # everything the declared effects may read and change besides their arguments (RNG, nfe, evaluator)
EFF_W = {"reads": ["$world"], "writes": ["$world"]}
SORT_INPUTS = [("sorted", "sorted", F([L(T), KEY], L(T), kw=("key",))), ("functools.cmp_to_key", "cmp_to_key", F([CMP], KEY)),
               ("0.comparator", "comparator", CMP)]
SPECS += [
    Spec("GeneticAlgorithm_iterate", "platypus/algorithms.py", "GeneticAlgorithm.iterate",
         [("fuel", "fuel", "nat"), WORLD,
          ("0.selector.select", "select", F([W, Z, L(T)], ("P", (W, L(T))))),
          ("0.variator.evolve", "evolve", F([W, L(T)], ("P", (W, L(T))))), ("0.variator.arity", "arity", Z),
          ("0.evaluate_all", "evaluate_all", F([W, L(T)], ("P", (W, L(T))))),
          ("0.offspring_size", "offspring_size", Z), ("0.population_size", "population_size", Z)] + SORT_INPUTS +
         [("0.population", "population", L(T)), ("0.fittest", "fittest", T)],
         None, state=["$world", "0.population", "0.fittest"],
         effects={"0.selector.select": dict(EFF_W, vals=[Z, L(T)], ret=L(T)),
                  "0.variator.evolve": dict(EFF_W, vals=[L(T)], ret=L(T)),
                  "0.evaluate_all": dict(EFF_W, vals=[L(T)], inplace=[0])}),
    Spec("EvolutionaryStrategy_iterate", "platypus/algorithms.py", "EvolutionaryStrategy.iterate",
         [WORLD, ("0.variator.evolve", "evolve", F([W, L(T)], ("P", (W, L(T))))),
          ("0.evaluate_all", "evaluate_all", F([W, L(T)], ("P", (W, L(T))))),
          ("0.offspring_size", "offspring_size", Z), ("0.population_size", "population_size", Z)] + SORT_INPUTS +
         [("0.population", "population", L(T))],
         None, state=["$world", "0.population"],
         effects={"0.variator.evolve": dict(EFF_W, vals=[L(T)], ret=L(T)),
                  "0.evaluate_all": dict(EFF_W, vals=[L(T)], inplace=[0])}),
    Spec("GDE3_survival", "platypus/algorithms.py", "GDE3.survival",
         [("0.dominance.compare", "compare", F([T, T], Z)),
          ("nondominated_sort", "nondominated_sort", F([L(T)], L(T), partial=True)),
          ("nondominated_prune", "nondominated_prune", F([L(T), Z], L(T), partial=True)),
          ("0.population_size", "population_size", Z), ("0.population", "population", L(T)), ("1", "offspring", L(T))],
         L(T),
         effects={"nondominated_sort": {"reads": [], "writes": [], "vals": [L(T)], "inplace": [0], "partial": True}}),
]
SPECS += [
    # lsolve(A, b): A and b are updated in place (owned by the call); result = (A, b, x)
    Spec("lsolve", "platypus/_math.py", "lsolve", [("EPSILON", "eps", V), ("0", "A", L(L(V))), ("1", "b", L(V))], L(V), state=["0", "1"]),
]
PT = L(V)       # a solution represented by its normalized_objectives vector
HV = dict(attr_identity=["normalized_objectives"])
SPECS += [
    Spec("Hypervolume_dominates", "platypus/indicators.py", "Hypervolume.dominates",
         [("1", "solution1", PT), ("2", "solution2", PT), ("3", "nobjs", Z)], B, **HV),
    Spec("Hypervolume_swap", "platypus/indicators.py", "Hypervolume.swap",
         [("1", "solutions", L(PT)), ("2", "i", Z), ("3", "j", Z)], None, state=["1"], **HV),
    Spec("Hypervolume_surface_unchanged_to", "platypus/indicators.py", "Hypervolume.surface_unchanged_to",
         [("1", "solutions", L(PT)), ("2", "nsols", Z), ("3", "obj", Z)], V, **HV),
    Spec("Hypervolume_filter_nondominated", "platypus/indicators.py", "Hypervolume.filter_nondominated",
         [("fuel", "fuel", "nat"), ("0.dominates", "dominates", F([PT, PT, Z], B, partial=True)),
          ("0.swap", "swap", F([L(PT), Z, Z], L(PT), partial=True)),
          ("1", "solutions", L(PT)), ("2", "nsols", Z), ("3", "nobjs", Z)], Z, state=["1"],
         effects={"0.swap": {"args": ["1"], "vals": [Z, Z], "reads": ["1"], "writes": ["1"], "partial": True}}, **HV),
    Spec("Hypervolume_reduce_set", "platypus/indicators.py", "Hypervolume.reduce_set",
         [("fuel", "fuel", "nat"), ("0.swap", "swap", F([L(PT), Z, Z], L(PT), partial=True)),
          ("1", "solutions", L(PT)), ("2", "nsols", Z), ("3", "obj", Z), ("4", "threshold", V)], Z, state=["1"],
         effects={"0.swap": {"args": ["1"], "vals": [Z, Z], "reads": ["1"], "writes": ["1"], "partial": True}}, **HV),
]
NOT_SOLUTIONS = {"isinstance(<0>, Solution)": False, "isinstance(<1>, Solution)": False}
SPECS += [
    # distance.py on two objective vectors (the isinstance(…, Solution) unwrapping is declared not taken)
    Spec("manhattan_dist", "platypus/distance.py", "manhattan_dist", [("0", "x", L(V)), ("1", "y", L(V))], V, assume=NOT_SOLUTIONS),
    Spec("euclidean_dist", "platypus/distance.py", "euclidean_dist",
         [("math.sqrt", "sqrt", F([V], V)), ("0", "x", L(V)), ("1", "y", L(V))], V, assume=NOT_SOLUTIONS),
]
[sp for sp in SPECS if sp.coq == "Algorithm_run_no_callback"][0].key = "Algorithm.run[callback=None]"
SPEC_BY_QUAL = {s.key: s for s in SPECS}

RESERVED = set("""
as at cofix else end exists exists2 fix for forall fun if IF in let match mod return Set Prop Type then using where with
V O T Z Q nat list bool option true false Some None tt negb andb orb xorb fst snd pair map seq nth length app rev
ctl Next Ret Raise bind get finish for_list for_range while_fuel zrange py_index py_len map_opt py_compress py_any py_zip
py_upto py_from py_but_last py_div py_min py_max b2z py_last NumOps Qops yielded brk obind py_sum py_upto_z py_list_min py_list_max py_mod world py_set list_upd py_repeat for_range2 for_range_down zrange2 zrange_down
n_lt n_le n_eq n_neg n_add n_sub n_mul n_div n_abs n_floor n_of_Z n_lit
""".split())

IDENT = re.compile(r"^[A-Za-z_][A-Za-z0-9_']*$")


def atom(s):
    if IDENT.match(s) or re.match(r"^\d+$", s):
        return s
    if s.startswith("(") and s.endswith(")"):
        # balanced outer parentheses?
        d = 0
        for k, ch in enumerate(s):
            d += ch == "("
            d -= ch == ")"
            if d == 0 and k < len(s) - 1:
                break
        else:
            return s
    if s.startswith("[") and s.endswith("]") and s.count("[") == 1:
        return s
    return "(" + s + ")"


def zlit(n):
    return "%d" % n if n >= 0 else "(%d)" % n


def qlit(fr):
    return "(n_lit O (%s # %d))" % (zlit(fr.numerator), fr.denominator)


class X:
    """a translated expression: text, type; for conditional expressions and literals the parts are kept so that a
    coercion can be pushed to the leaves"""

    def __init__(self, s, ty, lit=None, cond=None, fresh=False):
        self.s, self.ty, self.lit, self.cond = s, ty, lit, cond
        self.fresh = fresh      # a list object created by this very expression (no other reference to it exists)


def coerce(x, ty, node=None):
    """deliver x at type ty (ty in V, Z, B, list..., T)"""
    if x.ty == ty:
        return x
    if is_list(x.ty) and is_list(ty) and (x.ty[1] is None or ty[1] is None):
        return X(x.s, ty if x.ty[1] is None else x.ty)
    if isinstance(x.ty, tuple) and isinstance(ty, tuple) and x.ty[0] == "P" and ty[0] == "P" and len(x.ty[1]) == len(ty[1]) \
            and all(a == b or (is_list(a) and is_list(b) and (a[1] is None or b[1] is None)) for a, b in zip(x.ty[1], ty[1])):
        return X(x.s, ty)
    if x.cond is not None and x.ty in (ZLIT, Z, V):
        c, a, b = x.cond
        a2, b2 = coerce(a, ty, node), coerce(b, ty, node)
        return X("if %s then %s else %s" % (c.s, a2.s, b2.s), ty, cond=(c, a2, b2))
    if x.ty == ZLIT and ty == Z:
        return X(zlit(x.lit), Z)
    if x.ty == ZLIT and ty == V:
        return X(qlit(Fraction(x.lit)), V)
    if x.ty == Z and ty == V:
        return X("n_of_Z O %s" % atom(x.s), V)
    if x.ty == DIR and ty == B:
        raise Unsupported("a Direction used as a boolean", node)
    raise Unsupported("type mismatch: %s where %s is expected" % (show_ty(x.ty), show_ty(ty)), node)


def show_ty(t):
    try:
        return "int-literal" if t == ZLIT else coq_type(t)
    except AssertionError:
        return str(t)


def settle(x):
    """an int literal nobody forced to be a float is an int"""
    if x.ty == ZLIT:
        return coerce(x, Z)
    return x


def num_join(a, b, node):
    """common numeric type of two operands"""
    ta, tb = a.ty, b.ty
    if V in (ta, tb):
        if ta not in (V, Z, ZLIT) or tb not in (V, Z, ZLIT):
            raise Unsupported("arithmetic/comparison between %s and %s" % (show_ty(ta), show_ty(tb)), node)
        return V
    if ta in (Z, ZLIT) and tb in (Z, ZLIT):
        return ZLIT if (ta == ZLIT and tb == ZLIT) else Z
    raise Unsupported("arithmetic/comparison between %s and %s" % (show_ty(ta), show_ty(tb)), node)


# ----------------------------------------------------------------------------------------------- environment
class Env:
    def __init__(self, spec):
        self.spec = spec
        self.inputs = {p: (c, t) for p, c, t in spec.inputs}
        self.names = {}        # python name -> ("path", path) | ("local", coqname, type)
        self.order = []        # python names of locals in order of first binding
        self.state = {p: self.inputs[p] for p in spec.state}   # state path -> (coqname, type) current value
        self.used = set(c for _, c, _ in spec.inputs) | set(RESERVED)
        self.counter = 0
        self.fresh_lists = set()   # python names of locals bound to a list nobody else references

    def copy(self):
        e = Env.__new__(Env)
        e.spec, e.inputs = self.spec, self.inputs
        e.names, e.order, e.state = dict(self.names), list(self.order), dict(self.state)
        e.fresh_lists = set(self.fresh_lists)
        e.used = self.used          # shared on purpose: fresh names are unique per function
        e.counter = self.counter
        return e

    def coqname(self, pyname):
        if pyname == "%out":
            return "yielded"
        if pyname == "%brk":
            return "brk"
        n = pyname.lstrip("_") or "v"
        n = "".join(ch if (ch.isalnum() or ch == "_") else "_" for ch in n)
        if not n[0].isalpha():
            n = "v" + n
        while n in RESERVED or n in {c for _, c, _ in self.spec.inputs}:
            n += "_"
        return n

    def bind(self, pyname, ty):
        c = self.coqname(pyname)
        self.names[pyname] = ("local", c, ty)
        if pyname not in self.order:
            self.order.append(pyname)
        return c

    def fresh(self, base="t"):
        while True:
            self.counter += 1
            n = "%s%d" % (base, self.counter)
            if n not in self.used and not any(v[0] == "local" and v[1] == n for v in self.names.values()):
                self.used.add(n)
                return n

    def is_prefix(self, path):
        return any(p.startswith(path + ".") for p in self.inputs)


# ----------------------------------------------------------------------------------------------- statements as lines
def indent(lines, k=2):
    return [" " * k + ln for ln in lines]


def tuple_of(names):
    if not names:
        return "tt"
    if len(names) == 1:
        return names[0]
    return "(" + ", ".join(names) + ")"


def pat_of(names, types=None):
    """binder pattern; with types the binder is annotated (needed where Coq sees the function before its argument)"""
    if types is None:
        if not names:
            return "_"
        if len(names) == 1:
            return names[0]
        return "'(" + ", ".join(names) + ")"
    if not names:
        return "(_ : unit)"
    if len(names) == 1:
        return "(%s : %s)" % (names[0], coq_type(types[0]))
    return "'((%s) : %s)" % (", ".join(names), " * ".join(coq_type(t, False) for t in types))


IGNORED_CALL_ROOTS = {"LOGGER", "logging", "warnings", "logger"}


class FnTranslator:
    def __init__(self, spec, fn, cls=None):
        self.spec, self.fn, self.cls = spec, fn, cls
        self.pure = True
        self.uses_fuel = False
        self.tainted = set()       # locals that were ever bound to a list that is not fresh
        self.loop_tails = []
        self.generator = any(isinstance(x, (ast.Yield, ast.YieldFrom)) for x in ast.walk(fn))
        if any(isinstance(x, ast.YieldFrom) for x in ast.walk(fn)):
            raise Unsupported("yield from", fn)
        if self.generator and not is_list(spec.ret):
            raise Unsupported("generator function where the declared result is not a list", fn)
        fn.body = self.desugar_iterators(fn.body)
        self.escaping = self.escaping_names(fn, {k.split(".")[-1] for k in spec.effects})

    def desugar_iterators(self, stmts):
        """it = iter(X); try: while True: BODY(next(it))  except StopIteration: HANDLER
           ==>  for tmp in X: BODY(tmp)  ; HANDLER
        accepted only when next(it) occurs exactly once, inside the FIRST statement of BODY, `it` is used nowhere else,
        BODY has no break, and nothing else in BODY is a call (so nothing else can raise StopIteration)."""
        out = []
        k = 0
        while k < len(stmts):
            a = stmts[k]
            b = stmts[k + 1] if k + 1 < len(stmts) else None
            if (isinstance(a, ast.Assign) and len(a.targets) == 1 and isinstance(a.targets[0], ast.Name)
                    and isinstance(a.value, ast.Call) and isinstance(a.value.func, ast.Name) and a.value.func.id == "iter"
                    and len(a.value.args) == 1 and not a.value.keywords and isinstance(b, ast.Try)):
                it = a.targets[0].id
                t = b
                ok = (len(t.body) == 1 and isinstance(t.body[0], ast.While) and isinstance(t.body[0].test, ast.Constant)
                      and t.body[0].test.value is True and not t.body[0].orelse and not t.orelse and not t.finalbody
                      and len(t.handlers) == 1 and isinstance(t.handlers[0].type, ast.Name)
                      and t.handlers[0].type.id == "StopIteration" and t.handlers[0].name is None)
                if ok:
                    body = t.body[0].body
                    nexts = [x for st in body for x in ast.walk(st) if isinstance(x, ast.Call) and isinstance(x.func, ast.Name)
                             and x.func.id == "next" and len(x.args) == 1 and isinstance(x.args[0], ast.Name) and x.args[0].id == it]
                    first_nexts = [x for x in ast.walk(body[0]) if x in nexts] if body else []
                    uses = [x for st in (body + t.handlers[0].body + stmts[k + 2:]) for x in ast.walk(st)
                            if isinstance(x, ast.Name) and x.id == it]
                    other_calls = [x for st in body for x in ast.walk(st) if isinstance(x, ast.Call) and x not in nexts
                                   and not (isinstance(x.func, ast.Name) and x.func.id == "len")
                                   and not (isinstance(x.func, ast.Attribute) and x.func.attr in ("append", "insert", "extend"))]
                    brk = [x for st in body for x in ast.walk(st) if isinstance(x, (ast.Break, ast.Continue))]
                    if len(nexts) == 1 and len(first_nexts) == 1 and len(uses) == 1 and not other_calls and not brk:
                        tmp = "%s_item" % it
                        class R(ast.NodeTransformer):
                            def visit_Call(self, node):
                                if node is nexts[0]:
                                    return ast.copy_location(ast.Name(id=tmp, ctx=ast.Load()), node)
                                return self.generic_visit(node)
                        body2 = [R().visit(st) for st in body]
                        loop = ast.copy_location(ast.For(target=ast.Name(id=tmp, ctx=ast.Store()), iter=a.value.args[0],
                                                         body=body2, orelse=[], type_comment=None), t)
                        ast.fix_missing_locations(loop)
                        out.append(loop)
                        out += self.desugar_iterators(t.handlers[0].body)
                        k += 2
                        continue
                raise Unsupported("iter()/try form other than: it = iter(X); try: while True: ...next(it)... except StopIteration: ...", b)
            out.append(a)
            k += 1
        return out

    @staticmethod
    def escaping_names(fn, effect_names=()):
        """names that occur (as a value) anywhere except: receiver of .append/.insert, len(b), b[...], for ... in b, return b.
        A list bound to such a name may be referenced from elsewhere, so it is never updated in place."""
        ok = set()
        # "yield b" immediately followed by "b = <new list>": the yielded list is no longer reachable through b
        for n in ast.walk(fn):
            for fld in ("body", "orelse"):
                ss = getattr(n, fld, None)
                if isinstance(ss, list):
                    for a, b in zip(ss, ss[1:]):
                        if (isinstance(a, ast.Expr) and isinstance(a.value, ast.Yield) and isinstance(a.value.value, ast.Name)
                                and isinstance(b, ast.Assign) and len(b.targets) == 1 and isinstance(b.targets[0], ast.Name)
                                and b.targets[0].id == a.value.value.id
                                and isinstance(b.value, (ast.List, ast.ListComp))):
                            ok.add(id(a.value.value))
        for n in ast.walk(fn):
            if isinstance(n, ast.Call):
                f = n.func
                if isinstance(f, ast.Attribute) and f.attr in ("append", "insert", "extend") and isinstance(f.value, ast.Name):
                    ok.add(id(f.value))
                if isinstance(f, ast.Name) and f.id == "len" and len(n.args) == 1 and isinstance(n.args[0], ast.Name):
                    ok.add(id(n.args[0]))
                fname = f.attr if isinstance(f, ast.Attribute) else (f.id if isinstance(f, ast.Name) else None)
                if fname in effect_names:           # a declared effect does not keep a reference to its arguments
                    for a in n.args:
                        if isinstance(a, ast.Name):
                            ok.add(id(a))
            elif isinstance(n, ast.Subscript) and isinstance(n.value, ast.Name):
                ok.add(id(n.value))
            elif isinstance(n, ast.For) and isinstance(n.iter, ast.Name):
                ok.add(id(n.iter))
            elif isinstance(n, ast.Return) and n.value is not None:
                for x in ast.walk(n.value):            # nothing runs after a return
                    ok.add(id(x))
        # a use that lies outside every loop and textually after the last in-place update of that name cannot be followed
        # by an update (there is no backward jump outside loops)
        in_loop = set()
        for n in ast.walk(fn):
            if isinstance(n, (ast.For, ast.While)):
                for st in n.body + n.orelse:
                    for x in ast.walk(st):
                        in_loop.add(id(x))
        last_update = {}
        for n in ast.walk(fn):
            if isinstance(n, ast.Call) and isinstance(n.func, ast.Attribute) and n.func.attr in ("append", "insert", "extend") \
                    and isinstance(n.func.value, ast.Name):
                nm = n.func.value.id
                last_update[nm] = max(last_update.get(nm, 0), getattr(n, "end_lineno", n.lineno))
        out = set()
        for n in ast.walk(fn):
            if isinstance(n, ast.Name) and isinstance(n.ctx, ast.Load) and id(n) not in ok:
                if id(n) not in in_loop and n.lineno > last_update.get(n.id, 0):
                    continue
                out.add(n.id)
        return out

    # ------------------------------------------------------------------ paths
    def path_of(self, n, env):
        """the access path denoted by a Name/Attribute chain, or None"""
        if isinstance(n, ast.Name):
            b = env.names.get(n.id)
            if b and b[0] == "path":
                return b[1]
            if b is None and (n.id in env.inputs or env.is_prefix(n.id)):      # a global (callee / constant) declared by name
                return n.id
            return None
        if isinstance(n, ast.Attribute):
            p = self.path_of(n.value, env)
            return None if p is None else p + "." + n.attr
        return None

    def read_path(self, path, env, node):
        if path in env.state:
            c, t = env.state[path]
            return X(c, t)
        if path in env.inputs:
            c, t = env.inputs[path]
            root = path.rsplit(".", 1)[0] if "." in path else None
            if root in env.state and is_fun(t) and len(t[1]) == 1 and t[1][0] == env.state[root][1]:
                # an attribute of an object that is itself a (changing) state value: read through the declared reader
                return X("%s %s" % (c, atom(env.state[root][0])), t[2])
            return X(c, t)
        raise Unsupported("read of %s which is not among the declared inputs of %s" % (self.show_path(path), self.spec.qual), node)

    def show_path(self, path):
        parts = path.split(".")
        if parts[0].isdigit():
            parts[0] = "<parameter %s>" % parts[0]
        return ".".join(parts)

    # ------------------------------------------------------------------ expressions
    def expr(self, n, env, H):
        """H: list collecting hoisted partial expressions [(coqname, text)] or None where hoisting is not allowed"""
        m = getattr(self, "e_" + type(n).__name__, None)
        if m is None:
            raise Unsupported("expression " + type(n).__name__, n)
        return m(n, env, H)

    def hoist(self, text, ty, env, H, node, what, fresh=False):
        if H is None:
            raise Unsupported("%s (may raise) in a position Python may skip or inside a comprehension" % what, node)
        if self.pure:
            raise NeedCtl()
        name = env.fresh("t")
        H.append([name, text])
        return X(name, ty, fresh=fresh)

    def e_Constant(self, n, env, H):
        v = n.value
        if isinstance(v, bool):
            return X("true" if v else "false", B)
        if isinstance(v, int):
            return X(zlit(v), ZLIT, lit=v)
        if isinstance(v, float):
            if v != v or v in (float("inf"), float("-inf")):
                raise Unsupported("non-finite float literal", n)
            return X(qlit(Fraction(v)), V)
        raise Unsupported("constant %r" % (v,), n)

    def e_Name(self, n, env, H):
        b = env.names.get(n.id)
        if b is None and n.id in env.inputs:            # a module-level name declared as an input
            c, t = env.inputs[n.id]
            return X(c, t)
        if b is None:
            raise Unsupported("read of the name %s (not a parameter, not a local bound on every path to here)" % n.id, n)
        if b[0] == "local":
            return X(b[1], b[2])
        path = b[1]
        if path in env.inputs or path in env.state:
            return self.read_path(path, env, n)
        raise Unsupported("use of the object %s as a value" % self.show_path(path), n)

    def e_Attribute(self, n, env, H):
        if n.attr in self.spec.attr_identity:
            x = self.expr(n.value, env, H)
            if is_list(x.ty):
                return x
            raise Unsupported("attribute .%s of a value that is not represented by it" % n.attr, n)
        path = self.path_of(n, env)
        if path is None:
            raise Unsupported("attribute ." + n.attr + " of an expression that is not a parameter path", n)
        return self.read_path(path, env, n)

    def e_UnaryOp(self, n, env, H):
        a = self.expr(n.operand, env, H)
        if isinstance(n.op, ast.USub):
            if a.ty == ZLIT:
                return X(zlit(-a.lit), ZLIT, lit=-a.lit)
            if a.ty == Z:
                return X("- " + atom(a.s), Z)
            if a.ty == V:
                return X("n_neg O " + atom(a.s), V)
            raise Unsupported("unary minus on " + show_ty(a.ty), n)
        if isinstance(n.op, ast.Not):
            return X("negb " + atom(self.as_bool(a, n).s), B)
        raise Unsupported("unary operator " + type(n.op).__name__, n)

    def as_bool(self, a, node):
        if a.ty != B:
            raise Unsupported("non-boolean value (%s) used as a condition" % show_ty(a.ty), node)
        return a

    def as_num(self, a, node):
        """a bool used in arithmetic is 0/1"""
        if a.ty == B:
            return X("b2z " + atom(a.s), Z)
        return a

    def square(self, a, env):
        a = coerce(a, V) if a.ty != Z else a
        if a.ty == Z:
            return X("%s * %s" % (atom(a.s), atom(a.s)), Z)
        if IDENT.match(a.s):
            return X("n_mul O %s %s" % (a.s, a.s), V)
        t = env.fresh("sq")
        return X("let %s := %s in n_mul O %s %s" % (t, a.s, t, t), V)

    def e_BinOp(self, n, env, H):
        a = self.expr(n.left, env, H)
        b = self.expr(n.right, env, H)
        op = type(n.op).__name__
        if op == "Add" and is_list(a.ty) and is_list(b.ty):
            if a.ty != b.ty:
                raise Unsupported("concatenation of lists of different element types", n)
            return X("%s ++ %s" % (atom(a.s), atom(b.s)), a.ty, fresh=True)
        if op == "Mult" and is_list(a.ty) and isinstance(n.left, ast.List) and len(n.left.elts) == 1 and settle(b).ty == Z:
            return X("py_repeat %s %s" % (atom(a.s[1:-1]), atom(settle(b).s)), a.ty, fresh=True)
        if op == "BitXor":
            if a.ty == B and b.ty == B:
                return X("xorb %s %s" % (atom(a.s), atom(b.s)), B)
            raise Unsupported("^ on non-booleans", n)
        if op == "Pow":
            if b.ty == ZLIT and b.lit == 2:
                return self.square(a, env)
            raise Unsupported("** with an exponent other than the literal 2", n)
        if op == "Mod":
            a, b = settle(a), settle(b)
            if a.ty == Z and b.ty == Z:
                return self.hoist("py_mod %s %s" % (atom(a.s), atom(b.s)), Z, env, H, n, "% (ZeroDivisionError)")
            raise Unsupported("% on non-ints", n)
        if op not in ("Add", "Sub", "Mult", "Div"):
            raise Unsupported("binary operator " + op, n)
        a, b = self.as_num(a, n), self.as_num(b, n)
        ty = num_join(a, b, n)
        if op == "Div":
            if ty != V:
                raise Unsupported("true division of two ints", n)
            a, b = coerce(a, V, n), coerce(b, V, n)
            return self.hoist("py_div O %s %s" % (atom(a.s), atom(b.s)), V, env, H, n, "division")
        if ty == ZLIT:
            v = {"Add": a.lit + b.lit, "Sub": a.lit - b.lit, "Mult": a.lit * b.lit}[op]
            return X(zlit(v), ZLIT, lit=v)
        if ty == Z:
            a, b = coerce(a, Z, n), coerce(b, Z, n)
            return X("%s %s %s" % (atom(a.s), {"Add": "+", "Sub": "-", "Mult": "*"}[op], atom(b.s)), Z)
        a, b = coerce(a, V, n), coerce(b, V, n)
        return X("%s %s %s" % ({"Add": "n_add O", "Sub": "n_sub O", "Mult": "n_mul O"}[op], atom(a.s), atom(b.s)), V)

    def is_direction_const(self, n):
        return (isinstance(n, ast.Attribute) and isinstance(n.value, ast.Name) and n.value.id == "Direction"
                and n.attr in ("MAXIMIZE", "MINIMIZE"))

    def e_Compare(self, n, env, H):
        if len(n.ops) != 1:
            raise Unsupported("chained comparison", n)
        op = type(n.ops[0]).__name__
        ln, rn = n.left, n.comparators[0]
        # problem.directions[i] == Direction.MAXIMIZE
        if self.is_direction_const(rn) or self.is_direction_const(ln):
            if self.is_direction_const(ln):
                ln, rn = rn, ln
            if op not in ("Eq", "NotEq"):
                raise Unsupported("ordering comparison with a Direction", n)
            a = self.expr(ln, env, H)
            if a.ty != DIR:
                raise Unsupported("comparison of a non-Direction with Direction.%s" % rn.attr, n)
            pos = (op == "Eq") == (rn.attr == "MAXIMIZE")
            return X(a.s if pos else "negb " + atom(a.s), B)
        a = self.expr(ln, env, H)
        b = self.expr(rn, env, H)
        if op not in ("Lt", "LtE", "Gt", "GtE", "Eq", "NotEq"):
            raise Unsupported("comparison operator " + op, n)
        if a.ty == B and b.ty == B:
            if op == "Eq":
                return X("Bool.eqb %s %s" % (atom(a.s), atom(b.s)), B)
            if op == "NotEq":
                return X("negb (Bool.eqb %s %s)" % (atom(a.s), atom(b.s)), B)
            raise Unsupported("ordering comparison of booleans", n)
        ty = num_join(a, b, n)
        if ty in (Z, ZLIT):
            a, b = coerce(a, Z, n), coerce(b, Z, n)
            sym = {"Lt": "<?", "LtE": "<=?", "Gt": ">?", "GtE": ">=?", "Eq": "=?", "NotEq": "=?"}[op]
            s = "%s %s %s" % (atom(a.s), sym, atom(b.s))
            return X("negb (%s)" % s if op == "NotEq" else s, B)
        a, b = coerce(a, V, n), coerce(b, V, n)
        x, y = atom(a.s), atom(b.s)
        s = {"Lt": "n_lt O %s %s" % (x, y), "Gt": "n_lt O %s %s" % (y, x),
             "LtE": "n_le O %s %s" % (x, y), "GtE": "n_le O %s %s" % (y, x),
             "Eq": "n_eq O %s %s" % (x, y), "NotEq": "negb (n_eq O %s %s)" % (x, y)}[op]
        return X(s, B)

    def e_BoolOp(self, n, env, H):
        parts = []
        for k, v in enumerate(n.values):
            parts.append(atom(self.as_bool(self.expr(v, env, H if k == 0 else None), v).s))
        return X((" && " if isinstance(n.op, ast.And) else " || ").join(parts), B)

    def e_IfExp(self, n, env, H):
        c = self.as_bool(self.expr(n.test, env, H), n.test)
        a = self.expr(n.body, env, None)
        b = self.expr(n.orelse, env, None)
        if a.ty != b.ty:
            if {a.ty, b.ty} <= {V, Z, ZLIT}:
                ty = num_join(a, b, n)
                if ty != ZLIT:
                    a, b = coerce(a, ty, n), coerce(b, ty, n)
            else:
                raise Unsupported("conditional expression with branches of types %s and %s" % (show_ty(a.ty), show_ty(b.ty)), n)
        ty = a.ty if a.ty == b.ty else ZLIT
        if ty == ZLIT and (a.ty != ZLIT or b.ty != ZLIT):
            ty = Z
            a, b = coerce(a, Z, n), coerce(b, Z, n)
        return X("if %s then %s else %s" % (c.s, atom(a.s) if a.cond else a.s, atom(b.s) if b.cond else b.s), ty, cond=(c, a, b))

    def e_Tuple(self, n, env, H):
        items = [settle(self.expr(e, env, H)) for e in n.elts]
        if len(items) < 2:
            raise Unsupported("tuple with fewer than two components", n)
        return X("(" + ", ".join(i.s for i in items) + ")", ("P", tuple(i.ty for i in items)))

    def e_List(self, n, env, H):
        items = [settle(self.expr(e, env, H)) for e in n.elts]
        if not items:
            return X("[]", L(None), fresh=True)
        if any(i.ty != items[0].ty for i in items):
            raise Unsupported("list literal with mixed element types", n)
        return X("[" + "; ".join(i.s for i in items) + "]", L(items[0].ty), fresh=True)

    def const_int(self, n):
        if n is None:
            return None
        if isinstance(n, ast.Constant) and isinstance(n.value, int) and not isinstance(n.value, bool):
            return n.value
        if isinstance(n, ast.UnaryOp) and isinstance(n.op, ast.USub):
            v = self.const_int(n.operand)
            return None if v is None else -v
        return "?"

    def e_Subscript(self, n, env, H):
        xs = self.expr(n.value, env, H)
        if not is_list(xs.ty):
            raise Unsupported("subscript of a non-list (%s)" % show_ty(xs.ty), n)
        sl = n.slice
        if isinstance(sl, ast.Slice):
            lo, hi, st = self.const_int(sl.lower), self.const_int(sl.upper), self.const_int(sl.step)
            if st is None and lo is None and hi == "?":
                k = coerce(self.expr(sl.upper, env, H), Z, sl.upper)
                return X("py_upto_z %s %s" % (atom(k.s), atom(xs.s)), xs.ty, fresh=True)
            if st is None and lo is None and hi is None:
                return X(xs.s, xs.ty, fresh=True)           # xs[:]  a copy
            if st is not None or "?" in (lo, hi):
                raise Unsupported("slice other than xs[:], xs[:k], xs[k:], xs[:-1]", n)
            if lo is None and hi is not None and hi >= 0:
                return X("py_upto %d %s" % (hi, atom(xs.s)), xs.ty, fresh=True)
            if hi is None and lo is not None and lo >= 0:
                return X("py_from %d %s" % (lo, atom(xs.s)), xs.ty, fresh=True)
            if lo is None and hi == -1:
                return X("py_but_last " + atom(xs.s), xs.ty, fresh=True)
            raise Unsupported("slice other than xs[:k], xs[k:], xs[:-1] with a literal k >= 0", n)
        i = coerce(self.expr(sl, env, H), Z, sl)
        return self.hoist("py_index %s %s" % (atom(xs.s), atom(i.s)), xs.ty[1], env, H, n, "subscript")

    def comprehension(self, n, env, H):
        if len(n.generators) != 1:
            raise Unsupported("comprehension with several generators", n)
        g = n.generators[0]
        if getattr(g, "is_async", 0):
            raise Unsupported("async comprehension", n)
        xs = self.expr(g.iter, env, H)
        if not is_list(xs.ty):
            raise Unsupported("comprehension over a non-list (%s)" % show_ty(xs.ty), n)
        e2 = env.copy()
        et = xs.ty[1]
        if isinstance(g.target, ast.Name):
            pat = e2.bind(g.target.id, et)
        elif isinstance(g.target, ast.Tuple) and all(isinstance(t, ast.Name) for t in g.target.elts) \
                and isinstance(et, tuple) and et[0] == "P" and len(et[1]) == len(g.target.elts):
            pat = "'(" + ", ".join(e2.bind(t.id, ty) for t, ty in zip(g.target.elts, et[1])) + ")"
        else:
            raise Unsupported("comprehension target", n)
        dom = atom(xs.s)
        if g.ifs:
            conds = [atom(self.as_bool(self.expr(c, e2, None), c).s) for c in g.ifs]     # a condition may not raise
            dom = "(filter (fun %s => %s) %s)" % (pat, " && ".join(conds), dom)
        h2 = []
        was_pure = self.pure
        try:
            self.pure = False
            el = settle(self.expr(n.elt, e2, h2))
        finally:
            self.pure = was_pure
        if h2:
            if H is None:
                raise Unsupported("comprehension whose element may raise, in a position Python may skip", n)
            if len(h2) == 1 and el.s == h2[0][0]:
                body = h2[0][1]
            else:
                body = "Some %s" % atom(el.s)
                for nm, tx in reversed(h2):
                    body = "obind (%s) (fun %s => %s)" % (tx, nm, body)
            return self.hoist("map_opt (fun %s => %s) %s" % (pat, body, dom), L(el.ty), env, H, n, "comprehension", fresh=True)
        if isinstance(g.target, ast.Name) and el.s == pat and g.ifs:
            return X(dom[1:-1], L(el.ty), fresh=True)          # [x for x in xs if c]  is the filter itself
        return X("map (fun %s => %s) %s" % (pat, el.s, dom), L(el.ty), fresh=True)

    def e_ListComp(self, n, env, H):
        return self.comprehension(n, env, H)

    def e_GeneratorExp(self, n, env, H):
        return self.comprehension(n, env, H)

    def apply_callee(self, c, ft, first, n, env, H, what):
        """application of a declared function: positional arguments, then keywords by name, then declared defaults"""
        argtys, ret, partial = ft[1], ft[2], ft[3]
        kw = ft[4] if len(ft) > 4 else ()
        kwdef = dict(ft[5]) if len(ft) > 5 else {}
        slots = [None] * len(argtys)
        pos = list(first) + [None] * len(n.args)
        if len(first) + len(n.args) > len(argtys):
            raise Unsupported("call of %s with %d arguments (declared %d)" % (what, len(first) + len(n.args), len(argtys)), n)
        for k, x in enumerate(first):
            slots[k] = coerce(x, argtys[k], n)
        for k, a in enumerate(n.args):
            slots[len(first) + k] = coerce(self.expr(a, env, H), argtys[len(first) + k], a)
        for kwd in n.keywords:
            if kwd.arg not in kw:
                raise Unsupported("keyword argument %s in a call of %s" % (kwd.arg, what), n)
            k = len(argtys) - len(kw) + kw.index(kwd.arg)
            if slots[k] is not None:
                raise Unsupported("argument %s given twice" % kwd.arg, n)
            slots[k] = coerce(self.expr(kwd.value, env, H), argtys[k], kwd.value)
        for k in range(len(argtys)):
            if slots[k] is None:
                nm = kw[k - (len(argtys) - len(kw))] if k >= len(argtys) - len(kw) else None
                if nm is None or nm not in kwdef:
                    raise Unsupported("call of %s without its argument %d" % (what, k), n)
                slots[k] = X(kwdef[nm], argtys[k])
        s = c + " " + " ".join(atom(a.s) for a in slots) if slots else c
        if partial:
            return self.hoist(s, ret, env, H, n, "call of " + what)
        return X(s, ret)

    def callee_name(self, f):
        if isinstance(f, ast.Name):
            return f.id
        if isinstance(f, ast.Attribute) and isinstance(f.value, ast.Name):
            return f.value.id + "." + f.attr
        return None

    def e_Call(self, n, env, H):
        if any(isinstance(a, ast.Starred) for a in n.args) or any(k.arg is None for k in n.keywords):
            raise Unsupported("call with starred arguments", n)
        path = self.path_of(n.func, env)
        if path is not None and (path + "()") in env.inputs:
            c, ft = env.inputs[path + "()"]
            return self.apply_callee(c, ft, [self.read_path(path, env, n)], n, env, H, self.show_path(path) + "(...)")
        if path is not None and path in env.inputs and is_fun(env.inputs[path][1]) and path not in self.spec.effects:
            c, ft = env.inputs[path]
            return self.apply_callee(c, ft, [], n, env, H, self.show_path(path))
        # method of an opaque object:  e.m(args)  with ("@<type>.m") declared
        if isinstance(n.func, ast.Attribute):
            was = self.pure
            try:
                self.pure = False
                recv = self.expr(n.func.value, env.copy(), [])        # probe: only the type is used
            except (Unsupported, NeedCtl):
                recv = None
            finally:
                self.pure = was
            if recv is not None and isinstance(recv.ty, str) and ("@%s.%s" % (recv.ty, n.func.attr)) in env.inputs:
                c, ft = env.inputs["@%s.%s" % (recv.ty, n.func.attr)]
                recv = self.expr(n.func.value, env, H)
                return self.apply_callee(c, ft, [recv], n, env, H, "method " + n.func.attr)
        # call of a local / parameter that holds a function
        if isinstance(n.func, ast.Name) and n.func.id in env.names:
            b = env.names[n.func.id]
            if b[0] == "local" and is_fun(b[2]):
                return self.apply_callee(b[1], b[2], [], n, env, H, "local function " + n.func.id)
        if n.keywords:
            raise Unsupported("call with keyword arguments of " + (self.callee_name(n.func) or "an expression"), n)
        name = self.callee_name(n.func)
        if name is not None and isinstance(n.func, ast.Name) and name in env.names:
            raise Unsupported("call of a local value " + name, n)
        args = n.args
        if name == "abs" and len(args) == 1:
            a = settle(self.expr(args[0], env, H))
            if a.ty == V:
                return X("n_abs O " + atom(a.s), V)
            if a.ty == Z:
                return X("Z.abs " + atom(a.s), Z)
            raise Unsupported("abs of " + show_ty(a.ty), n)
        if name in ("min", "max") and len(args) == 2:
            a, b = self.expr(args[0], env, H), self.expr(args[1], env, H)
            ty = num_join(a, b, n)
            if ty == V:
                a, b = coerce(a, V, n), coerce(b, V, n)
                return X("py_%s O %s %s" % (name, atom(a.s), atom(b.s)), V)
            raise Unsupported("%s of ints" % name, n)
        if name == "sum" and len(args) == 1:
            a = self.expr(args[0], env, H)
            if a.ty == L(V):
                return X("py_sum O " + atom(a.s), V)
            raise Unsupported("sum over " + show_ty(a.ty), n)
        if name in ("min", "max") and len(args) == 1:
            a = self.expr(args[0], env, H)
            if a.ty == L(V):
                return self.hoist("py_list_%s O %s" % (name, atom(a.s)), V, env, H, n, name + " of a list (ValueError when empty)")
            raise Unsupported("%s over %s" % (name, show_ty(a.ty)), n)
        if name == "math.sqrt" and len(args) == 1 and "math.sqrt" in env.inputs:
            pass
        if name == "math.floor" and len(args) == 1:
            a = coerce(self.expr(args[0], env, H), V, n)
            return X("n_floor O " + atom(a.s), Z)
        if name == "math.pow" and len(args) == 2:
            e = args[1]
            if isinstance(e, ast.Constant) and e.value in (2, 2.0) and not isinstance(e.value, bool):
                return self.square(self.expr(args[0], env, H), env)
            raise Unsupported("math.pow with an exponent other than the literal 2", n)
        if name == "float" and len(args) == 1:
            a = self.expr(args[0], env, H)
            if a.ty in (V, Z, ZLIT):
                return coerce(a, V, n)
            raise Unsupported("float() of " + show_ty(a.ty), n)
        if name == "bool" and len(args) == 1:
            a = settle(self.expr(args[0], env, H))
            if a.ty == B:
                return a
            if a.ty == Z:
                return X("negb (%s =? 0)" % atom(a.s), B)
            raise Unsupported("bool() of " + show_ty(a.ty), n)
        if name == "range" and len(args) == 1 and "range" not in env.names:
            a = coerce(self.expr(args[0], env, H), Z, n)
            return X("zrange " + atom(a.s), L(Z), fresh=True)
        if name == "len" and len(args) == 1:
            a = self.expr(args[0], env, H)
            if is_list(a.ty):
                return X("py_len " + atom(a.s), Z)
            raise Unsupported("len of a non-list", n)
        if name == "list" and len(args) == 1:
            a = self.expr(args[0], env, H)
            if is_list(a.ty):
                return X(a.s, a.ty, fresh=True)       # list(xs) is a new list with the same elements
            raise Unsupported("list() of a non-list", n)
        if name == "any" and len(args) == 1:
            a = self.expr(args[0], env, H)
            if a.ty == L(B):
                return X("py_any " + atom(a.s), B)
            raise Unsupported("any() over non-booleans (truthiness)", n)
        if name == "itertools.compress" and len(args) == 2:
            a, b = self.expr(args[0], env, H), self.expr(args[1], env, H)
            if is_list(a.ty) and b.ty == L(B):
                return X("py_compress %s %s" % (atom(a.s), atom(b.s)), a.ty)
            raise Unsupported("itertools.compress with selectors that are not booleans", n)
        if name == "zip" and len(args) == 2:
            a, b = self.expr(args[0], env, H), self.expr(args[1], env, H)
            if is_list(a.ty) and is_list(b.ty):
                return X("py_zip %s %s" % (atom(a.s), atom(b.s)), L(("P", (a.ty[1], b.ty[1]))))
            raise Unsupported("zip of non-lists", n)
        raise Unsupported("call of %s" % (name or ast.dump(n.func)[:60]), n)

    # ------------------------------------------------------------------ statements
    def ignorable(self, s):
        if isinstance(s, ast.Pass):
            return True
        if isinstance(s, ast.Expr):
            v = s.value
            if isinstance(v, ast.Constant) and isinstance(v.value, str):
                return True
            if isinstance(v, ast.Call):
                f = v.func
                if isinstance(f, ast.Name) and f.id == "print":
                    return True
                root = f
                while isinstance(root, ast.Attribute):
                    root = root.value
                if isinstance(root, ast.Name) and root.id in IGNORED_CALL_ROOTS and isinstance(f, ast.Attribute):
                    return True
        return False

    def always_returns(self, stmts):
        for s in stmts:
            if isinstance(s, (ast.Return, ast.Break, ast.Raise)):
                return True
            if isinstance(s, ast.If) and s.orelse and self.always_returns(s.body) and self.always_returns(s.orelse):
                return True
        return False

    def has_return(self, stmts):
        def walk(ss):
            for st in ss:
                if isinstance(st, (ast.Return, ast.Break, ast.Raise)):
                    return True
                if isinstance(st, ast.If) and (walk(st.body) or walk(st.orelse)):
                    return True
                if isinstance(st, (ast.For, ast.While)) and any(isinstance(x, (ast.Return, ast.Raise)) for y in st.body for x in ast.walk(y)):
                    return True
            return False
        return walk(stmts)

    @staticmethod
    def own_breaks(loop):
        """break/continue statements whose innermost enclosing loop is `loop`"""
        out = []

        def walk(stmts):
            for st in stmts:
                if isinstance(st, (ast.Break, ast.Continue)):
                    out.append(st)
                elif isinstance(st, (ast.For, ast.While)):
                    walk(st.orelse)
                elif isinstance(st, ast.If):
                    walk(st.body)
                    walk(st.orelse)
        walk(loop.body)
        return out

    def s_Raise(self, s, rest, env, tail):
        """raise X(...): an exception; its kind is not distinguished"""
        if self.pure:
            raise NeedCtl()
        if [r for r in rest if not self.ignorable(r)]:
            raise Unsupported("unreachable statements after raise", rest[0])
        return ["Raise"]

    def s_Break(self, s, rest, env, tail):
        if not self.loop_tails:
            raise Unsupported("break outside a loop", s)
        env = env.copy()
        env.names["%brk"] = ("local", "true", B)
        return ["Next " + atom(tuple_of(self.current(self.loop_tails[-1], env)))]

    def assigned(self, stmts, env=None):
        """python names / state paths (as '@path') stored anywhere in stmts, in order of first store"""
        out = []

        def add(x):
            if x not in out:
                out.append(x)

        def tgt(t):
            if isinstance(t, ast.Name):
                add(t.id)
            elif isinstance(t, (ast.Tuple, ast.List)):
                for e in t.elts:
                    tgt(e)
            elif isinstance(t, ast.Subscript) and not isinstance(t.slice, ast.Slice):
                if isinstance(t.value, ast.Subscript) and not isinstance(t.value.slice, ast.Slice):
                    t = t.value
                p = self.path_of(t.value, env) if env is not None else None
                if p is not None and p in self.spec.state:
                    add("@" + p)
                elif isinstance(t.value, ast.Name):
                    add(t.value.id)
                else:
                    add("?item store into " + ast.unparse(t.value)[:30])
            elif isinstance(t, ast.Attribute) or (isinstance(t, ast.Subscript) and self.full_slice(t) and isinstance(t.value, ast.Attribute)):
                t0 = t if isinstance(t, ast.Attribute) else t.value
                p = self.path_of(t0, env) if env is not None else None
                add("@" + p if p in self.spec.state else "?store into " + ast.unparse(t))
            else:
                add("?" + type(t).__name__)

        def walk(ss):
            for s in ss:
                if isinstance(s, ast.Assign):
                    for t in s.targets:
                        tgt(t)
                elif isinstance(s, (ast.AugAssign, ast.AnnAssign)):
                    tgt(s.target)
                elif isinstance(s, ast.If):
                    walk(s.body)
                    walk(s.orelse)
                elif isinstance(s, (ast.For, ast.While)):
                    if isinstance(s, ast.For):
                        tgt(s.target)
                    walk(s.body)
                    walk(s.orelse)
                elif isinstance(s, ast.Expr) and isinstance(s.value, ast.Call):
                    f = s.value.func       # b.append(x) / b.insert(0, x) / b.extend(xs) store into the local list b
                    if isinstance(f, ast.Attribute) and f.attr in ("append", "insert", "extend") and isinstance(f.value, ast.Name):
                        add(f.value.id)
                elif isinstance(s, ast.Expr) and isinstance(s.value, ast.Yield):
                    add("%out")
                if env is not None:
                    for call in [x for x in ast.walk(s) if isinstance(x, ast.Call)] if isinstance(s, (ast.Expr, ast.Assign)) else []:
                        fp = self.effect_key(call, env, loose=True)[0]
                        if fp in self.spec.effects:
                            ef = self.spec.effects[fp]
                            for w in ef["writes"]:
                                add("@" + w)
                            nobj = len(ef.get("args", []))
                            for k in ef.get("inplace", []):
                                if nobj + k < len(call.args) and isinstance(call.args[nobj + k], ast.Name):
                                    add(call.args[nobj + k].id)
        walk(stmts)
        return out

    def effect_call(self, v, fp, recv, env, s, target, rest, tail):
        """a call of a declared effect, as a statement (target None) or as the right-hand side of  target = call"""
        ef = self.spec.effects[fp]
        objs = ef.get("args", [])
        vals = ef.get("vals", [])
        if v.keywords or len(v.args) != len(objs) + len(vals):
            raise Unsupported("call of %s with %d arguments (declared %d)" % (self.show_path(fp), len(v.args), len(objs) + len(vals)), s)
        if any(self.path_of(a, env) != p for a, p in zip(v.args, objs)):
            raise Unsupported("call of %s with arguments other than the declared objects" % self.show_path(fp), s)
        if self.pure:
            raise NeedCtl()
        if ef.get("ret") is None and target is not None:
            raise Unsupported("use of the result of %s (declared to return nothing)" % self.show_path(fp), s)
        c, ft = env.inputs[fp]
        H = []
        args = ([recv] if recv is not None else []) + [self.read_path(r, env, s) for r in ef["reads"]]
        valnodes = v.args[len(objs):]
        for a, t in zip(valnodes, vals):
            args.append(coerce(self.expr(a, env, H), t, a))
        env = env.copy()
        names = []
        for w in ef["writes"]:
            cw = env.inputs[w][0] + "'"
            env.state[w] = (cw, env.inputs[w][1])
            names.append(cw)
        for k in ef.get("inplace", []):
            a = valnodes[k]
            b = env.names.get(a.id) if isinstance(a, ast.Name) else None
            if not (b and b[0] == "local" and is_list(b[2])):
                raise Unsupported("argument %d of %s (updated in place) is not a local list" % (k, self.show_path(fp)), s)
            if a.id not in env.fresh_lists:
                raise Unsupported("in-place update by %s of the list %s, which may be referenced elsewhere" % (self.show_path(fp), a.id), s)
            names.append(env.bind(a.id, vals[k]))
        if ef.get("ret") is not None:
            if target is None:
                names.append("_")
            elif isinstance(target, ast.Name):
                pat, _ = self.store(target, X("?", ef["ret"], fresh=is_list(ef["ret"])), env, s)
                names.append(pat)
            else:
                raise Unsupported("assignment target of an effect call", s)
        call = c + " " + " ".join(atom(r.s) for r in args)
        body = self.block(rest, env, tail)
        pat = pat_of(names) if names else "_"
        if ef.get("partial"):
            lines = ["get (%s) (fun %s =>" % (call, pat)] + body
            lines[-1] += ")"
        else:
            lines = ["let %s := %s in" % (pat, call)] + body
        return self.with_hoists(H, lines) if H else lines

    def effect_key(self, call, env, loose=False):
        """key of spec.effects for a call in statement position: the path of the callee, or "@<type>.<method>" for a method
        of an opaque local (then also the receiver).  loose: the receiver may be a loop variable not yet bound."""
        fp = self.path_of(call.func, env)
        if fp is not None:
            return fp, None
        f = call.func
        if isinstance(f, ast.Attribute) and isinstance(f.value, ast.Name):
            b = env.names.get(f.value.id)
            if b and b[0] == "local" and isinstance(b[2], str):
                return "@%s.%s" % (b[2], f.attr), X(b[1], b[2])
            if loose:
                for k in self.spec.effects:
                    if k.startswith("@") and k.endswith("." + f.attr):
                        return k, None
        return None, None

    @staticmethod
    def full_slice(t):
        return isinstance(t, ast.Subscript) and isinstance(t.slice, ast.Slice) and t.slice.lower is None \
            and t.slice.upper is None and t.slice.step is None

    def with_hoists(self, H, lines):
        for name, text in reversed(H):
            lines = ["get (%s) (fun %s =>" % (text, name)] + lines[:-1] + [lines[-1] + ")"]
        return lines

    def state_vars(self, env):
        return [env.state[p][0] for p in self.spec.state]

    def ret_term(self, x, env):
        if self.spec.ret is None:
            return tuple_of(self.state_vars(env))
        if self.spec.state:
            return "(" + ", ".join(self.state_vars(env) + [x.s]) + ")"
        return x.s

    def block(self, stmts, env, tail):
        """tail: None = end of the function (every path must return) | list of python names / '@state' markers whose
        current values are delivered by Next"""
        stmts = [s for s in stmts if not self.ignorable(s)]
        if not stmts:
            if tail is None and self.generator:
                if self.pure:
                    raise NeedCtl()
                return ["Ret " + atom(self.ret_term(X(env.names["%out"][1], self.spec.ret), env))]
            if tail is None and self.spec.ret is None:
                t = self.ret_term(None, env)          # a procedure: its result is the final value of the state paths
                return [t] if self.pure else ["Ret " + atom(t)]
            if tail is None:
                raise Unsupported("a path falls off the end of the function (implicit return None)", self.fn)
            if self.pure:
                return [tuple_of(self.current(tail, env))]
            return ["Next " + atom(tuple_of(self.current(tail, env)))]
        s, rest = stmts[0], stmts[1:]
        m = getattr(self, "s_" + type(s).__name__, None)
        if m is None:
            raise Unsupported("statement " + type(s).__name__, s)
        return m(s, rest, env, tail)

    def current(self, tail, env):
        out = []
        for v in tail:
            if v.startswith("@"):
                out.append(env.state[v[1:]][0])
            else:
                b = env.names.get(v)
                if b is None or b[0] != "local":
                    raise Unsupported("local %s is not bound on every path" % v, self.fn)
                out.append(b[1])
        return out

    def s_Return(self, s, rest, env, tail):
        if [r for r in rest if not self.ignorable(r)]:
            raise Unsupported("unreachable statements after return", rest[0])
        if s.value is None and self.generator:
            return ["Ret " + atom(self.ret_term(X(env.names["%out"][1], self.spec.ret), env))]
        if s.value is None and self.spec.ret is None:
            t = self.ret_term(None, env)
            return [t] if self.pure else ["Ret " + atom(t)]
        if s.value is None:
            raise Unsupported("return without a value", s)
        if self.generator:
            raise Unsupported("return with a value inside a generator", s)
        H = []
        x = coerce(self.expr(s.value, env, H), self.spec.ret, s)
        t = self.ret_term(x, env)
        if self.pure:
            return [t]
        return self.with_hoists(H, ["Ret " + atom(t)])

    def store(self, target, x, env, node):
        """bind target to the value x; returns the let-pattern"""
        if isinstance(target, ast.Name):
            x = settle(x)
            if is_list(x.ty) and x.fresh and target.id not in self.tainted:
                env.fresh_lists.add(target.id)
            else:
                env.fresh_lists.discard(target.id)
                if is_list(x.ty):
                    self.tainted.add(target.id)
            return env.bind(target.id, x.ty), x
        if self.full_slice(target) and isinstance(target.value, ast.Attribute):
            target = target.value           # obj.attr[:] = e  replaces the contents of the attribute
        if isinstance(target, ast.Attribute):
            path = self.path_of(target, env)
            if path is None or path not in self.spec.state:
                raise Unsupported("store into attribute %s (not a declared state path)" % ast.unparse(target), node)
            ty = env.inputs[path][1]
            x = coerce(x, ty, node)
            c = env.inputs[path][0] + "'"
            env.state[path] = (c, ty)
            return c, x
        raise Unsupported("assignment target " + type(target).__name__, node)

    def let_lines(self, H, pat, x, rest_lines):
        # `x = <partial expression>` binds the result directly
        if H and x.s == H[-1][0] and IDENT.match(pat):
            H = [list(h) for h in H]
            H[-1][0] = pat
            lines = rest_lines
        else:
            lines = ["let %s := %s in" % (pat, x.s)] + rest_lines
        return self.with_hoists(H, lines) if H else lines

    def s_Assign(self, s, rest, env, tail):
        if len(s.targets) != 1:
            raise Unsupported("chained assignment", s)
        tg = s.targets[0]
        # xs[i] = e  on an owned list (a declared state path or a fresh local list)
        if isinstance(tg, ast.Subscript) and not isinstance(tg.slice, ast.Slice):
            return self.multi_store([tg], [s.value], s, rest, env, tail)
        # t1, t2 = e1, e2 : the right-hand sides are evaluated first, then the targets are stored left to right
        if isinstance(tg, ast.Tuple) and isinstance(s.value, ast.Tuple) and len(tg.elts) == len(s.value.elts) \
                and all(isinstance(t, (ast.Name, ast.Subscript)) for t in tg.elts):
            return self.multi_store(list(tg.elts), list(s.value.elts), s, rest, env, tail)
        # q, r = divmod(a, k)   with a literal k != 0: floor division and remainder (Z.div / Z.modulo)
        if isinstance(tg, ast.Tuple):
            v = s.value
            if (len(tg.elts) == 2 and all(isinstance(e, ast.Name) for e in tg.elts) and isinstance(v, ast.Call)
                    and isinstance(v.func, ast.Name) and v.func.id == "divmod" and "divmod" not in env.names
                    and len(v.args) == 2 and not v.keywords and self.const_int(v.args[1]) not in (None, "?", 0)):
                H = []
                a = coerce(self.expr(v.args[0], env, H), Z, v)
                k = self.const_int(v.args[1])
                env = env.copy()
                q, r = env.bind(tg.elts[0].id, Z), env.bind(tg.elts[1].id, Z)
                lines = ["let '(%s, %s) := (%s / %s, %s mod %s) in" % (q, r, atom(a.s), zlit(k), atom(a.s), zlit(k))] + self.block(rest, env, tail)
                return self.with_hoists(H, lines) if H else lines
            raise Unsupported("tuple assignment other than q, r = divmod(a, <nonzero literal>)", s)
        # alias of an object:  problem = solution1.problem
        p = self.path_of(s.value, env)
        if p is not None and isinstance(tg, ast.Name) and p not in env.inputs and p not in env.state and env.is_prefix(p):
            env = env.copy()
            env.names[tg.id] = ("path", p)
            return self.block(rest, env, tail)
        if isinstance(s.value, ast.Call):
            fp, recv = self.effect_key(s.value, env)
            if fp in self.spec.effects:
                return self.effect_call(s.value, fp, recv, env, s, tg, rest, tail)
        H = []
        x = self.expr(s.value, env, H)
        env = env.copy()
        pat, x = self.store(tg, x, env, s)
        return self.let_lines(H, pat, x, self.block(rest, env, tail))

    def owned_list(self, node, env, s):
        """(kind, key, X) of the list a subscript store goes into: a declared state path or a fresh, non-escaping local"""
        p = self.path_of(node, env)
        if p is not None and p in self.spec.state and is_list(env.inputs[p][1]):
            return "state", p, self.read_path(p, env, s)
        if isinstance(node, ast.Name):
            b = env.names.get(node.id)
            if b and b[0] == "local" and is_list(b[2]):
                if node.id not in env.fresh_lists or node.id in self.escaping:
                    raise Unsupported("item store into the list %s, which may be referenced elsewhere" % node.id, s)
                return "local", node.id, X(b[1], b[2])
        raise Unsupported("item store into %s (neither a declared state path nor a local list)" % ast.unparse(node)[:40], s)

    def multi_store(self, targets, values, s, rest, env, tail):
        if self.pure:
            raise NeedCtl()
        H = []
        vals = [settle(self.expr(v, env, H)) for v in values]
        lines_pre = []
        # freeze the right-hand sides before any store
        tmps = []
        for k, x in enumerate(vals):
            if IDENT.match(x.s):
                tmps.append(x)
            else:
                nm = env.fresh("rhs")
                lines_pre.append("let %s := %s in" % (nm, x.s))
                tmps.append(X(nm, x.ty, fresh=x.fresh))
        env = env.copy()
        opens = 0
        for t, x in zip(targets, tmps):
            if isinstance(t, ast.Name):
                pat, x2 = self.store(t, x, env, s)
                lines_pre.append("let %s := %s in" % (pat, x2.s))
                continue
            if isinstance(t.slice, ast.Slice):
                raise Unsupported("slice store", s)
            if isinstance(t.value, ast.Subscript) and not isinstance(t.value.slice, ast.Slice):
                # A[i][j] = v : the row A[i] is read, updated, and stored back (rows are assumed not to be shared)
                kind, key, lst = self.owned_list(t.value.value, env, s)
                if not (is_list(lst.ty) and is_list(lst.ty[1])):
                    raise Unsupported("nested item store into a list that is not a list of lists", s)
                H2 = []
                i1 = coerce(self.expr(t.value.slice, env, H2), Z, t.value.slice)
                j1 = coerce(self.expr(t.slice, env, H2), Z, t.slice)
                for nm, tx in H2:
                    lines_pre.append("get (%s) (fun %s =>" % (tx, nm))
                    opens += 1
                row, row2 = env.fresh("row"), env.fresh("row")
                xv = coerce(x, lst.ty[1][1], s)
                if kind == "state":
                    c = env.inputs[key][0] + "'"
                    env.state[key] = (c, env.inputs[key][1])
                else:
                    c = env.bind(key, lst.ty)
                lines_pre.append("get (py_index %s %s) (fun %s =>" % (atom(lst.s), atom(i1.s), row))
                lines_pre.append("get (py_set %s %s %s) (fun %s =>" % (row, atom(j1.s), atom(xv.s), row2))
                lines_pre.append("get (py_set %s %s %s) (fun %s =>" % (atom(lst.s), atom(i1.s), row2, c))
                opens += 3
                continue
            kind, key, lst = self.owned_list(t.value, env, s)
            H2 = []
            idx = coerce(self.expr(t.slice, env, H2), Z, t.slice)
            for nm, tx in H2:
                lines_pre.append("get (%s) (fun %s =>" % (tx, nm))
                opens += 1
            xv = coerce(x, lst.ty[1], s) if lst.ty[1] is not None else x
            if kind == "state":
                c = env.inputs[key][0] + "'"
                env.state[key] = (c, env.inputs[key][1])
            else:
                c = env.bind(key, L(xv.ty))
            lines_pre.append("get (py_set %s %s %s) (fun %s =>" % (atom(lst.s), atom(idx.s), atom(xv.s), c))
            opens += 1
        body = self.block(rest, env, tail)
        body[-1] += ")" * opens
        lines = lines_pre + body
        return self.with_hoists(H, lines) if H else lines

    def s_AugAssign(self, s, rest, env, tail):
        if isinstance(s.target, ast.Subscript) and not isinstance(s.target.slice, ast.Slice):
            load = ast.copy_location(ast.Subscript(value=s.target.value, slice=s.target.slice, ctx=ast.Load()), s.target)
            v = ast.copy_location(ast.BinOp(left=load, op=s.op, right=s.value), s)
            return self.multi_store([s.target], [v], s, rest, env, tail)
        if isinstance(s.target, ast.Name):
            b = env.names.get(s.target.id)
            if b and (b[0] != "local" or is_list(b[2])) and not (b[0] == "path" and b[1] in env.inputs and not is_list(env.inputs[b[1]][1])):
                raise Unsupported("augmented assignment to a list (in-place update)", s)
        load = ast.copy_location(ast.Name(id=s.target.id, ctx=ast.Load()), s.target) if isinstance(s.target, ast.Name) else s.target
        v = ast.copy_location(ast.BinOp(left=load, op=s.op, right=s.value), s)
        a = ast.copy_location(ast.Assign(targets=[s.target], value=v), s)
        return self.s_Assign(a, rest, env, tail)

    def s_Expr(self, s, rest, env, tail):
        v = s.value
        # yield e  in a generator: the value is appended to the sequence the generator produces
        if isinstance(v, ast.Yield):
            if not self.generator:
                raise Unsupported("yield", s)
            if v.value is None:
                raise Unsupported("yield without a value", s)
            if self.pure:
                raise NeedCtl()
            H = []
            e = coerce(settle(self.expr(v.value, env, H)), self.spec.ret[1], s)
            out = env.names["%out"]
            x = X("%s ++ [%s]" % (out[1], e.s), self.spec.ret)
            env = env.copy()
            pat = env.bind("%out", self.spec.ret)
            return self.let_lines(H, pat, x, self.block(rest, env, tail))
        # a declared effect:  self.evaluate(solution)  updates attributes of the objects it is given
        if isinstance(v, ast.Call):
            fp, recv = self.effect_key(v, env)
            if fp in self.spec.effects:
                return self.effect_call(v, fp, recv, env, s, None, rest, tail)
            # b.extend(<effect call>) / b.append(<effect call>):  tmp = <effect call>; b.extend(tmp)
            if isinstance(v.func, ast.Attribute) and v.func.attr in ("extend", "append") and len(v.args) == 1 \
                    and isinstance(v.args[0], ast.Call) and self.effect_key(v.args[0], env)[0] in self.spec.effects:
                self.tmpcount += 1
                tmp = "%s_arg%d" % (v.func.attr, self.tmpcount)
                a1 = ast.copy_location(ast.Assign(targets=[ast.Name(id=tmp, ctx=ast.Store())], value=v.args[0]), s)
                call2 = ast.copy_location(ast.Call(func=v.func, args=[ast.Name(id=tmp, ctx=ast.Load())], keywords=[]), s)
                e2 = ast.copy_location(ast.Expr(value=call2), s)
                ast.fix_missing_locations(a1)
                ast.fix_missing_locations(e2)
                return self.block([a1, e2] + list(rest), env, tail)
        # b.append(e)  /  b.insert(0, e)  /  b.extend(xs) on a local list
        if isinstance(v, ast.Call) and isinstance(v.func, ast.Attribute) and isinstance(v.func.value, ast.Name) \
                and v.func.attr in ("append", "insert", "extend") and not v.keywords:
            b = env.names.get(v.func.value.id)
            if b and b[0] == "local" and is_list(b[2]):
                nm = v.func.value.id
                if nm not in env.fresh_lists or nm in self.escaping:
                    raise Unsupported("in-place %s on the list %s, which may be referenced elsewhere (alias / parameter / stored or passed on)" % (v.func.attr, nm), s)
                H = []
                if v.func.attr == "append" and len(v.args) == 1:
                    e = settle(self.expr(v.args[0], env, H))
                    e = e if b[2][1] is None else coerce(e, b[2][1], s)
                    x = X("%s ++ [%s]" % (b[1], e.s), L(e.ty))
                elif v.func.attr == "insert" and len(v.args) == 2 and self.const_int(v.args[0]) == 0:
                    e = settle(self.expr(v.args[1], env, H))
                    e = e if b[2][1] is None else coerce(e, b[2][1], s)
                    x = X("%s :: %s" % (atom(e.s), b[1]), L(e.ty))
                elif v.func.attr == "extend" and len(v.args) == 1:
                    e = self.expr(v.args[0], env, H)
                    if not is_list(e.ty):
                        raise Unsupported("extend with a non-list", s)
                    e = e if b[2][1] is None else coerce(e, b[2], s)
                    x = X("%s ++ %s" % (b[1], atom(e.s)), e.ty if b[2][1] is None else b[2])
                else:
                    raise Unsupported("list method call " + ast.unparse(v)[:60], s)
                env = env.copy()
                pat = env.bind(v.func.value.id, x.ty)
                return self.let_lines(H, pat, x, self.block(rest, env, tail))
        raise Unsupported("expression statement " + ast.unparse(v)[:60], s)

    def join_vars(self, branches, env):
        """locals/state to deliver at the join after the given branches: stored in some branch and bound before, or
        stored in every branch; canonical order = order of first binding in the function, new locals, state paths"""
        sets = [self.assigned(b, env) for b in branches]
        out = []
        for v in [x for st in sets for x in st]:
            if v in out:
                continue
            if v.startswith("?"):
                raise Unsupported("assignment target " + v[1:], self.fn)
            if v.startswith("@"):
                out.append(v)
                continue
            bound = v in env.names and env.names[v][0] == "local"
            if bound or all(v in st for st in sets):
                out.append(v)

        def key(v):
            if v.startswith("@"):
                return (2, self.spec.state.index(v[1:]))
            return (0, env.order.index(v)) if v in env.order else (1, out.index(v))
        return sorted(out, key=key)

    def rebind(self, vars_, env, types):
        """after a join: the delivered variables are bound by a pattern; returns the coq names of the pattern"""
        names = []
        for v, ty in zip(vars_, types):
            if v.startswith("@"):
                p = v[1:]
                c = env.inputs[p][0] + "'"
                env.state[p] = (c, env.inputs[p][1])
                names.append(c)
            else:
                names.append(env.bind(v, ty))
        return names

    def types_of(self, vars_, env):
        out = []
        for v in vars_:
            if v.startswith("@"):
                out.append(env.inputs[v[1:]][1])
            else:
                b = env.names.get(v)
                out.append(b[2] if b and b[0] == "local" else None)
        return out

    def norm_text(self, node, env):
        """source text of an expression with the positional parameters written <k>"""
        class R(ast.NodeTransformer):
            def visit_Name(self2, n):
                b = env.names.get(n.id)
                if b and b[0] == "path" and b[1].isdigit():
                    return ast.copy_location(ast.Name(id="<%s>" % b[1], ctx=n.ctx), n)
                return n
        import copy as _copy
        return ast.unparse(R().visit(_copy.deepcopy(node)))

    def s_If(self, s, rest, env, tail):
        key = self.norm_text(s.test, env)
        if key in self.spec.assume:
            if key not in self.spec.used_assumptions:
                self.spec.used_assumptions.append(key)
            taken = s.body if self.spec.assume[key] else s.orelse
            return self.block(list(taken) + list(rest), env, tail)
        H = []
        c = self.as_bool(self.expr(s.test, env, H), s.test)
        A, Bk = s.body, s.orelse
        rest = [r for r in rest if not self.ignorable(r)]

        def ite(la, lb):
            # "else if" chains stay flat
            if lb and lb[0].startswith("if ") :
                return ["if %s then" % c.s] + indent(la) + ["else " + lb[0]] + lb[1:]
            return ["if %s then" % c.s] + indent(la) + ["else"] + indent(lb)

        if not rest:
            lines = ite(self.block(A, env.copy(), tail), self.block(Bk, env.copy(), tail))
            return self.with_hoists(H, lines) if H else lines
        ra, rb = self.always_returns(A), self.always_returns(Bk)
        if ra and rb:
            raise Unsupported("unreachable statements after an if whose branches all return", rest[0])
        if ra and not self.has_return(Bk):
            lines = ite(self.block(A, env.copy(), None), self.block(list(Bk) + rest, env.copy(), tail))
            return self.with_hoists(H, lines) if H else lines
        if rb and not self.has_return(A):
            lines = ite(self.block(list(A) + rest, env.copy(), tail), self.block(Bk, env.copy(), None))
            return self.with_hoists(H, lines) if H else lines
        vars_ = self.join_vars([A, Bk], env)
        if not self.has_return(A) and not self.has_return(Bk):
            # pure state update: let '(vars) := if c then ... else ... in rest   (when no branch has a partial operation)
            saved = self.pure
            try:
                self.pure = True
                ea, eb = env.copy(), env.copy()
                la, lb = self.block(A, ea, vars_), self.block(Bk, eb, vars_)
                ta, tb = self.types_of(vars_, ea), self.types_of(vars_, eb)
                ok = True
            except NeedCtl:
                ok = False
            finally:
                self.pure = saved
            if ok:
                types = self.merge_types(vars_, ta, tb, s)
                env2 = env.copy()
                names = self.rebind(vars_, env2, types)
                lines = ["let %s :=" % pat_of(names)] + indent(ite(la, lb)) + ["in"] + self.block(rest, env2, tail)
                return self.with_hoists(H, lines) if H else lines
        if self.pure:
            raise NeedCtl()
        ea, eb = env.copy(), env.copy()
        la, lb = self.block(A, ea, vars_), self.block(Bk, eb, vars_)
        types = self.merge_types(vars_, self.types_of(vars_, ea), self.types_of(vars_, eb), s)
        env2 = env.copy()
        names = self.rebind(vars_, env2, types)
        lines = ["bind ("] + indent(ite(la, lb)) + [") (fun %s =>" % pat_of(names)] + self.block(rest, env2, tail)
        lines[-1] += ")"
        return self.with_hoists(H, lines) if H else lines

    def merge_types(self, vars_, ta, tb, node):
        out = []
        for v, a, b in zip(vars_, ta, tb):
            if is_list(a) and is_list(b) and (a[1] is None or b[1] is None):
                a = b = (a if b[1] is None else b)
            if a is None or b is None or a != b:
                raise Unsupported("local %s has different types (or is unbound) on the two branches" % v, node)
            out.append(a)
        return out

    def loop(self, s, rest, env, tail, ivar_ty, prefix, suffix):
        if self.pure:
            raise NeedCtl()
        if s.orelse:
            raise Unsupported("for/else", s)
        own = self.own_breaks(s)
        for x in own:
            if not isinstance(x, ast.Break):
                raise Unsupported(type(x).__name__.lower(), x)
        has_break = bool(own)
        if not isinstance(s.target, ast.Name):
            raise Unsupported("loop target " + type(s.target).__name__, s)
        stored = self.assigned(s.body, env)
        vars_ = []
        for v in stored:
            if v.startswith("?"):
                raise Unsupported("assignment target " + v[1:], s)
            if v.startswith("@"):
                vars_.append(v)
                continue
            if v == s.target.id:
                raise Unsupported("assignment to the loop variable", s)
            if v in env.names and env.names[v][0] == "local":
                vars_.append(v)
        vars_.sort(key=lambda v: (1, self.spec.state.index(v[1:])) if v.startswith("@") else (0, env.order.index(v)))
        pre = []
        if has_break:
            # "break" = set the flag; every later iteration is skipped
            env = env.copy()
            pre.append("let %s := false in" % env.bind("%brk", B))
            vars_.append("%brk")
        types = self.types_of(vars_, env)
        init = tuple_of(self.current(vars_, env))
        eb = env.copy()
        names = self.rebind(vars_, eb, types)
        iv = eb.bind(s.target.id, ivar_ty)
        self.loop_tails.append(vars_)
        try:
            body = self.block(s.body, eb, vars_)
        finally:
            self.loop_tails.pop()
        if has_break:
            body = ["if brk then", "  Next " + atom(tuple_of(names)), "else"] + indent(body)
        types2 = self.merge_types(vars_, types, self.types_of(vars_, eb), s)
        env2 = env.copy()
        names2 = self.rebind(vars_, env2, types2)
        lines = pre + ["bind (%s (fun %s %s =>" % (prefix, iv, pat_of(names, types))] + indent(body, 4)
        lines[-1] += ") %s%s) (fun %s =>" % (suffix, atom(init), pat_of(names2))
        lines += self.block(rest, env2, tail)
        lines[-1] += ")"
        return lines

    def s_For(self, s, rest, env, tail):
        it = s.iter
        H = []
        if isinstance(it, ast.Call) and isinstance(it.func, ast.Name) and it.func.id == "range" and "range" not in env.names:
            if it.keywords or len(it.args) not in (1, 2, 3) or (len(it.args) == 3 and self.const_int(it.args[2]) != -1):
                raise Unsupported("range other than range(n), range(a, b), range(a, b, -1)", it)
            if self.pure:
                raise NeedCtl()
            rargs = [coerce(self.expr(a, env, H), Z, it) for a in it.args[:2]]
            if len(it.args) == 1:
                lines = self.loop(s, rest, env, tail, Z, "for_range " + atom(rargs[0].s), "")
            elif len(it.args) == 2:
                lines = self.loop(s, rest, env, tail, Z, "for_range2 %s %s" % (atom(rargs[0].s), atom(rargs[1].s)), "")
            else:
                lines = self.loop(s, rest, env, tail, Z, "for_range_down %s %s" % (atom(rargs[0].s), atom(rargs[1].s)), "")
        else:
            if self.pure:
                raise NeedCtl()
            xs = self.expr(it, env, H)
            if not is_list(xs.ty):
                raise Unsupported("for over a non-list (%s)" % show_ty(xs.ty), s)
            if isinstance(it, ast.Name) and it.id in self.assigned(s.body, env):
                raise Unsupported("loop over a list that the loop body modifies", s)
            lines = self.loop(s, rest, env, tail, xs.ty[1], "for_list", atom(xs.s) + " ")
        return self.with_hoists(H, lines) if H else lines

    def s_While(self, s, rest, env, tail):
        if self.pure:
            raise NeedCtl()
        if s.orelse:
            raise Unsupported("while/else", s)
        own = self.own_breaks(s)
        for x in own:
            if not isinstance(x, ast.Break):
                raise Unsupported(type(x).__name__.lower(), x)
        has_break = bool(own)
        if "fuel" not in self.spec.inputs[0][0:1]:
            raise Unsupported("while loop (no fuel parameter declared for this function)", s)
        self.uses_fuel = True
        stored = self.assigned(s.body, env)
        # the state = locals stored in the body that exist before the loop, plus locals the condition reads that exist before
        vars_ = []
        for v in stored:
            if v.startswith("?"):
                raise Unsupported("assignment target inside while", s)
            if v.startswith("@"):
                vars_.append(v)
                continue
            b = env.names.get(v)
            if b and b[0] == "local":
                vars_.append(v)
            elif b and b[0] == "path" and b[1] in env.inputs:
                # a scalar parameter reassigned in the loop: make it a local first
                vars_.append(v)
        pre = []
        env = env.copy()
        for v in vars_:
            if v.startswith("@"):
                continue
            b = env.names[v]
            if b[0] == "path":
                c0, t0 = env.inputs[b[1]]
                c = env.bind(v, t0)
                pre.append("let %s := %s in" % (c, c0))
        vars_.sort(key=lambda v: (1, self.spec.state.index(v[1:])) if v.startswith("@") else (0, env.order.index(v)))
        if has_break:
            # "break" = leave with the flag set; the loop condition tests the flag first
            pre.append("let %s := false in" % env.bind("%brk", B))
            vars_.append("%brk")
        types = self.types_of(vars_, env)
        init = tuple_of(self.current(vars_, env))
        eb = env.copy()
        names = self.rebind(vars_, eb, types)
        cx = self.expr(s.test, eb, None)
        cx = settle(cx)
        if cx.ty == Z:
            cx = X("negb (%s =? 0)" % atom(cx.s), B)     # while n:  on an int
        self.as_bool(cx, s.test)
        if has_break:
            cx = X("negb brk && %s" % atom(cx.s), B)
        self.loop_tails.append(vars_)
        try:
            body = self.block(s.body, eb, vars_)
        finally:
            self.loop_tails.pop()
        types2 = self.merge_types(vars_, types, self.types_of(vars_, eb), s)
        env2 = env.copy()
        names2 = self.rebind(vars_, env2, types2)
        lines = pre + ["bind (while_fuel fuel (fun %s => %s) (fun %s =>" % (pat_of(names, types), cx.s, pat_of(names, types))] + indent(body, 4)
        lines[-1] += ") %s) (fun %s =>" % (atom(init), pat_of(names2))
        lines += self.block(rest, env2, tail)
        lines[-1] += ")"
        return lines

    # ------------------------------------------------------------------ function
    def translate(self):
        fn, spec = self.fn, self.spec
        spec.used_assumptions = []
        a = fn.args
        if a.vararg or a.kwarg or a.kwonlyargs or getattr(a, "posonlyargs", []):
            raise Unsupported("parameter list with * / ** / keyword-only parameters", fn)
        if fn.decorator_list:
            raise Unsupported("decorated function", fn)
        params = [x.arg for x in a.args]
        env0 = Env(spec)
        for k, pname in enumerate(params):
            env0.names[pname] = ("path", str(k))
        for p, _, _ in spec.inputs:
            root = p.split(".")[0]
            if root.isdigit() and int(root) >= len(params):
                raise Unsupported("declared input <parameter %s> but the function has %d parameters" % (root, len(params)), fn)
        # default values
        defaults = {}
        for pname, d in zip(params[len(params) - len(a.defaults):], a.defaults):
            k = params.index(pname)
            ent = env0.inputs.get(str(k))
            if ent is None or ent[0] not in spec.defaults:
                continue
            x = coerce(self.expr(d, Env(spec), None), ent[1], d)
            defaults[ent[0]] = x
        for dn in spec.defaults:
            if dn not in defaults:
                raise Unsupported("parameter %s has no default value any more" % dn, fn)
        lines = None
        pre = []
        self.tmpcount = 0
        if self.generator:
            c = env0.bind("%out", spec.ret)
            pre = ["let %s := [] in" % c]
        for pure in ((False,) if self.generator else (True, False)):
            self.pure = pure
            self.tmpcount = 0
            try:
                lines = pre + self.block(fn.body, env0.copy(), None)
                break
            except NeedCtl:
                continue
        ret = coq_type(spec.ret) if spec.ret is not None else "unit"
        if spec.state:
            ret = " * ".join([coq_type(env0.inputs[p][1], False) for p in spec.state] + ([coq_type(spec.ret, False)] if spec.ret is not None else []))
        if not self.pure:
            lines = ["finish ("] + indent(lines) + [")"]
            ret = "option " + (ret if IDENT.match(ret) else "(" + ret + ")")
        binders = " ".join("(%s : %s)" % (c, t if t == "nat" else coq_type(t)) for _, c, t in spec.inputs)
        end = getattr(fn, "end_lineno", fn.lineno)
        out = ["(* %s:%d-%d  %s%s *)" % (spec.file, fn.lineno, end, spec.qual, "" if self.pure else "   [ctl style: None = exception]")]
        for k in spec.used_assumptions:
            out.append("(* ASSUMED for this definition:  %s  is %s *)" % (k, spec.assume[k]))
        missing = [k for k in spec.assume if k not in spec.used_assumptions]
        if missing:
            raise Unsupported("declared assumption no longer occurs as an if-test: " + "; ".join(missing), fn)
        for dn, x in defaults.items():
            if dn in spec.defaults:
                ty = [t for _, c, t in spec.inputs if c == dn][0]
                out.append("Definition %s_default_%s : %s := %s." % (spec.coq, dn, coq_type(ty), x.s))
        out.append("Definition %s %s : %s :=" % (spec.coq, binders, ret))
        out += indent(lines)
        out[-1] += "."
        return "\n".join(out)


# ----------------------------------------------------------------------------------------------- driver
HEADER = """(* GENERATED by harness/translate/py2coq_core.py from the Python source of platypus/core.py, platypus/_math.py and
   platypus/types.py, evaluator.py, filters.py, distance.py, algorithms.py, indicators.py — do not edit.  Regenerated on every run of the checks that use it; rewritten only
   when its content changes.  The reading of Python is fixed by coq/Base/PyCore.v (see its header); the hand models
   are NOT imported here: coq/Tie/T*.v prove each definition below equal to its hand model. *)
From Coq Require Import ZArith QArith Bool List.
Import ListNotations.
From PV Require Import Base.PyCore.
Open Scope Z_scope.

Section Gen.
  Variable V : Type.          (* carrier of float-valued expressions *)
  Variable O : NumOps V.      (* the operations the code applies to them *)
  Variable T : Type.          (* opaque objects (solutions) *)
@OPAQUE@"""
FOOTER = "End Gen.\n"


def find_function(tree, qual):
    parts = qual.split(".")
    body = tree.body
    cls = None
    for k, p in enumerate(parts):
        found = [n for n in body if isinstance(n, (ast.FunctionDef, ast.ClassDef)) and n.name == p]
        if len(found) != 1:
            raise Unsupported("%d definitions named %s" % (len(found), ".".join(parts[:k + 1])))
        n = found[0]
        if k < len(parts) - 1:
            if not isinstance(n, ast.ClassDef):
                raise Unsupported(p + " is not a class")
            cls = n
            body = n.body
        else:
            if not isinstance(n, ast.FunctionDef):
                raise Unsupported(qual + " is not a function")
            return n, cls
    raise Unsupported("not found: " + qual)


def translate_sources(sources, only=None):
    """sources: {relative file name: text}.  Returns (text of Gen/Core.v, {qual: {ok, error, coq}})"""
    trees = {}
    results = {}
    opaque = []

    def scan(t):
        if isinstance(t, str) and t.startswith("T_") and t not in opaque:
            opaque.append(t)
        elif isinstance(t, tuple):
            for x in t:
                if isinstance(x, (tuple, str)):
                    scan(x)
    for spec in SPECS:
        for _, _, t in spec.inputs:
            scan(t)
        scan(spec.ret)
    chunks = [HEADER.replace("@OPAQUE@", "".join("  Variable %s : Type.\n" % t[2:] for t in opaque))]
    for spec in SPECS:
        if only is not None and spec.key not in only:
            continue
        try:
            if spec.file not in trees:
                src = sources.get(spec.file)
                if src is None:
                    raise Unsupported("source file %s missing" % spec.file)
                try:
                    trees[spec.file] = ast.parse(src)
                except SyntaxError as e:
                    trees[spec.file] = e
            tree = trees[spec.file]
            if isinstance(tree, SyntaxError):
                raise Unsupported("syntax error in %s: %s" % (spec.file, tree))
            fn, cls = find_function(tree, spec.qual)
            text = FnTranslator(spec, fn, cls).translate()
            chunks.append("\n".join("  " + ln if ln else ln for ln in text.split("\n")) + "\n")
            results[spec.key] = {"ok": True, "error": "", "coq": spec.coq}
        except Unsupported as u:
            results[spec.key] = {"ok": False, "error": "%s: %s" % (spec.file, u), "coq": spec.coq}
            chunks.append("  (* %s: NOT TRANSLATED: %s *)\n" % (spec.key, str(u).replace("*)", "* )").replace("(*", "( *")))
    chunks.append(FOOTER)
    return "\n".join(chunks), results


FILES = sorted({s.file for s in SPECS})


def translate_repo(repo, only=None):
    sources = {}
    for f in FILES:
        p = os.path.join(repo, f)
        if os.path.exists(p):
            with open(p) as fh:
                sources[f] = fh.read()
    return translate_sources(sources, only)


def write_if_changed(path, text):
    old = None
    if os.path.exists(path):
        with open(path) as f:
            old = f.read()
    if old == text:
        return False
    tmp = "%s.tmp%d" % (path, os.getpid())
    with open(tmp, "w") as f:
        f.write(text)
    os.replace(tmp, path)
    return True


# ----------------------------------------------------------------------------------------------- harness side
GEN_REL = os.path.join("Gen", "Core.v")
_HELD = []          # the version lock is held until the process exits


def _read(path):
    try:
        with open(path) as f:
            return f.read()
    except OSError:
        return None


def _restore_at_exit(C, lf, path, mine, previous):
    """a run against a private (edited) copy of the repository leaves coq/Gen/Core.v as it found it, unless another
    check is still sharing the edited version"""
    try:
        fcntl.flock(lf, fcntl.LOCK_EX | fcntl.LOCK_NB)
    except OSError:
        return
    try:
        with C.BuildLock():
            if _read(path) == mine:
                write_if_changed(path, previous)
    finally:
        fcntl.flock(lf, fcntl.LOCK_UN)


def install(C, text, timeout=600.0):
    """Make coq/Gen/Core.v equal to `text` and keep it so while this check runs.

    All checks that agree on the content hold a SHARED lock on _build/gencore.lock for their whole lifetime; a check that
    needs different content (a run against a private, edited copy of the repository) waits for an EXCLUSIVE lock,
    i.e. until the others have finished, rewrites the file (temp file + os.replace, under the build lock) and then
    shares.  After `timeout` seconds it proceeds without the guarantee (same as having no lock).  A run against a
    private copy (C.REPO is not /repo) puts the previous content back when it exits.
    Returns (rewritten, guarded)."""
    path = os.path.join(C.COQ, GEN_REL)
    os.makedirs(os.path.dirname(path), exist_ok=True)
    os.makedirs(os.path.join(C.VERIF, "_build"), exist_ok=True)
    lf = open(os.path.join(C.VERIF, "_build", "gencore.lock"), "a+")      # _build/ is not versioned
    _HELD.append(lf)
    t0 = time.time()
    rewritten = False

    def write():
        previous = _read(path)
        with C.BuildLock():
            changed = write_if_changed(path, text)
        if changed and previous is not None and os.path.abspath(C.REPO) != "/repo":
            atexit.register(_restore_at_exit, C, lf, path, text, previous)
        return changed

    while time.time() - t0 < timeout:
        if _read(path) == text:
            try:
                fcntl.flock(lf, fcntl.LOCK_SH | fcntl.LOCK_NB)
            except OSError:
                time.sleep(0.25)
                continue
            if _read(path) == text:
                return rewritten, True
            fcntl.flock(lf, fcntl.LOCK_UN)
            continue
        try:
            fcntl.flock(lf, fcntl.LOCK_EX | fcntl.LOCK_NB)
        except OSError:
            time.sleep(0.25)
            continue
        rewritten = write() or rewritten
        fcntl.flock(lf, fcntl.LOCK_SH)
    rewritten = write() or rewritten
    return rewritten, False


SELFTEST_REJECT = [
    ("while", "def clip(value, min_value, max_value):\n    while value > max_value:\n        value = value - 1.0\n    return value\n", "while"),
    ("try", "def clip(value, min_value, max_value):\n    try:\n        return max(min_value, min(value, max_value))\n    except Exception:\n        return value\n", "Try"),
    ("lambda", "def clip(value, min_value, max_value):\n    f = lambda t: t\n    return f(value)\n", "Lambda"),
    ("undeclared attribute", "def clip(value, min_value, max_value):\n    return value.real\n", "not among the declared inputs"),
    ("truthiness", "def clip(value, min_value, max_value):\n    if value:\n        return value\n    return min_value\n", "non-boolean"),
    ("three-argument min", "def clip(value, min_value, max_value):\n    return min(value, min_value, max_value)\n", "call of min"),
    ("chained comparison", "def clip(value, min_value, max_value):\n    return value if min_value <= value <= max_value else min_value\n", "chained"),
    ("global", "def clip(value, min_value, max_value):\n    global X\n    return value\n", "Global"),
    ("unknown call", "def clip(value, min_value, max_value):\n    return math.fabs(value)\n", "math.fabs"),
    ("implicit return", "def clip(value, min_value, max_value):\n    if value < min_value:\n        return min_value\n", "falls off the end"),
    ("partial operation Python may skip", "def clip(value, min_value, max_value):\n    return value if max_value == 0.0 else value / max_value\n", "may raise"),
    ("aliased list mutation", "def clip(value, min_value, max_value):\n    a = [value]\n    b = a\n    b.append(min_value)\n    return a[0]\n", "referenced elsewhere"),
    ("mutation of a parameter", "def clip(value, min_value, max_value):\n    value.append(min_value)\n    return min_value\n", "expression statement"),
    ("starred call", "def clip(value, min_value, max_value):\n    return max(*[min_value, value])\n", "starred"),
]

CITE_RE = re.compile(r"\(\* platypus/[\w.]+:\d+-\d+ ")


def strip_citations(text):
    return re.sub(r"\(line \d+\)", "(line)", CITE_RE.sub("(* ", text))


def selftest(sources):
    """fail-closed on constructs outside the subset; insensitive to comments, docstrings, blank lines, logging"""
    bad = []
    for what, src, needle in SELFTEST_REJECT:
        _, res = translate_sources({"platypus/_math.py": "import math\n" + src}, only=["clip"])
        r = res["clip"]
        if r["ok"] or needle.lower() not in r["error"].lower():
            bad.append("%s: %r" % (what, r))
    noisy = {}
    for f, src in sources.items():
        lines = src.split("\n")
        try:
            tree = ast.parse(src)
        except SyntaxError:
            noisy[f] = src
            continue
        spots = []
        for spec in SPECS:
            if spec.file == f:
                try:
                    fn, _ = find_function(tree, spec.qual)
                except Unsupported:
                    continue
                first = fn.body[0]
                if first.lineno > fn.lineno:                      # not a one-line def
                    spots.append((first.lineno, first.col_offset))
        for ln, col in sorted(set(spots), reverse=True):
            ind = " " * col
            lines[ln - 1:ln - 1] = [ind + '"""a docstring"""', ind + "# a comment", "", ind + 'LOGGER.debug("noise")', ind + "pass"]
        noisy[f] = "\n".join(lines)
    a, _ = translate_sources(sources)
    b, _ = translate_sources(noisy)
    if strip_citations(a) != strip_citations(b):
        bad.append("output changes when docstrings/comments/logging/pass are inserted")
    return bad


def prebuild(ctx, C, functions):
    """Driver hook (prebuild(ctx) of c02/c03/c04/c05/c06/c08/c11/c17): regenerate coq/Gen/Core.v from C.REPO and record
    one obligation translate:<function> for every function the property's Tie file relies on."""
    sources = {}
    for f in FILES:
        src = _read(os.path.join(C.REPO, f))
        if src is not None:
            sources[f] = src
    text, res = translate_sources(sources)
    rewritten, guarded = install(C, text)
    for f in functions:
        r = res.get(f, {"ok": False, "error": "no translation spec"})
        ctx.obligation("translate:" + f, "translator", r["ok"], r["error"])
    ctx.obligation("gen-file-is-current-translation", "translator", _read(os.path.join(C.COQ, GEN_REL)) == text,
                   "coq/Gen/Core.v differs from what the translator emits for " + C.REPO)
    bad = selftest(sources)
    ctx.obligation("translator:fail-closed-selftest(%d constructs rejected by name; comments/docstrings/logging ignored)" % len(SELFTEST_REJECT),
                   "translator", not bad, "; ".join(bad))
    ctx.coverage["core_translated"] = sorted(k for k, v in res.items() if v["ok"])
    ctx.coverage["core_not_translated"] = {k: v["error"] for k, v in res.items() if not v["ok"]}
    ctx.coverage["gen_core_rewritten_this_run"] = bool(rewritten)
    ctx.coverage["gen_core_version_lock"] = bool(guarded)
    ctx.trusted.append("harness/translate/py2coq_core.py: the reading of the accepted Python subset stated in its header and in coq/Base/PyCore.v "
                       "(declared input paths and their types per function, CPython evaluation order of the accepted constructs, "
                       "float literals as exact binary64 rationals, min/max argument order, exceptions as None)")
    return res


if __name__ == "__main__":
    import sys
    repo = sys.argv[1] if len(sys.argv) > 1 else os.environ.get("VERIF_REPO", "/repo")
    text, res = translate_repo(repo)
    if len(sys.argv) > 2:
        print("changed" if write_if_changed(sys.argv[2], text) else "unchanged")
    else:
        print(text)
    for k, v in res.items():
        print("%-34s %s %s" % (k, "ok" if v["ok"] else "FAILED", v["error"]), file=sys.stderr)
