"""Frame checks: AST discipline that justifies functional models (DESIGN.md 3.3).

check_operators(operators.py, _math.py):
  for every method (except __init__) of every class in operators.py that derives from
  Variator / Mutation:

  (1) copy-before-write.  Every STORE
        - assignment / augmented assignment / del whose target is an attribute or a subscript,
        - call of a mutating container method (.append .extend .insert .pop .remove .sort
          .reverse .clear .update .add .discard .setdefault .popitem)
      must go through a name whose every binding in the function is one of
        DEEP     copy.deepcopy(...), zeros(...), the offspring returned by another operator's
                 .evolve(...) / .mutate(...) (operator contract), or a view x.a[b]... of a DEEP name
        SHALLOW  a new container ([...], {...}, comprehension, list(...), set(...), [v]*n, the
                 result of a non-mutating vector helper); only its own slots may be stored into
                 (depth-1 subscript), not what its elements refer to
        SELF     self or a view of self
      and never through a parameter or a view of a parameter (a parent / the parents list).
      Calls that receive a parameter-derived argument must be known not to mutate it
      (builtins, copy.deepcopy, math.*, the vector helpers of _math.py — whose bodies are
      checked by the same rule —, self.<method> — checked as a method of the class —, and
      another operator's evolve/mutate).
      Fail-closed: a target / binding / call that is not recognised is REPORTED.
      Accepted, documented exceptions are listed in ACCEPTED with their reason and are
      reported in the result (never silently skipped); they are matched by class, method
      and the exact normalised source of the statement.

  (3) statelessness.  No store into `self` (or a view of it) in any method but __init__: an operator instance is
      long-lived and is applied to many problems; its result must depend on the parents it is given only.
      Documented exception: Multimethod.select (SELF_STORE_ACCEPTED).

  (2) flag discipline.  For every store into `<X>.variables` (directly or through a view
      such as `permutation = result.variables[index]`) there is an assignment
      `<X>.evaluated = False` that is a direct statement of the block containing the store
      or of a block enclosing it (same function); functions that store into variables must
      not contain break / continue / an early return.
"""
import ast
import os

OPERATOR_BASES = {"Variator", "Mutation"}
MUTATING_METHODS = {"append", "extend", "insert", "pop", "remove", "sort", "reverse", "clear",
                    "update", "add", "discard", "setdefault", "popitem", "__setitem__", "__delitem__"}
PURE_BUILTINS = {"len", "float", "int", "bool", "range", "isinstance", "sum", "list", "set", "map", "abs",
                 "min", "max", "all", "any", "hasattr", "getattr", "zip", "enumerate", "sorted", "tuple", "str"}
PURE_MODULES = {"math", "random", "copy"}
# helpers of _math.py used by the operators; their bodies are verified by check_helpers()
VECTOR_HELPERS = {"add", "subtract", "multiply", "dot", "is_zero", "magnitude", "normalize", "orthogonalize",
                  "project", "clip", "random_vector", "roulette", "zeros"}
SHALLOW_HELPERS = {"add", "subtract", "multiply", "normalize", "orthogonalize", "project", "random_vector"}
DEEP_HELPERS = {"zeros"}
MEMBER_METHODS = {"evolve", "mutate"}

# (class, method, normalised statement) -> reason.  Reported as "accepted", never silently skipped.
ACCEPTED = {
    ("PCX", "evolve", "parents[index], parents[-1] = (parents[-1], parents[index])"):
        "PCX.evolve swaps two ENTRIES of the `parents` list it was given (a mutation of the caller's list "
        "object: the same solutions in another order); no parent SOLUTION is written. The property is about "
        "the parent solutions; the driver's snapshots compare every parent solution before/after and "
        "record the list permutation separately.",
}

# (3) operators are stateless across calls: no store into (a view of) `self` in any method other than __init__.
#     (class, method) -> reason for the documented exceptions; reported as accepted, never silently skipped.
SELF_STORE_ACCEPTED = {
    ("Multimethod", "select"):
        "Multimethod is adaptive BY DESIGN: select() updates last_update / probabilities / next_variator / arity of the "
        "instance after every evolve. The state only decides WHICH member operator runs next (modelled as one index draw); "
        "the offspring of each call are produced by that member from the parents it is given.",
}

DEEP, SHALLOW, SELF, PARAM, UNKNOWN = "DEEP", "SHALLOW", "SELF", "PARAM", "UNKNOWN"


def _src(node):
    try:
        return ast.unparse(node)
    except Exception:
        return ast.dump(node)


def _root_and_depth(expr):
    """x.a[b].c[d] -> ('x', ['a','[]','c','[]']) ; None if the root is not a Name"""
    chain = []
    e = expr
    while True:
        if isinstance(e, ast.Attribute):
            chain.append(e.attr)
            e = e.value
        elif isinstance(e, ast.Subscript):
            chain.append("[]")
            e = e.value
        elif isinstance(e, ast.Name):
            return e.id, list(reversed(chain))
        else:
            return None, list(reversed(chain))


class FunctionCheck:
    def __init__(self, cls, fn, class_methods, is_helper=False):
        self.cls = cls
        self.fn = fn
        self.class_methods = class_methods
        self.is_helper = is_helper
        self.failures = []
        self.accepted = []
        self.nstores = 0
        self.nvarstores = 0
        args = fn.args
        names = [a.arg for a in args.posonlyargs + args.args + args.kwonlyargs]
        if args.vararg:
            names.append(args.vararg.arg)
        if args.kwarg:
            names.append(args.kwarg.arg)
        self.origins = {}      # name -> set of origins
        self.views = {}        # name -> set of (rootname, through_variables) for view bindings
        for n in names:
            self.origins.setdefault(n, set()).add(SELF if (n == "self" and not is_helper) else PARAM)

    def where(self, node):
        return "%s.%s line %d: %s" % (self.cls, self.fn.name, getattr(node, "lineno", 0), _src(node))

    def fail(self, node, why):
        self.failures.append("%s  -- %s" % (self.where(node), why))

    # ---- origin of an expression
    def origin_of_name(self, name):
        o = self.origins.get(name)
        if not o:
            return {UNKNOWN}
        return set(o)

    def expr_origin(self, e):
        """set of origins an expression value may have"""
        if isinstance(e, ast.Name):
            return self.origin_of_name(e.id)
        if isinstance(e, (ast.List, ast.Dict, ast.Set, ast.ListComp, ast.DictComp, ast.SetComp)):
            return {SHALLOW}
        if isinstance(e, ast.BinOp) and isinstance(e.op, ast.Mult) and (isinstance(e.left, ast.List) or isinstance(e.right, ast.List)):
            return {SHALLOW}
        if isinstance(e, (ast.Constant, ast.Compare, ast.BoolOp, ast.UnaryOp, ast.BinOp, ast.JoinedStr)):
            return {"VALUE"}
        if isinstance(e, ast.IfExp):
            return self.expr_origin(e.body) | self.expr_origin(e.orelse)
        if isinstance(e, ast.Call):
            f = e.func
            if isinstance(f, ast.Attribute) and isinstance(f.value, ast.Name) and f.value.id == "copy" and f.attr == "deepcopy":
                return {DEEP}
            if isinstance(f, ast.Name):
                if f.id in DEEP_HELPERS:
                    return {DEEP}
                if f.id in SHALLOW_HELPERS or f.id in ("list", "set", "dict", "sorted"):
                    return {SHALLOW}
                if f.id in PURE_BUILTINS or f.id in VECTOR_HELPERS:
                    return {"VALUE"}
                return {UNKNOWN}
            if isinstance(f, ast.Attribute):
                if f.attr in MEMBER_METHODS and not (isinstance(f.value, ast.Name) and f.value.id == "self"):
                    return {DEEP}          # offspring of another operator: fresh by the operator contract
                if isinstance(f.value, ast.Name) and f.value.id in PURE_MODULES:
                    return {"VALUE"}
                if isinstance(f.value, ast.Name) and f.value.id == "self":
                    return {"SELFCALL"}    # value returned by a method of this class (checked separately)
                return {UNKNOWN}
            return {UNKNOWN}
        if isinstance(e, (ast.Attribute, ast.Subscript)):
            root, chain = _root_and_depth(e)
            if root is None:
                return {UNKNOWN}
            # a slice x[:] of anything is a new list
            if isinstance(e, ast.Subscript) and isinstance(e.slice, ast.Slice):
                return {SHALLOW}
            out = set()
            for o in self.origin_of_name(root):
                if o == DEEP:
                    out.add(DEEP)
                elif o == SELF:
                    out.add(SELF)
                elif o == PARAM:
                    out.add(PARAM)
                elif o == SHALLOW:
                    out.add("ELEMENT")   # an element of a new container: ownership unknown
                else:
                    out.add(o)
            return out
        if isinstance(e, ast.Tuple):
            out = set()
            for x in e.elts:
                out |= self.expr_origin(x)
            return out
        return {UNKNOWN}

    def bind(self, target, value_expr, iter_elem=False):
        if isinstance(target, ast.Name):
            if value_expr is None:
                self.origins.setdefault(target.id, set()).add("VALUE")
                return
            o = self.expr_origin(value_expr)
            if iter_elem:
                # for x in <expr>: x is an element of expr
                o2 = set()
                for k in o:
                    if k == SHALLOW:
                        o2.add("ELEMENT")
                    else:
                        o2.add(k)
                o = o2
            self.origins.setdefault(target.id, set()).update(o)
            if isinstance(value_expr, (ast.Attribute, ast.Subscript)):
                root, chain = _root_and_depth(value_expr)
                if root is not None:
                    thr = "variables" in chain
                    # a view of a view keeps the first root
                    roots = self.views.get(root)
                    if roots:
                        for (r0, t0) in roots:
                            self.views.setdefault(target.id, set()).add((r0, thr or t0))
                    else:
                        self.views.setdefault(target.id, set()).add((root, thr))
            elif isinstance(value_expr, ast.Name) and value_expr.id in self.views:
                self.views.setdefault(target.id, set()).update(self.views[value_expr.id])
        elif isinstance(target, (ast.Tuple, ast.List)):
            if isinstance(value_expr, (ast.Tuple, ast.List)) and len(value_expr.elts) == len(target.elts):
                for t, v in zip(target.elts, value_expr.elts):
                    self.bind(t, v)
            else:
                for t in target.elts:
                    if isinstance(t, ast.Name):
                        o = self.expr_origin(value_expr) if value_expr is not None else {"VALUE"}
                        # unpacking a call result (x1, x2 = self.f(...)): values
                        self.origins.setdefault(t.id, set()).update(o)

    def collect_bindings(self):
        # two passes so that a view bound before its root's later rebinding still sees all origins
        for _ in range(3):
            for node in ast.walk(self.fn):
                if isinstance(node, ast.Assign):
                    for t in node.targets:
                        self.bind(t, node.value)
                elif isinstance(node, ast.AnnAssign) and node.value is not None:
                    self.bind(node.target, node.value)
                elif isinstance(node, ast.AugAssign):
                    if isinstance(node.target, ast.Name):
                        self.origins.setdefault(node.target.id, set()).add("VALUE")
                elif isinstance(node, (ast.For, ast.comprehension)):
                    self.bind(node.target, node.iter, iter_elem=True)
                elif isinstance(node, ast.With):
                    for it in node.items:
                        if it.optional_vars is not None:
                            self.bind(it.optional_vars, it.context_expr)
                elif isinstance(node, ast.NamedExpr):
                    self.bind(node.target, node.value)

    # ---- stores
    def check_store_target(self, stmt, tgt, key):
        """tgt is an Attribute or Subscript being stored into"""
        self.nstores += 1
        root, chain = _root_and_depth(tgt)
        if root is None:
            if key in ACCEPTED:
                return
            self.fail(stmt, "store through an expression that is not rooted at a name")
            return
        origins = self.origin_of_name(root)
        bad = []
        for o in origins:
            if o == SELF and not self.is_helper:
                k2 = (self.cls, self.fn.name)
                if k2 in SELF_STORE_ACCEPTED:
                    self.accepted.append({"where": self.where(stmt), "reason": SELF_STORE_ACCEPTED[k2]})
                else:
                    bad.append("store into the operator instance (`%s`): operators must not keep state between calls" % root)
                continue
            if o in (DEEP, SELF):
                continue
            if o == SHALLOW:
                if len(chain) == 1 and chain[0] == "[]":
                    continue
                bad.append("store below the first level of a new container `%s` (element ownership unknown)" % root)
            elif o == PARAM:
                bad.append("store through parameter `%s`" % root)
            elif o == "ELEMENT":
                bad.append("store through `%s`, an element of a new container (ownership unknown)" % root)
            elif o in ("VALUE", "SELFCALL"):
                bad.append("store through `%s`, bound to a computed value" % root)
            else:
                bad.append("store through `%s` whose binding is not recognised" % root)
        if bad:
            if key in ACCEPTED:
                return
            for b in sorted(set(bad)):
                self.fail(stmt, b)

    def targets_of(self, t):
        if isinstance(t, (ast.Tuple, ast.List)):
            for x in t.elts:
                yield from self.targets_of(x)
        elif isinstance(t, ast.Starred):
            yield from self.targets_of(t.value)
        else:
            yield t

    def var_store_roots(self, tgt):
        """roots X such that this store writes into X.variables (directly or through a view)"""
        root, chain = _root_and_depth(tgt)
        out = set()
        if root is None:
            return out
        if "variables" in chain:
            if root in self.views:
                for (r0, _t) in self.views[root]:
                    out.add(r0)
            else:
                out.add(root)
        elif root in self.views:
            for (r0, thr) in self.views[root]:
                if thr:
                    out.add(r0)
        return out

    def run(self):
        self.collect_bindings()
        fn = self.fn
        # parent map / block map
        parents = {}
        for node in ast.walk(fn):
            for ch in ast.iter_child_nodes(node):
                parents[ch] = node

        def enclosing_blocks(stmt):
            """list of statement lists (innermost first) that contain stmt, up to the function body"""
            out = []
            cur = stmt
            while cur is not fn:
                par = parents[cur]
                for field in ("body", "orelse", "finalbody", "handlers"):
                    blk = getattr(par, field, None)
                    if isinstance(blk, list) and cur in blk:
                        out.append(blk)
                cur = par
            return out

        var_store_stmts = []
        for node in ast.walk(fn):
            if isinstance(node, (ast.Assign, ast.AugAssign, ast.AnnAssign, ast.Delete)):
                if isinstance(node, ast.Assign):
                    tl = [x for t in node.targets for x in self.targets_of(t)]
                elif isinstance(node, ast.Delete):
                    tl = [x for t in node.targets for x in self.targets_of(t)]
                else:
                    tl = list(self.targets_of(node.target))
                key = (self.cls, fn.name, _src(node))
                stores = [t for t in tl if isinstance(t, (ast.Attribute, ast.Subscript))]
                if stores and key in ACCEPTED:
                    self.accepted.append({"where": self.where(node), "reason": ACCEPTED[key]})
                for t in stores:
                    self.check_store_target(node, t, key)
                    roots = self.var_store_roots(t)
                    if roots:
                        self.nvarstores += 1
                        var_store_stmts.append((node, roots))
                for t in tl:
                    if not isinstance(t, (ast.Attribute, ast.Subscript, ast.Name)):
                        self.fail(node, "unrecognised assignment target")
            elif isinstance(node, ast.Call):
                f = node.func
                argnodes = list(node.args) + [k.value for k in node.keywords]
                if isinstance(f, ast.Attribute):
                    recv_root, _chain = _root_and_depth(f.value)
                    if f.attr in MUTATING_METHODS:
                        self.nstores += 1
                        o = self.expr_origin(f.value) if not isinstance(f.value, ast.Name) else self.origin_of_name(f.value.id)
                        okset = {DEEP, SELF, SHALLOW}
                        if SELF in o and not self.is_helper and (self.cls, fn.name) not in SELF_STORE_ACCEPTED:
                            self.fail(node, "mutating call .%s() on the operator instance: operators must not keep state between calls" % f.attr)
                        if not o <= okset:
                            self.fail(node, "mutating call .%s() on a receiver that is not a fresh object / self (origins %s)" % (f.attr, sorted(o)))
                        continue
                    # method call: which receivers / arguments are parameter-derived?
                    is_self_call = isinstance(f.value, ast.Name) and f.value.id == "self" and not self.is_helper
                    is_module = isinstance(f.value, ast.Name) and f.value.id in PURE_MODULES
                    is_member = f.attr in MEMBER_METHODS
                    if is_self_call:
                        if f.attr not in self.class_methods:
                            self.fail(node, "call of self.%s which is not a method of this class (cannot be checked)" % f.attr)
                        continue
                    if is_module or is_member:
                        continue
                    ro = self.expr_origin(f.value)
                    if PARAM in ro:
                        self.fail(node, "unrecognised method .%s() called on a parameter-derived object" % f.attr)
                    for a in argnodes:
                        if PARAM in self.expr_origin(a) and not isinstance(a, ast.Constant):
                            self.fail(node, "parameter-derived argument passed to unrecognised method .%s()" % f.attr)
                elif isinstance(f, ast.Name):
                    if f.id in PURE_BUILTINS or f.id in VECTOR_HELPERS or f.id in ("super", "PlatypusError", "print"):
                        continue
                    for a in argnodes:
                        if PARAM in self.expr_origin(a):
                            self.fail(node, "parameter-derived argument passed to unrecognised function %s()" % f.id)
                else:
                    self.fail(node, "unrecognised call form")
        # ---- flag discipline
        if var_store_stmts:
            body = fn.body
            for node in ast.walk(fn):
                if isinstance(node, (ast.Break, ast.Continue)):
                    self.fail(node, "break/continue in a function that stores into `variables` (flag rule not applicable)")
                if isinstance(node, ast.Return) and node is not body[-1]:
                    self.fail(node, "early return in a function that stores into `variables` (flag rule not applicable)")
            for stmt, roots in var_store_stmts:
                blocks = enclosing_blocks(stmt)
                for r in roots:
                    found = False
                    for blk in blocks:
                        for s in blk:
                            if isinstance(s, ast.Assign) and len(s.targets) == 1:
                                t = s.targets[0]
                                if (isinstance(t, ast.Attribute) and t.attr == "evaluated" and isinstance(t.value, ast.Name)
                                        and t.value.id == r and isinstance(s.value, ast.Constant) and s.value.value is False):
                                    found = True
                        if found:
                            break
                    if not found:
                        self.fail(stmt, "store into %s.variables without `%s.evaluated = False` in the same or an enclosing block" % (r, r))
        return self


def _operator_classes(tree):
    classes = {n.name: n for n in tree.body if isinstance(n, ast.ClassDef)}
    ops = set()
    changed = True
    while changed:
        changed = False
        for name, c in classes.items():
            if name in ops:
                continue
            for b in c.bases:
                bn = b.id if isinstance(b, ast.Name) else (b.attr if isinstance(b, ast.Attribute) else None)
                if bn in OPERATOR_BASES or bn in ops:
                    ops.add(name)
                    changed = True
    return [classes[n] for n in sorted(ops, key=lambda n: classes[n].lineno)]


def check_helpers(math_path):
    """the vector helpers must not store through their parameters"""
    tree = ast.parse(open(math_path).read(), math_path)
    res = {"failures": [], "functions": 0, "stores": 0}
    fns = {n.name: n for n in tree.body if isinstance(n, ast.FunctionDef)}
    for name in sorted(VECTOR_HELPERS):
        if name not in fns:
            res["failures"].append("_math.%s not found" % name)
            continue
        fc = FunctionCheck("_math", fns[name], set(fns), is_helper=True).run()
        res["functions"] += 1
        res["stores"] += fc.nstores
        res["failures"] += fc.failures
    return res


def check_operators(operators_path, math_path=None):
    src = open(operators_path).read()
    tree = ast.parse(src, operators_path)
    out = {"ok": True, "failures": [], "accepted": [], "classes": [], "functions_checked": 0,
           "stores_checked": 0, "variable_stores_checked": 0}
    for c in _operator_classes(tree):
        methods = {n.name: n for n in c.body if isinstance(n, ast.FunctionDef)}
        out["classes"].append(c.name)
        for mname, fn in methods.items():
            if mname == "__init__":
                continue
            fc = FunctionCheck(c.name, fn, set(methods)).run()
            out["functions_checked"] += 1
            out["stores_checked"] += fc.nstores
            out["variable_stores_checked"] += fc.nvarstores
            out["failures"] += fc.failures
            out["accepted"] += fc.accepted
    if math_path is None:
        math_path = os.path.join(os.path.dirname(operators_path), "_math.py")
    h = check_helpers(math_path)
    out["functions_checked"] += h["functions"]
    out["stores_checked"] += h["stores"]
    out["failures"] += h["failures"]
    # every ACCEPTED entry must still match something (a stale entry is reported too)
    seen = {a["where"] for a in out["accepted"]}
    for (cls, meth) in SELF_STORE_ACCEPTED:
        if not any(w.startswith("%s.%s line" % (cls, meth)) for w in seen):
            out["failures"].append("accepted self-store no longer present: %s.%s" % (cls, meth))
    for (cls, meth, stmt), _why in ACCEPTED.items():
        if not any(w.startswith("%s.%s line" % (cls, meth)) and w.endswith(stmt) for w in seen):
            out["failures"].append("accepted pattern no longer present: %s.%s: %s" % (cls, meth, stmt))
    out["ok"] = not out["failures"]
    return out


if __name__ == "__main__":
    import json
    import sys
    p = sys.argv[1] if len(sys.argv) > 1 else "/repo/platypus/operators.py"
    r = check_operators(p)
    print(json.dumps(r, indent=1))
    sys.exit(0 if r["ok"] else 1)
