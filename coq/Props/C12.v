(* C12 — parallel evaluation returns results in job order under any completion order.
   Only statements; every proof is [exact lemma].

   Reading guide
     chunks n l          Model/Chunks.v   _chunks (evaluator.py:27-49)
     submit_evaluate     Model/Futures.v  Submit/Apply evaluators (181-199, 234-252); a schedule is the order
                                          in which the pool completes the jobs
     map_evaluate        Model/Futures.v  Map/Pool evaluators (133-150)
     step, run_schedule  Model/MPI.v      MPIPool.map / MPIPool.wait (mpipool.py:74-240) as a transition system;
                                          a schedule is a list of events (which process moves, which message
                                          a wildcard receive matches)
     evaluate_all        Model/Futures.v  Algorithm.evaluate_all pairing (core.py:699-712)
     file_all, gen_jobs  Model/Futures.v  experiment() (experimenter.py:66-125, 184-200)
   Nothing here is restricted to small sizes: worker counts, batch sizes, chunk sizes and schedules are
   universally quantified. *)
From Coq Require Import ZArith List Bool Permutation.
Import ListNotations.
From PV Require Import Model.Chunks Proofs.ChunksProofs Model.Futures Proofs.FuturesProofs
                       Model.MPI Proofs.MPIProofs.
Open Scope nat_scope.

(* ---- _chunks ---- *)
Theorem c12_chunks_concat : forall (A : Type) (n : Z) (l : list A), concat (chunks n l) = l.
Proof. exact chunks_concat. Qed.

Theorem c12_chunks_sizes : forall (A : Type) (n : Z) (l : list A) (pre : list (list A)) (last : list A),
  (0 < n)%Z -> chunks n l = pre ++ [last] ->
  Forall (fun c => Z.of_nat (length c) = n) pre /\ (0 < Z.of_nat (length last) <= n)%Z.
Proof. exact chunks_sizes. Qed.

Theorem c12_chunks_nonempty : forall (A : Type) (n : Z) (l : list A), Forall (fun c => c <> []) (chunks n l).
Proof. exact chunks_nonempty. Qed.

(* n <= 0: the generator never sees len(result) == n and yields everything as one trailing chunk *)
Theorem c12_chunks_nonpos : forall (A : Type) (n : Z) (l : list A), (n <= 0)%Z ->
  chunks n l = match l with [] => [] | _ :: _ => [l] end.
Proof. exact chunks_nonpos. Qed.

(* ---- futures: Submit / Apply evaluators ---- *)
Theorem c12_collect_in_order : forall (J R : Type) (f : J -> R) (jobs : list J) (sched : list nat)
    (log_frequency : option Z),
  Permutation sched (seq 0 (length jobs)) ->
  submit_evaluate f log_frequency jobs sched = Some (map f jobs).
Proof. exact collect_in_order. Qed.

Theorem c12_collect_interleaved : forall (J R : Type) (f : J -> R) (jobs : list J) (evs : list fev) (st : fstate R),
  frun f jobs (finit jobs) evs = Some st ->
  fs_out st = map f (firstn (length (fs_out st)) jobs) /\
  (length (fs_out st) = length jobs -> fs_out st = map f jobs).
Proof. exact collect_interleaved. Qed.

(* ---- Map / Pool evaluators, with and without log_frequency ---- *)
Theorem c12_map_evaluate_in_order : forall (J R : Type) (f : J -> R) (mapf : list J -> list R)
    (log_frequency : option Z) (jobs : list J),
  (forall l, mapf l = map f l) -> map_evaluate mapf log_frequency jobs = map f jobs.
Proof. exact map_evaluate_in_order. Qed.

(* ---- MPIPool ---- *)
Theorem c12_fresh_pool_idle : forall (T R : Type) (W : nat), pool_idle T R W 0 (fresh_workers W).
Proof. exact fresh_pool_idle. Qed.

(* occ cfg st i = number of places among {undispatched, in flight to a worker, running on a worker,
   in flight to the master, stored in results} that hold task index i *)
Theorem mpi_safety : forall (T R : Type) (fn : nat -> T -> R) (cfg : config T) (mf : nat) (ws : list (worker T R)),
  0 < c_W cfg -> pool_idle T R (c_W cfg) mf ws ->
  Inv T R fn cfg (init cfg mf ws) /\
  (forall st e st', Inv T R fn cfg st -> step fn cfg st e = Some st' -> Inv T R fn cfg st') /\
  (forall st, reachable T R fn cfg mf ws st ->
     (forall i, occ T R cfg st i = if i <? length (c_tasks cfg) then 1 else 0) /\
     (m_done (st_m st) = true ->
        result cfg st = map Some (map (fn (c_g cfg)) (c_tasks cfg)) /\
        pool_idle T R (c_W cfg) (c_g cfg) (st_w st))).
Proof. exact mpi_safety_full. Qed.

Theorem mpi_progress : forall (T R : Type) (fn : nat -> T -> R) (cfg : config T) (mf : nat) (ws : list (worker T R))
    (st : state T R),
  0 < c_W cfg -> pool_idle T R (c_W cfg) mf ws -> reachable T R fn cfg mf ws st ->
  (m_done (st_m st) = false -> exists e st', step fn cfg st e = Some st') /\
  (forall e st', step fn cfg st e = Some st' -> mu T R cfg st' < mu T R cfg st) /\
  (exists evs st', run_schedule fn cfg st evs = Some st' /\ m_done (st_m st') = true).
Proof. exact mpi_progress_full. Qed.

Theorem c12_mpi_schedules_bounded : forall (T R : Type) (fn : nat -> T -> R) (cfg : config T) (mf : nat)
    (ws : list (worker T R)) (evs : list ev) (st : state T R), 0 < c_W cfg ->
  run_schedule fn cfg (init cfg mf ws) evs = Some st -> length evs <= mu T R cfg (init cfg mf ws).
Proof. exact mpi_schedules_bounded. Qed.

(* any number of consecutive batches on one pool; this is the function the trace check evaluates *)
Theorem c12_mpi_session_safety : forall (T R : Type) (fn : nat -> T -> R) (W : nat) (lbflag : bool)
    (bs : list (nat * list T * list ev)) (mf : nat) (ws : list (worker T R)) (rs : list (list (option R))),
  0 < W -> pool_idle T R W mf ws ->
  run_session fn W lbflag mf ws bs = Some rs ->
  rs = map (fun b => map Some (map (fn (fst (fst b))) (snd (fst b)))) bs.
Proof. exact mpi_session_safety. Qed.

(* ---- Algorithm.evaluate_all ---- *)
Theorem pairing_keeps_variables : forall (F : list Z -> list Z) (evaluator : list sol -> list sol) (sols : list sol),
  Forall2 (evaluated_of F) (unevaluated sols) (evaluator (unevaluated sols)) ->
  exists sols', evaluate_all evaluator sols = Some sols' /\ Forall2 (after F) sols sols'.
Proof. exact pairing_keeps_variables. Qed.

Theorem c12_pairing_in_order_evaluator : forall (F : list Z -> list Z) (ev : sol -> sol) (sols : list sol),
  (forall u, evaluated_of F u (ev u)) ->
  exists sols', evaluate_all (map ev) sols = Some sols' /\ Forall2 (after F) sols sols'.
Proof. exact pairing_in_order_evaluator. Qed.

Theorem c12_after_ids_vars : forall (F : list Z -> list Z) (sols sols' : list sol), Forall2 (after F) sols sols' ->
  map s_id sols' = map s_id sols /\ map s_vars sols' = map s_vars sols /\ length sols' = length sols.
Proof. exact after_ids_vars. Qed.

(* ---- experiment() ---- *)
Theorem c12_filing_general : forall (jobs : list ejob) (a p : nat),
  rlookup a p (file_all jobs) = map j_res (filter (jmatch a p) jobs).
Proof. exact filing_general. Qed.

Theorem experiment_filing : forall (algs probs : list nat) (seeds : nat) (resf : nat -> nat -> nat -> Z) (a p : nat),
  NoDup algs -> NoDup probs -> In a algs -> In p probs ->
  rlookup a p (file_all (gen_jobs algs probs seeds resf)) = map (resf a p) (seq 0 seeds).
Proof. exact experiment_filing. Qed.

(* algorithm declarations: bare type / (type,) / (type, kwargs) / (type, kwargs, name); the entries filed
   under a declaration's name were produced by ITS type with ITS kwargs (default 0 = {} when it has none,
   whatever precedes it in the list) *)
Theorem c12_experiment_filing_decl : forall (decls : list adecl) (probs : list nat) (seeds : nat)
    (resf : nat -> Z -> nat -> nat -> Z) (js : list ejob) (d : adecl) (p : nat),
  decl_jobs decls probs seeds resf = Some js -> NoDup probs -> In d decls -> In p probs ->
  rlookup (dname d) p (file_all js) = map (resf (dty d) (dkw d) p) (seq 0 seeds).
Proof. exact experiment_filing_decl. Qed.

Theorem c12_decl_jobs_defined : forall (decls : list adecl) (probs : list nat) (seeds : nat)
    (resf : nat -> Z -> nat -> nat -> Z),
  NoDup (map dname decls) -> exists js, decl_jobs decls probs seeds resf = Some js.
Proof. exact decl_jobs_defined. Qed.
