(* C08 — run(N) stops on budget; honest evaluation counter; overshoot under one step.
   Only statements; every proof is [exact lemma] (proofs in Proofs/RunLoopProofs.v).

   The run-loop theorems hold for EVERY state type, step function and hooks satisfying [well_behaved]:
   hooks (extensions' start_run/pre_step/post_step/end_run, the callback) keep the invariant, never decrease
   nfe and evaluate only through evaluate_all; the algorithm's step strictly increases nfe.  That last
   hypothesis is discharged for the 15 shipped algorithms by c08_iterate_batches_nonempty / c08_alg_progress
   (sizes >= 1; a size of 0 is a rejected configuration, c08_zero_size_no_progress), and for everything that
   is not modelled per algorithm it is what the trace validation (Harness/H08.v, accepts) checks on real runs. *)
From Coq Require Import Arith List Bool.
Import ListNotations.
From PV Require Import Model.RunLoop Proofs.RunLoopProofs.

Section C08.
  Variable St : Type.
  Variable nfe calls : St -> nat.
  Variable start_run end_run pre_step post_step alg_step callback : St -> St.
  Variable Inv : St -> Prop.
  Hypothesis WB : well_behaved St nfe calls start_run end_run pre_step post_step alg_step callback Inv.
  Notation run := (run St nfe start_run end_run pre_step post_step alg_step callback).
  Notation iter := (iter St pre_step post_step alg_step callback).

  (* a run with budget N always terminates (the fuel of the model, N, suffices) *)
  Theorem c08_run_terminates : forall N s, Inv s -> exists s', run N s = Some s' /\ Inv s'.
  Proof. exact (run_terminates St nfe calls start_run end_run pre_step post_step alg_step callback Inv WB). Qed.

  (* it stops after the first step at which the evaluations counted since the call reach N; no step is
     started once the budget is met; the loop body (hooks, step, callback) ran exactly k times *)
  Theorem c08_run_stops_first : forall N s, Inv s ->
    exists k, run N s = Some (end_run (iter k (start_run s)))
              /\ k <= N
              /\ N <= nfe (iter k (start_run s)) - nfe s
              /\ (forall j, j < k -> nfe (iter j (start_run s)) - nfe s < N).
  Proof. exact (run_stops_first St nfe calls start_run end_run pre_step post_step alg_step callback Inv WB). Qed.

  (* the overshoot is less than the size of the last step *)
  Theorem c08_run_overshoot : forall N s, Inv s ->
    exists k, run N s = Some (end_run (iter k (start_run s)))
      /\ match k with
         | 0 => N <= nfe (start_run s) - nfe s
         | S k' => (nfe (iter k (start_run s)) - nfe s) - N
                     < nfe (iter k (start_run s)) - nfe (iter k' (start_run s))
         end.
  Proof. exact (run_overshoot St nfe calls start_run end_run pre_step post_step alg_step callback Inv WB). Qed.

  (* a budget of 0 makes no step (hence no evaluation by the loop) *)
  Theorem c08_run_zero : forall s, run 0 s = Some (end_run (start_run s)).
  Proof. exact (run_zero St nfe start_run end_run pre_step post_step alg_step callback). Qed.

  (* the counter strictly increases with every step *)
  Theorem c08_nfe_strict_mono : forall s, Inv s -> forall j j', j < j' -> nfe (iter j s) < nfe (iter j' s).
  Proof. exact (nfe_strict_mono St nfe calls start_run end_run pre_step post_step alg_step callback Inv WB). Qed.

  (* ... and is never smaller than the number of real calls of the problem function *)
  Theorem c08_calls_le_nfe : forall N s s', Inv s -> calls s <= nfe s -> run N s = Some s' -> calls s' <= nfe s'.
  Proof. exact (calls_le_nfe_abs St nfe calls start_run end_run pre_step post_step alg_step callback Inv WB). Qed.

  (* calling run again continues from the current state with a fresh budget *)
  Theorem c08_run_again : forall N1 N2 s, Inv s ->
    exists s1 k2, run N1 s = Some s1 /\ Inv s1
      /\ run N2 s1 = Some (end_run (iter k2 (start_run s1)))
      /\ N2 <= nfe (iter k2 (start_run s1)) - nfe s1
      /\ (forall j, j < k2 -> nfe (iter j (start_run s1)) - nfe s1 < N2).
  Proof. exact (run_again St nfe calls start_run end_run pre_step post_step alg_step callback Inv WB). Qed.
End C08.

(* evaluate_all: nfe grows by the number of members PASSED, the problem function is called on exactly the
   members whose flag is clear — never on an evaluated one, at most once each — and a batch that went through
   evaluate_all is entirely evaluated *)
Theorem c08_evaluate_all_counts : forall b e,
  e_nfe (evaluate_all b e) = e_nfe e + length b
  /\ e_calls (evaluate_all b e) = e_calls e ++ map m_sid (unevaluated b).
Proof. exact (fun b e => conj (evaluate_all_nfe b e) (evaluate_all_calls b e)). Qed.

Theorem c08_no_reevaluation : forall b e,
  (forall x, In x (map m_sid (unevaluated b)) -> In (x, false) b)
  /\ (NoDup (map m_sid b) -> NoDup (map m_sid (unevaluated b)))
  /\ (NoDup (map m_sid b) -> forall m, In m b -> m_flag m = true -> ~ In (m_sid m) (map m_sid (unevaluated b)))
  /\ length (e_calls (evaluate_all b e)) - length (e_calls e) <= e_nfe (evaluate_all b e) - e_nfe e
  /\ unevaluated (flags_after b) = [].
Proof. exact no_reevaluation. Qed.

(* every initialize/iterate of the 15 shipped algorithms submits at least one non-empty batch when
   population_size, offspring_size, swarm_size >= 1 and the variator returns >= 1 child *)
Theorem c08_iterate_batches_nonempty : forall k c, cfg_ok c = true ->
  exists l, iterate_batches k c = Some l /\ all_pos l.
Proof. exact iterate_batches_nonempty. Qed.

Theorem c08_init_batches_nonempty : forall k c, cfg_ok c = true ->
  exists l, init_batches k c = Some l /\ all_pos l.
Proof. exact init_batches_nonempty. Qed.

(* the offspring loop `while len(offspring) < target` ends with the smallest multiple of the number of
   children per mating that reaches the target *)
Theorem c08_fill_spec : forall target kids, 1 <= kids ->
  exists m q, fill target kids = Some m /\ target <= m /\ m < target + kids /\ m = q * kids.
Proof. exact fill_spec. Qed.

Theorem c08_alg_progress : forall s, a_inv s -> a_inv (a_step s) /\ a_nfe s < a_nfe (a_step s).
Proof. exact a_progress. Qed.

(* hence run(N) of each shipped algorithm terminates at the first boundary >= N *)
Theorem c08_alg_run_stops_first : forall N s, a_inv s ->
  exists k, a_run N s = Some (iter astate (fun x => x) (fun x => x) a_step (fun x => x) k s)
    /\ k <= N
    /\ N <= a_nfe (iter astate (fun x => x) (fun x => x) a_step (fun x => x) k s) - a_nfe s
    /\ (forall j, j < k -> a_nfe (iter astate (fun x => x) (fun x => x) a_step (fun x => x) j s) - a_nfe s < N).
Proof. exact a_run_stops_first. Qed.

(* rejected configuration: with a size of 0 the step evaluates nothing (the real run() spins) *)
Theorem c08_zero_size_no_progress :
  a_nfe (a_step (mkA K_NSGAII (mkCfg 0 1 2 1) 0)) = 0 /\ a_nfe (a_step (mkA K_GA (mkCfg 3 0 2 1) 3)) = 3.
Proof. exact zero_size_no_progress. Qed.

(* what the harness's boolean [accepts] establishes about a logged real run *)
Theorem c08_accepts_sound : forall k calls, accepts k calls = true ->
  chain_ok calls (mkT (mkE 0 []) (script_of calls) false).
Proof. exact accepts_sound. Qed.
