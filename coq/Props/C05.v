(* C05 — epsilon-box archive: one solution per box, epsilon-covers everything offered.
   Only statements; every proof is [exact lemma].

   Everything is about the literal model Model/Epsilon.v of EpsilonDominance.compare/same_box,
   Archive.add and EpsilonBoxArchive.add, in EXACT rational arithmetic (binary64 rounding of
   o/eps, o - i*eps, squares and sums is not modelled).  Hypotheses throughout:
     wf_cfg c   : the epsilon list is non-empty and every epsilon is > 0
     wf_sol c s : s has one objective per direction of the problem and violation >= 0
   and nothing else: any number of objectives, any directions, shared or per-objective
   epsilons (the last one reused), with or without constraints, histories of any length with
   repeats and twins.  Under these hypotheses the model never returns the exception value None.

   Vocabulary (Proofs/EpsilonProofs.v):
     eps_vec c      one epsilon per objective: the i-th, or the LAST one when the list is shorter
     eps_adjs c s   objectives with maximised ones negated
     eps_boxes c s  box index vector  floor (adjusted objective / epsilon)
     eps_cdist c s  squared distance to the ideal corner of the own box  sum (o - i*eps)^2
     eps_vkey c s   violation class: constraint_violation if the problem has constraints, else 0
     zdom b1 b2     Pareto dominance between box index vectors (<= everywhere, < somewhere)
     pareto_cmp     ParetoDominance.compare = the C02 model (Model/Dominance.v) at carrier xq *)
From Coq Require Import ZArith QArith Qround Bool List.
Import ListNotations.
From PV Require Import Base.Num Model.Dominance Model.Epsilon Proofs.EpsilonProofs.
Open Scope Z_scope.

(* ---- compare ---- *)

(* smaller violation first; then Pareto on BOX INDICES; in one and the same box the solution
   nearer the ideal corner (equal distance answers 1, never 0); otherwise 0.
   [The repaired code decides a Pareto-better pair inside a box before looking at the distance;
    c05_tie_break_is_distance shows that in exact arithmetic this is the same answer.] *)
Theorem c05_eps_compare_spec : forall c a b, wf_cfg c -> wf_sol c a -> wf_sol c b ->
  eps_compare c a b = Some (
    if Qltb (eps_vkey c a) (eps_vkey c b) then -1 else if Qltb (eps_vkey c b) (eps_vkey c a) then 1
    else if zdom (eps_boxes c a) (eps_boxes c b) then -1
    else if zdom (eps_boxes c b) (eps_boxes c a) then 1
    else if zvec_eqb (eps_boxes c a) (eps_boxes c b)
         then (if Qltb (eps_cdist c a) (eps_cdist c b) then -1 else 1)
    else 0).
Proof. exact eps_compare_spec. Qed.

Theorem c05_tie_break_is_distance : forall c a b, wf_cfg c -> wf_sol c a -> wf_sol c b ->
  eps_boxes c a = eps_boxes c b ->
  let b1 := qsome_lt (eps_adjs c a) (eps_adjs c b) in
  let b2 := qsome_lt (eps_adjs c b) (eps_adjs c a) in
  (if b1 && negb b2 then Some (-1) else if b2 && negb b1 then Some 1
   else if Qltb (eps_cdist c a) (eps_cdist c b) then Some (-1) else Some 1)
  = (if Qltb (eps_cdist c a) (eps_cdist c b) then Some (-1) else Some 1).
Proof. exact tie_break_is_distance. Qed.

(* first argument wins  <->  less violating, or equal class and (its box dominates, or same box
   and strictly nearer the corner) *)
Theorem c05_first_wins_iff : forall c a b, wf_cfg c -> wf_sol c a -> wf_sol c b ->
  (eps_compare c a b = Some (-1) <->
   (eps_vkey c a < eps_vkey c b)%Q \/
   ((eps_vkey c a == eps_vkey c b)%Q /\
    (zdom (eps_boxes c a) (eps_boxes c b) = true \/
     (eps_boxes c a = eps_boxes c b /\ (eps_cdist c a < eps_cdist c b)%Q)))).
Proof. exact eps_compare_first_iff. Qed.

(* never 0 inside one box *)
Theorem c05_same_box_never_zero : forall c a b, wf_cfg c -> wf_sol c a -> wf_sol c b ->
  (eps_vkey c a == eps_vkey c b)%Q -> eps_boxes c a = eps_boxes c b ->
  eps_compare c a b = Some (if Qltb (eps_cdist c a) (eps_cdist c b) then -1 else 1).
Proof. exact eps_compare_same_box. Qed.

(* ---- same_box ---- *)
Theorem c05_same_box_iff : forall c a b, wf_cfg c -> wf_sol c a -> wf_sol c b ->
  (same_box c a b = Some true <->
   (eps_vkey c a == eps_vkey c b)%Q /\ eps_boxes c a = eps_boxes c b).
Proof. exact same_box_iff. Qed.

Theorem c05_same_box_total : forall c a b, wf_cfg c -> wf_sol c a -> wf_sol c b ->
  same_box c a b = Some (Qeq_bool (eps_vkey c a) (eps_vkey c b) && zvec_eqb (eps_boxes c a) (eps_boxes c b)).
Proof. exact same_box_total. Qed.

(* ---- consistency with Pareto dominance ---- *)
Theorem c05_eps_respects_pareto : forall c a b, wf_cfg c -> wf_sol c a -> wf_sol c b ->
  pareto_cmp c a b = -1 -> eps_compare c a b = Some (-1).
Proof. exact eps_respects_pareto. Qed.

Theorem c05_eps_respects_pareto_second : forall c a b, wf_cfg c -> wf_sol c a -> wf_sol c b ->
  pareto_cmp c a b = 1 -> eps_compare c a b = Some 1.
Proof. exact eps_respects_pareto_second. Qed.

(* ---- eps-dominance is transitive ---- *)
Theorem c05_eps_dominates_trans : forall c x y z, wf_cfg c -> wf_sol c x -> wf_sol c y -> wf_sol c z ->
  eps_compare c x y = Some (-1) -> eps_compare c y z = Some (-1) -> eps_compare c x z = Some (-1).
Proof. exact eps_dominates_trans. Qed.

(* ---- the archive invariant, after EVERY history ----
   EInv c l a imp  (record in Proofs/EpsilonProofs.v) =
     members are offered solutions;
     (i)   ForallOrdPairs (fun m m' => ~ same_key c m m') a     at most one member per (class, box)
           and all members share one violation class;
     (ii)  In m a -> In m' a -> zdom (eps_boxes c m) (eps_boxes c m') = false
     (iii) Forall (fun x => Exists (fun m => wdom c m x) a) l   coverage of everything offered,
           wdom c m x = vkey m < vkey x \/ (vkey m == vkey x /\ boxes m <= boxes x coordinatewise)
     (iv)  imp = new_box_count c l = number of offers that were accepted while no member had
           their (class, box) key at that moment *)
Theorem c05_einv_all_histories : forall c l, wf_cfg c -> Forall (wf_sol c) l ->
  exists a imp, eps_box_run c l = Some (a, imp) /\ EInv c l a imp.
Proof. exact eps_box_run_inv. Qed.

(* the invariant's clauses spelled out, so the statement is visible here *)
Theorem c05_einv_clauses : forall c l a imp, EInv c l a imp ->
  incl a l /\
  ForallOrdPairs (fun m m' => ~ ((eps_vkey c m == eps_vkey c m')%Q /\ eps_boxes c m = eps_boxes c m')) a /\
  (forall m m', In m a -> In m' a -> (eps_vkey c m == eps_vkey c m')%Q) /\
  (forall m m', In m a -> In m' a -> zdom (eps_boxes c m) (eps_boxes c m') = false) /\
  Forall (fun x => Exists (fun m =>
      (eps_vkey c m < eps_vkey c x)%Q \/
      ((eps_vkey c m == eps_vkey c x)%Q /\ zall_le (eps_boxes c m) (eps_boxes c x) = true)) a) l /\
  imp = new_box_count c l.
Proof. exact einv_clauses. Qed.

(* stronger than (iii): every offered solution is beaten or tied by a member
     geq c m x = vkey m < vkey x \/ (vkey m == vkey x /\ (box m dominates box x \/
                                     (same box /\ cdist m <= cdist x)))
   and no member is eps-dominated -- in particular Pareto-dominated -- by anything ever offered *)
Theorem c05_einv_strong : forall c l a imp, EInv c l a imp ->
  Forall (fun x => Exists (fun m => geq c m x) a) l /\
  (forall x m, In x l -> In m a -> ~ edom c x m).
Proof. exact einv_strong. Qed.

Theorem c05_members_pareto_nondominated : forall c l a imp, wf_cfg c -> Forall (wf_sol c) l ->
  EInv c l a imp -> forall x m, In x l -> In m a -> pareto_cmp c x m <> -1.
Proof. exact einv_pareto_nondominated. Qed.

(* (iii) continued: a covering member is within one epsilon of x, or better, in every objective *)
Theorem c05_coverage_within_eps : forall c m x, wf_cfg c -> wf_sol c m -> wf_sol c x -> wdom c m x ->
  (eps_vkey c m < eps_vkey c x)%Q \/
  ((eps_vkey c m == eps_vkey c x)%Q /\
   forall i, (i < length (e_dirs c))%nat ->
     (nth i (eps_adjs c m) 0 < nth i (eps_adjs c x) 0 + nth i (eps_vec c) 0)%Q).
Proof. exact wdom_within_eps. Qed.

(* (iv) one step of the counter: +1 exactly when the offer is accepted and no CURRENT member
   (before the filtering) has its violation class and box *)
Theorem c05_counter_step : forall c a imp s a' imp' ok, wf_cfg c -> Forall (wf_sol c) a -> wf_sol c s ->
  eps_box_add c (a, imp) s = Some ((a', imp'), ok) ->
  imp' = (imp + (if ok && forallb (fun m => negb (Qeq_bool (eps_vkey c s) (eps_vkey c m) &&
                                               zvec_eqb (eps_boxes c s) (eps_boxes c m))) a
                 then 1 else 0))%nat.
Proof. exact eps_box_add_counter. Qed.

(* an offer is rejected exactly when some member answers 1 against it *)
Theorem c05_accept_iff : forall c a imp s st' ok, wf_cfg c -> Forall (wf_sol c) a -> wf_sol c s ->
  eps_box_add c (a, imp) s = Some (st', ok) ->
  (ok = false <-> exists m, In m a /\ eps_compare c s m = Some 1).
Proof. exact eps_box_add_accept_iff. Qed.

(* a rejected add leaves contents and counter unchanged (no hypotheses at all) *)
Theorem c05_reject_unchanged : forall c st s st', eps_box_add c st s = Some (st', false) -> st' = st.
Proof. exact eps_box_add_reject. Qed.

Theorem c05_plain_reject_unchanged : forall c a s a', eps_plain_add c a s = Some (a', false) -> a' = a.
Proof. exact eps_plain_add_reject. Qed.

(* Archive(EpsilonDominance(eps)) (OMOPSO, CMAES) holds exactly the contents of
   EpsilonBoxArchive(eps) after the same history, hence satisfies clauses (i)-(iii) too *)
Theorem c05_plain_archive_same_contents : forall c l, wf_cfg c -> Forall (wf_sol c) l ->
  eps_plain_run c l = option_map fst (eps_box_run c l).
Proof. exact eps_plain_run_eq. Qed.
