From Coq Require Import ZArith Bool List.
From PV Require Import Base.Num Base.FVal Base.Tape Model.Operators Model.RealOps Proofs.OperatorsProofs Proofs.RealOpsProofs.
Theorem c06_clip_range : forall (v : fval) (lb ub : xq), xleb lb ub = true ->
  exists r, clip v (FX lb) (FX ub) = FX r /\ xleb lb r = true /\ xleb r ub = true.
Proof. exact clip_range_x. Qed.
