(* C06 — variation operators return valid offspring and never modify their parents.
   Only statements; every proof is [exact lemma].  All theorems hold for EVERY tape, i.e. for
   every outcome of the random stream (incl. the extreme draws of each primitive) and — for
   the real-valued operators — for every value (any float, +-inf, NaN) the unmodelled float
   arithmetic may hand to `clip`.

   "Parents unchanged": structural in a functional model (no theorem can say more); the fact
   about the Python code is the frame-check obligation (harness/translate/framecheck.py) plus
   the driver's deep snapshots of every parent before/after every call.

   Reading guide:  valid_sol ts s  = every variable of s is valid for its declared type
   (real inside its bounds and not NaN, bit string of the declared length, permutation of
   exactly the declared elements, duplicate-free subset of the declared size within the
   declared elements);  copied_from c p = c carries p's payload (objectives, ...) and, if c is
   still marked evaluated, c is field-equal to p;  py_safe r = the run ends in offspring or
   only because the tape was exhausted/ill-typed — never in a Python exception. *)
From Coq Require Import ZArith QArith Bool List Permutation.
From PV Require Import Base.Num Base.FVal Base.Tape Model.Operators Model.RealOps Model.RealFormulas
     Proofs.OperatorsProofs Proofs.RealOpsProofs Proofs.RealFormulasProofs.
Import ListNotations.

(* ------------------------------------------------------------------ clip *)
Theorem c06_clip_range : forall (v : fval) (lb ub : xq), xleb lb ub = true ->
  exists r, clip v (FX lb) (FX ub) = FX r /\ xleb lb r = true /\ xleb r ub = true.
Proof. exact clip_range_x. Qed.

Theorem c06_clip_not_nan : forall v lb ub, is_nan (clip v (FX lb) (FX ub)) = false.
Proof. exact clip_not_nan. Qed.

Theorem c06_clip_finite : forall v lb ub, xleb lb ub = true -> xfinite lb = true -> xfinite ub = true ->
  exists q, clip v (FX lb) (FX ub) = FX (Fin q).
Proof. exact clip_finite. Qed.

(* min(max(v,lb),ub) — the other argument order — lets a NaN candidate through *)
Theorem c06_clip_reordered_keeps_nan : forall lb ub, clip_reordered FNaN (FX lb) (FX ub) = FNaN.
Proof. exact clip_reordered_nan. Qed.

Section C06.
  Variable E : Type.
  Variable P : Type.
  Variable eqb : E -> E -> bool.
  Hypothesis eqb_spec : forall x y, eqb x y = true <-> x = y.

  Notation sol := (sol E P).
  Notation wf := (wf_type E).
  Notation valid_sol := (valid_sol E P).
  Notation copied_from := (copied_from E P).
  Notation two_children_ok := (two_children_ok E P).

  (* ---------------------------------------------------------------- discrete operators *)
  Theorem c06_bitflip_valid : forall pr ts fresh p t c f t',
    Forall wf ts -> valid_sol ts p -> bitflip E P pr ts fresh p t = Ok (c, f, t') ->
    valid_sol ts c /\ copied_from c p /\ sid c = fresh /\ f = S fresh.
  Proof. exact (bitflip_valid E P). Qed.

  Theorem c06_bitflip_safe : forall pr ts fresh p t,
    Forall wf ts -> valid_sol ts p -> (forall z, pr = PInt z -> (0 < total_nbits E ts)%nat) ->
    py_safe (bitflip E P pr ts fresh p t).
  Proof. exact (bitflip_safe E P). Qed.

  Theorem c06_hux_valid : forall pr ts fresh p1 p2 t cs f t',
    Forall wf ts -> valid_sol ts p1 -> valid_sol ts p2 ->
    hux E P pr ts fresh [p1; p2] t = Ok (cs, f, t') -> two_children_ok ts fresh p1 p2 cs f.
  Proof. exact (hux_valid E P). Qed.

  Theorem c06_hux_safe : forall pr ts fresh p1 p2 t,
    Forall wf ts -> valid_sol ts p1 -> valid_sol ts p2 -> py_safe (hux E P pr ts fresh [p1; p2] t).
  Proof. exact (hux_safe E P). Qed.

  (* the `while i == j` redraw loop consumes draws equal to i until one differs *)
  Theorem c06_redraw_consumes : forall n i fuel j t j' t',
    redraw fuel n i j t = Ok (j', t') ->
    j' <> i /\ ((j = j' /\ t = t') \/ (j = i /\ exists m, t = repeat (DIdx i) m ++ DIdx j' :: t')).
  Proof. exact redraw_consumes. Qed.

  Theorem c06_swap_valid : forall p ts fresh s t c f t',
    Forall wf ts -> valid_sol ts s -> swap E P p ts fresh s t = Ok (c, f, t') ->
    valid_sol ts c /\ copied_from c s /\ sid c = fresh /\ f = S fresh.
  Proof. exact (swap_valid E P). Qed.

  Theorem c06_swap_safe : forall p ts fresh s t,
    Forall wf ts -> valid_sol ts s -> py_safe (swap E P p ts fresh s t).
  Proof. exact (swap_safe E P). Qed.

  Theorem c06_insertion_valid : forall p ts fresh s t c f t',
    Forall wf ts -> valid_sol ts s -> insertion E P p ts fresh s t = Ok (c, f, t') ->
    valid_sol ts c /\ copied_from c s /\ sid c = fresh /\ f = S fresh.
  Proof. exact (insertion_valid E P). Qed.

  Theorem c06_insertion_safe : forall p ts fresh s t,
    Forall wf ts -> valid_sol ts s -> py_safe (insertion E P p ts fresh s t).
  Proof. exact (insertion_safe E P). Qed.

  Theorem c06_replace_valid : forall p ts fresh s t c f t',
    Forall wf ts -> valid_sol ts s -> replace E P eqb p ts fresh s t = Ok (c, f, t') ->
    valid_sol ts c /\ copied_from c s /\ sid c = fresh /\ f = S fresh.
  Proof. exact (replace_valid E P eqb eqb_spec). Qed.

  Theorem c06_replace_safe : forall p ts fresh s t,
    Forall wf ts -> valid_sol ts s -> py_safe (replace E P eqb p ts fresh s t).
  Proof. exact (replace_safe E P eqb eqb_spec). Qed.

  Theorem c06_ssx_valid : forall pr ts fresh p1 p2 t cs f t',
    Forall wf ts -> valid_sol ts p1 -> valid_sol ts p2 ->
    ssx E P eqb pr ts fresh [p1; p2] t = Ok (cs, f, t') -> two_children_ok ts fresh p1 p2 cs f.
  Proof. exact (ssx_valid E P eqb eqb_spec). Qed.

  Theorem c06_ssx_safe : forall pr ts fresh p1 p2 t,
    Forall wf ts -> valid_sol ts p1 -> valid_sol ts p2 -> py_safe (ssx E P eqb pr ts fresh [p1; p2] t).
  Proof. exact (ssx_safe E P eqb). Qed.


  (* PMX: duplicate-free parents over the same elements, ANY cut: the `while n in replacement`
     chains end within the fuel n+1 (termination = injectivity of the segment map) and both
     offspring are permutations of the parents' elements *)
  Theorem c06_pmx_cut_perm : forall p1 p2 cp1 cp2, NoDup p1 -> NoDup p2 -> Permutation p1 p2 ->
    (cp1 <= cp2 < length p1)%nat ->
    exists o1 o2, pmx_cut E eqb p1 p2 cp1 cp2 = Ok (o1, o2) /\ Permutation p1 o1 /\ Permutation p2 o2.
  Proof. exact (pmx_cut_perm E eqb eqb_spec). Qed.

  Theorem c06_pmx_valid : forall pr ts fresh p1 p2 t cs f t',
    Forall wf ts -> valid_sol ts p1 -> valid_sol ts p2 ->
    pmx E P eqb pr ts fresh [p1; p2] t = Ok (cs, f, t') -> two_children_ok ts fresh p1 p2 cs f.
  Proof. exact (pmx_valid E P eqb eqb_spec). Qed.

  (* in particular: never EFuel, never IndexError *)
  Theorem c06_pmx_safe : forall pr ts fresh p1 p2 t,
    Forall wf ts -> valid_sol ts p1 -> valid_sol ts p2 -> py_safe (pmx E P eqb pr ts fresh [p1; p2] t).
  Proof. exact (pmx_safe E P eqb eqb_spec). Qed.

  (* ---------------------------------------------------------------- real-valued operators:
     every written variable is clip(candidate) (UM: the uniform(lb,ub) draw), hence valid *)
  Theorem c06_pm_valid : forall pr ts fresh p t c f t',
    Forall wf ts -> valid_sol ts p -> pm E P pr ts fresh p t = Ok (c, f, t') ->
    valid_sol ts c /\ copied_from c p /\ sid c = fresh /\ f = S fresh.
  Proof. exact (pm_valid E P). Qed.

  Theorem c06_um_valid : forall pr ts fresh p t c f t',
    Forall wf ts -> valid_sol ts p -> um E P pr ts fresh p t = Ok (c, f, t') ->
    valid_sol ts c /\ copied_from c p /\ sid c = fresh /\ f = S fresh.
  Proof. exact (um_valid E P). Qed.

  (* the repaired um_mutation (fix f6dc0d6): when ub - lb overflows, lb*(1-r) + ub*r with r = random.random() *)
  Theorem c06_um_interp_in_bounds : forall a b r : Q, (a <= b)%Q -> (0 <= r)%Q -> (r <= 1)%Q ->
    (a <= a * (1 - r) + b * r)%Q /\ (a * (1 - r) + b * r <= b)%Q.
  Proof. exact um_interp_in_bounds. Qed.

  Theorem c06_um_value_valid : forall lb ub t x t', xleb lb ub = true ->
    um_value lb ub t = Ok (x, t') -> in_bounds lb ub x.
  Proof. exact um_value_valid. Qed.

  Theorem c06_uniform_mutation_valid : forall p ts fresh s t c f t',
    Forall wf ts -> valid_sol ts s -> uniform_mutation E P p ts fresh s t = Ok (c, f, t') ->
    valid_sol ts c /\ copied_from c s /\ sid c = fresh /\ f = S fresh.
  Proof. exact (uniform_mutation_valid E P). Qed.

  Theorem c06_non_uniform_mutation_valid : forall p ts fresh s t c f t',
    Forall wf ts -> valid_sol ts s -> non_uniform_mutation E P p ts fresh s t = Ok (c, f, t') ->
    valid_sol ts c /\ copied_from c s /\ sid c = fresh /\ f = S fresh.
  Proof. exact (non_uniform_mutation_valid E P). Qed.

  Theorem c06_sbx_valid : forall pr ts fresh p1 p2 t cs f t',
    Forall wf ts -> valid_sol ts p1 -> valid_sol ts p2 ->
    sbx E P pr ts fresh [p1; p2] t = Ok (cs, f, t') -> two_children_ok ts fresh p1 p2 cs f.
  Proof. exact (sbx_valid E P). Qed.

  Theorem c06_de_valid : forall cr ts fresh ps t cs f t' p0,
    Forall wf ts -> nth_error ps 0 = Some p0 -> valid_sol ts p0 ->
    de E P cr ts fresh ps t = Ok (cs, f, t') ->
    exists c, cs = [c] /\ valid_sol ts c /\ copied_from c p0 /\ sid c = fresh.
  Proof. exact (de_valid E P). Qed.

  (* PCX / UNDX / SPX: every offspring is valid, marked NOT evaluated, with a parent's payload
     (holds for the repaired and the pre-fix orthogonalize alike: [skip]) *)
  Theorem c06_pcx_valid : forall skip ts, Forall wf ts -> forall noff fresh ps t cs f t',
    pcx_loop E P skip ts noff fresh ps t = Ok (cs, f, t') -> fresh_children E P ts ps cs.
  Proof. exact (pcx_valid E P). Qed.

  Theorem c06_undx_valid : forall skip ts, Forall wf ts -> forall noff fresh ps t cs f t',
    undx_loop E P skip ts noff fresh ps t = Ok (cs, f, t') -> fresh_children E P ts ps cs.
  Proof. exact (undx_valid E P). Qed.

  Theorem c06_spx_valid : forall ts noff fresh ps t cs f t', Forall wf ts ->
    spx E P noff ts fresh ps t = Ok (cs, f, t') -> fresh_children E P ts ps cs.
  Proof. exact (spx_valid E P). Qed.

  (* ---------------------------------------------------------------- division safety (exact Q) *)
  Theorem c06_pcx_division_safe : forall ts noff fresh ps t, (2 <= length ps)%nat ->
    div_safe (pcx E P noff ts fresh ps t).
  Proof. exact (pcx_division_safe E P). Qed.

  Theorem c06_undx_division_safe : forall ts noff fresh ps t, (2 <= length ps)%nat ->
    div_safe (undx E P noff ts fresh ps t).
  Proof. exact (undx_division_safe E P). Qed.

  (* ---------------------------------------------------------------- combinators, generic over members *)
  Theorem c06_mutation_member_ok : forall valid m k, mut_ok E P valid m -> op_ok E P valid k (map_mutate E P m).
  Proof. exact (mutation_member_ok E P). Qed.

  Theorem c06_ga_operator_ok : forall valid k variation m,
    op_ok E P valid k variation -> mut_ok E P valid m -> op_ok E P valid k (ga_operator E P variation m).
  Proof. exact (ga_operator_ok E P). Qed.

  Theorem c06_compound_mutation_ok : forall valid ms,
    Forall (mut_ok E P valid) ms -> mut_ok E P valid (compound_mutation E P ms).
  Proof. exact (compound_mutation_ok E P). Qed.

  Theorem c06_compound_operator_ok : forall valid vs,
    Forall (fun v => op_ok E P valid (m_arity v) (m_evolve v)) vs ->
    forall fresh ps t cs f t', Forall valid ps -> compound_operator E P vs fresh ps t = Ok (cs, f, t') ->
    Forall valid cs /\ flag_ok E P ps cs.
  Proof. exact (compound_operator_ok E P). Qed.

  Theorem c06_multimethod_ok : forall valid vs next,
    Forall (fun v => op_ok E P valid (m_arity v) (m_evolve v)) vs ->
    forall fresh ps t cs nx f t' v, nth_error vs next = Some v -> length ps = m_arity v -> Forall valid ps ->
    multimethod E P vs next fresh ps t = Ok (cs, nx, f, t') ->
    Forall valid cs /\ flag_ok E P ps cs /\ (nx < length vs)%nat.
  Proof. exact (multimethod_ok E P). Qed.

  (* the shipped operators are such members *)
  Theorem c06_mutation_of_member : forall step ts, step_valid E step -> Forall wf ts ->
    mut_ok E P (valid_sol ts) (mutation_of E P step ts).
  Proof. exact (mutation_of_mut_ok E P). Qed.

  Theorem c06_crossover_of_member : forall step ts, xstep_valid E step -> Forall wf ts ->
    op_ok E P (valid_sol ts) 2 (crossover_of E P step ts).
  Proof. exact (crossover_of_op_ok E P). Qed.

  Theorem c06_guarded_crossover_of_member : forall pr step ts, xstep_valid E step -> Forall wf ts ->
    op_ok E P (valid_sol ts) 2 (guarded_crossover_of E P pr step ts).
  Proof. exact (guarded_crossover_of_op_ok E P). Qed.

  (* ---------------------------------------------------------------- symmetry *)
  Theorem c06_hux_symmetric : forall pr ts fresh p1 p2 t cs f t',
    Forall wf ts -> valid_sol ts p1 -> valid_sol ts p2 ->
    hux E P pr ts fresh [p1; p2] t = Ok (cs, f, t') ->
    exists ds, hux E P pr ts fresh [p2; p1] t = Ok (ds, f, t') /\ exchanged E P cs ds.
  Proof. exact (hux_symmetric E P). Qed.

  Theorem c06_ssx_symmetric : forall pr ts fresh p1 p2 t cs f t',
    Forall wf ts -> valid_sol ts p1 -> valid_sol ts p2 ->
    ssx E P eqb pr ts fresh [p1; p2] t = Ok (cs, f, t') ->
    exists ds, ssx E P eqb pr ts fresh [p2; p1] t = Ok (ds, f, t') /\ exchanged E P cs ds.
  Proof. exact (ssx_symmetric E P eqb). Qed.

  Theorem c06_pmx_symmetric : forall pr ts fresh p1 p2 t cs f t',
    Forall wf ts -> valid_sol ts p1 -> valid_sol ts p2 ->
    pmx E P eqb pr ts fresh [p1; p2] t = Ok (cs, f, t') ->
    exists ds, pmx E P eqb pr ts fresh [p2; p1] t = Ok (ds, f, t') /\ exchanged E P cs ds.
  Proof. exact (pmx_symmetric E P eqb). Qed.

  (* exchanged offspring lists have the same multiset of offspring values *)
  Theorem c06_exchanged_multiset : forall cs ds, exchanged E P cs ds -> Permutation (map vars cs) (map vars ds).
  Proof. exact (exchanged_multiset E P). Qed.

  Theorem c06_sbx_symmetric_1var : forall pr lb ub fresh p1 p2 x1 x2 t cs f t',
    vars p1 = [VReal (FX (Fin x1))] -> vars p2 = [VReal (FX (Fin x2))] ->
    sbx E P pr [TReal lb ub] fresh [p1; p2] t = Ok (cs, f, t') ->
    exists ds, sbx E P pr [TReal lb ub] fresh [p2; p1] t = Ok (ds, f, t') /\
               Permutation (map vars cs) (map vars ds).
  Proof. exact (sbx_symmetric_1var E P). Qed.
End C06.

(* ------------------------------------------------------------------ witnesses about the code BEFORE the repairs
   (kept so that a regression of a fix is also a failing theorem-level statement) *)
Theorem c06_pcx_old_divides_by_zero :
  pcx_old Z unit 1 ex_types 3%nat [ex_sol 0 (1#4); ex_sol 1 (3#4); ex_sol 2 (1#2)] [DIdx 2] = Err EZeroDiv.
Proof. exact pcx_old_divides_by_zero. Qed.

Theorem c06_undx_old_divides_by_zero :
  undx_old Z unit 1 ex_types2 2%nat [ex_sol2 0 (1#2) (1#4); ex_sol2 1 (1#2) (1#4)]
    [ex_val 0; DGauss (FZ 1); DGauss (FZ 0); ex_val 1; DGauss (FZ 0); DGauss (FZ 1)] = Err EZeroDiv.
Proof. exact undx_old_divides_by_zero. Qed.

Theorem c06_sbx_old_asymmetric :
  map vars (match sbx_old Z unit (FZ 1) ex_types 2%nat [ex_sol 0 (4#5); ex_sol 1 (1#5)] sbx_tape with Ok (cs, _, _) => cs | _ => [] end)
    = [[VReal (FX (Fin (4#5)))]; [VReal (FX (Fin (1#5)))]]
  /\ map vars (match sbx_old Z unit (FZ 1) ex_types 2%nat [ex_sol 0 (1#5); ex_sol 1 (4#5)] sbx_tape with Ok (cs, _, _) => cs | _ => [] end)
    = [[VReal (FX (Fin (3#10)))]; [VReal (FX (Fin (6#10)))]].
Proof. exact sbx_old_asymmetric. Qed.

(* ------------------------------------------------------------------ "returns without error" for the scalar formulas
   (Model/RealFormulas.v: every division and every power base guarded; exact rationals; pw / pw2 are the
   powers t ** (eta+1), t ** perturbation, of which only [0,1] -> [0,1] is assumed).  Valid inputs:
   lb < ub, lb <= x <= ub, eta >= 0, draws 0 <= u < 1 as CPython's uniform(0.0, 1.0) produces them. *)
Open Scope Q_scope.

(* PM: dx > 0, the fraction and 1 - fraction lie in [0,1], the root's base b lies in [0,1] (no complex result) *)
Theorem c06_pm_base_nonneg : forall (pw : Q -> Q), (forall t, 0 <= t <= 1 -> 0 <= pw t <= 1) ->
  forall x lb ub u eta, lb < ub -> lb <= x <= ub -> 0 <= u < 1 -> 0 <= eta ->
  exists g, pm_guards pw x lb ub u eta = Ok g /\
    0 < pm_dx g /\ 0 <= pm_frac g <= 1 /\ 0 <= pm_arg g <= 1 /\ 0 <= pm_b g <= 1.
Proof. exact pm_guards_safe. Qed.

(* SBX, one side: beta in (0,1], alpha in [1,2], alpha*rand in [0,2), the root's base >= 0; in the second
   branch 2 - alpha*rand > 0 — this is where rand < 1 is needed *)
Theorem c06_sbx_side_safe : forall (pw : Q -> Q), (forall t, 0 <= t <= 1 -> 0 <= pw t <= 1) ->
  forall num dy rand eta, 0 <= num -> 0 < dy -> 0 <= rand < 1 -> 0 <= eta ->
  exists g, sbx_side pw num dy rand eta = Ok g /\
    0 < s_beta g <= 1 /\ 1 <= s_alpha g <= 2 /\ 0 <= s_arand g < 2 /\ 0 <= s_base g /\
    (s_base g == s_arand g /\ s_arand g <= 1 \/ (s_base g == 1 / (2 - s_arand g) /\ 1 < s_arand g /\ 0 < s_base g)).
Proof. exact sbx_side_safe. Qed.

(* SBX: for parents inside the bounds no division by zero and no negative root base, on both sides;
   recombination happens only with y2 - y1 > EPSILON *)
Theorem c06_sbx_no_division_by_zero : forall (pw : Q -> Q), (forall t, 0 <= t <= 1 -> 0 <= pw t <= 1) ->
  forall x1 x2 lb ub rand eta, lb <= x1 <= ub -> lb <= x2 <= ub -> 0 <= rand < 1 -> 0 <= eta ->
  exists o, sbx_guards pw x1 x2 lb ub rand eta = Ok o /\
    match o with
    | Some (dy, s1, s2) => EPSILON < dy /\ side_ok s1 /\ side_ok s2
    | None => True
    end.
Proof. exact sbx_guards_safe. Qed.

Theorem c06_num_delta_safe : forall (pw2 : Q -> Q) nfe swarm maxit u,
  (forall t, 0 <= t <= 1 -> 0 <= pw2 t <= 1) ->
  0 <= nfe -> 0 < swarm -> 0 < maxit -> 0 <= u < 1 ->
  exists g, num_guards pw2 nfe swarm maxit u = Ok g /\
    0 <= n_fraction g <= 1 /\ 0 <= n_base g <= 1 /\ 0 <= n_exp g <= 1.
Proof. exact num_guards_safe. Qed.

Theorem c06_spx_exponents_safe : forall us i, Forall (fun u => 0 <= u < 1) us ->
  exists l, spx_exponents i us = Ok l /\ length l = length us /\ Forall (fun e => 0 < e <= 1) l.
Proof. exact spx_exponents_safe. Qed.

(* what the guards are for *)
Theorem c06_sbx_unguarded_divides_by_zero :
  sbx_guards_unguarded pw_id (1#2) (1#2) 0 1 (1#4) 0 = Err EZeroDiv.
Proof. exact sbx_unguarded_identical_parents_divide_by_zero. Qed.

Theorem c06_sbx_rand_one_divides_by_zero : sbx_side pw_zero (1#4) (1#2) 1 15 = Err EZeroDiv.
Proof. exact sbx_rand_one_divides_by_zero. Qed.

Theorem c06_sbx_rand_above_one_leaves_the_reals : sbx_side pw_zero (1#4) (1#2) (11#10) 15 = Err EDomain.
Proof. exact sbx_rand_above_one_leaves_the_reals. Qed.
