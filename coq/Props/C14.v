(* C14 — bounded archives and populations keep size limits and consistent bookkeeping.
   Only statements; every proof is [exact lemma].

   The model (Model/GridArchive.v) is the literal AdaptiveGridArchive of platypus/core.py as
   repaired by 8a1a86e, over exact rational arithmetic (rounding in find_index's division and
   multiplication is not modelled), ParetoDominance being C02's model.  Every result of the
   model is an [option]: None = the Python code would raise.  All theorems hold for every
   capacity >= 1, divisions >= 1, number of objectives, direction vector, constrained or
   not (cfg_ok), and every offered solution whose objective vector has nobjs finite entries
   and a non-negative violation (sol_ok).

   GInv cfg a  (see c14_ginv_clauses):
     |contents| <= capacity
     /\ members pairwise non-dominated
     /\ every member inside [minimum, maximum]  (find_index answers a cell number < divisions^nobjs)
     /\ for EVERY cell c: density[c] = number of members whose find_index in the current grid is c
     /\ (shape: minimum/maximum have nobjs entries, density has divisions^nobjs entries). *)
From Coq Require Import ZArith QArith Bool List Permutation.
Import ListNotations.
From PV Require Import Base.Num Model.Dominance Model.GridArchive Proofs.GridArchiveProofs.
Open Scope Z_scope.

Theorem c14_ginv_clauses : forall cfg a, GInv cfg a <->
  (length (a_cont a) <= c_cap cfg)%nat /\
  nondom cfg (a_cont a) /\
  (forall s, In s (a_cont a) -> inside cfg a s) /\
  dens_ok cfg a /\
  gwf cfg a /\ (forall s, In s (a_cont a) -> sol_ok cfg s).
Proof. exact ginv_clauses. Qed.

(* the constructor never raises and establishes the invariant *)
Theorem c14_ginv_init : forall cfg, cfg_ok cfg ->
  exists a, ga_init cfg = Some a /\ a_cont a = [] /\ GInv cfg a.
Proof. exact ginv_init_holds. Qed.

(* add never raises and preserves the invariant *)
Theorem c14_ginv_add : forall cfg a s, cfg_ok cfg -> GInv cfg a -> sol_ok cfg s ->
  exists a' r, ga_add cfg a s = Some (a', r) /\ GInv cfg a'.
Proof. exact ginv_add_pres. Qed.

(* every bulk entry point (append, extend, +=) calls add element by element: a fold of add *)
Theorem c14_ginv_bulk : forall cfg l a, cfg_ok cfg -> GInv cfg a -> Forall (sol_ok cfg) l ->
  exists a', ga_fold true cfg a l = Some a' /\ GInv cfg a'.
Proof. exact ginv_bulk. Qed.

(* ... hence after ANY insertion history *)
Theorem c14_ginv_history : forall cfg l, cfg_ok cfg -> Forall (sol_ok cfg) l ->
  exists a, ga_run cfg l = Some a /\ GInv cfg a.
Proof. exact ginv_history. Qed.

(* the public remove keeps it as well *)
Theorem c14_ginv_remove : forall cfg a x, cfg_ok cfg -> GInv cfg a ->
  exists a' r, ga_remove cfg a x = Some (a', r) /\ GInv cfg a'.
Proof. exact remove_pres. Qed.

(* a newcomer dominated by a member (compare(newcomer, member) > 0) is rejected, state unchanged *)
Theorem c14_grid_add_dominated : forall cfg a s,
  (exists m, In m (a_cont a) /\ 0 < g_cmp cfg s m) -> ga_add cfg a s = Some (a, false).
Proof. exact add_dominated. Qed.

(* a non-dominated newcomer that fits is added (last), exactly the members it dominates leave *)
Theorem c14_grid_add_fits : forall cfg a s, cfg_ok cfg -> GInv cfg a -> sol_ok cfg s ->
  (forall m, In m (a_cont a) -> g_cmp cfg s m <= 0) ->
  (length (ga_kept cfg a s) < c_cap cfg)%nat ->
  exists a', ga_add cfg a s = Some (a', true) /\ GInv cfg a' /\
    a_cont a' = filter (fun m => negb (g_cmp cfg s m =? -1)) (a_cont a) ++ [s].
Proof. exact add_fits. Qed.

(* overflow: exactly one element x of (surviving members ++ [newcomer]) is dropped, and x lies in a
   cell of maximal occupancy of the grid a2 in which the decision is taken; a2 (the result of
   lines 1185-1201, ga_place) satisfies all clauses but the size bound, so its density table is the
   true occupancy.  The newcomer itself is the one dropped exactly when add answers False. *)
Theorem c14_grid_overflow : forall cfg a s, cfg_ok cfg -> GInv cfg a -> sol_ok cfg s ->
  (forall m, In m (a_cont a) -> g_cmp cfg s m <= 0) ->
  (c_cap cfg <= length (ga_kept cfg a s))%nat ->
  exists a2 oi a' r l1 x l2,
    ga_place true cfg a s = Some (a2, oi) /\ GMid cfg a2 /\ a_cont a2 = ga_kept cfg a s ++ [s] /\
    ga_add cfg a s = Some (a', r) /\ GInv cfg a' /\
    ga_kept cfg a s ++ [s] = l1 ++ x :: l2 /\ a_cont a' = l1 ++ l2 /\
    maximal cfg a2 x /\ (r = false -> x = s).
Proof. exact add_overflow. Qed.

(* find_index never raises on a well-shaped grid and answers -1 or a cell number *)
Theorem c14_find_index_total : forall cfg mn mx o, (1 <= c_div cfg)%nat -> bounds_wf cfg mn mx ->
  length o = c_nobjs cfg ->
  exists z, find_index cfg mn mx o = Some z /\
    (if inb o mn mx then exists c, z = Z.of_nat c /\ (c < ncells cfg)%nat else z = -1).
Proof. exact find_index_spec. Qed.

(* the pre-repair add (before 8a1a86e) violates the density clause: recorded defect, DESIGN.md §7 #2 *)
Theorem c14_ginv_old_refuted :
  exists cfg l a, cfg_ok cfg /\ Forall (sol_ok cfg) l /\
    ga_run_gen false cfg l = Some a /\ a_dens a = [0; 2; 1; 0]%nat /\
    map (fun c => cell_count cfg (a_min a) (a_max a) c (a_cont a)) (seq 0 (ncells cfg)) = [0; 1; 1; 0]%nat /\
    ~ GInv cfg a.
Proof. exact ginv_old_refuted. Qed.

(* ---------- population sizes ---------- *)
(* offspring[:n] *)
Theorem c14_slice_length : forall (A : Type) n (l : list A),
  length (py_slice_to n l) = Nat.min n (length l).
Proof. exact @slice_length. Qed.

(* truncate = reorder, then [:size] *)
Theorem c14_truncate_length : forall (A : Type) n (l l' : list A), Permutation l l' ->
  length (py_slice_to n l') = Nat.min n (length l).
Proof. exact @truncate_length. Qed.

Theorem c14_cut_exact : forall (A : Type) n (l l' : list A), Permutation l l' -> (n <= length l)%nat ->
  length (py_slice_to n l') = n.
Proof. exact @cut_exact. Qed.

(* any such cut never exceeds the configured size (leaders <= leader_size) *)
Theorem c14_cut_le : forall (A : Type) n (l l' : list A), Permutation l l' ->
  (length (py_slice_to n l') <= n)%nat.
Proof. exact @cut_le. Qed.

(* GA: never above population_size; equal unless offspring_size + 1 < population_size *)
Theorem c14_ga_population_size : forall (A : Type) pop off (offspring sorted : list A) (fittest : A),
  (off <= length offspring)%nat -> Permutation (offspring ++ [fittest]) sorted ->
  (length (py_slice_to pop sorted) <= pop)%nat /\
  ((pop <= off + 1)%nat -> length (py_slice_to pop sorted) = pop).
Proof. exact @ga_population_size. Qed.

(* the boolean check evaluated on the logged step sizes is the size clause of the property *)
Theorem c14_size_trace_sound : forall kind size aux l,
  forallb (size_ok kind size aux) l = true -> Forall (size_prop kind size aux) l.
Proof. exact size_trace_sound. Qed.
