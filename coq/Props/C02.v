(* C02 — Pareto dominance is the constraint-first strict partial order.
   Only statements; every proof is [exact lemma].  The theorems hold for every
   carrier satisfying OrdLaws (any number of objectives, any directions, any
   values incl. +-inf) and in particular for the executable carrier xq on which
   the correspondence with platypus.core.ParetoDominance.compare is run. *)
From Coq Require Import ZArith Bool List.
From PV Require Import Base.Num Base.Order Model.Dominance Proofs.DominanceProofs.
Open Scope Z_scope.

Section C02.
  Variable V : Type.
  Variable ltb : V -> V -> bool.
  Variable neg : V -> V.
  Variable zero : V.
  Hypothesis L : OrdLaws V ltb neg.
  Notation cmp := (pareto_compare V ltb neg zero).
  Notation better := (better V ltb neg).
  Notation wf := (wf V ltb zero).

  (* compare answers -1 / 1 / 0 exactly as the English definition says *)
  Theorem c02_compare_spec : forall c dirs s1 s2, wf dirs s1 -> wf dirs s2 ->
    cmp c dirs s1 s2 = if better c dirs s1 s2 then -1 else if better c dirs s2 s1 then 1 else 0.
  Proof. exact (compare_spec V ltb neg zero L). Qed.

  Theorem c02_first_better_iff : forall c dirs s1 s2, wf dirs s1 -> wf dirs s2 ->
    (cmp c dirs s1 s2 = -1 <-> better c dirs s1 s2 = true).
  Proof. exact (compare_iff_first V ltb neg zero L). Qed.

  Theorem c02_second_better_iff : forall c dirs s1 s2, wf dirs s1 -> wf dirs s2 ->
    (cmp c dirs s1 s2 = 1 <-> better c dirs s2 s1 = true).
  Proof. exact (compare_iff_second V ltb neg zero L). Qed.

  Theorem c02_neither_iff : forall c dirs s1 s2, wf dirs s1 -> wf dirs s2 ->
    (cmp c dirs s1 s2 = 0 <-> better c dirs s1 s2 = false /\ better c dirs s2 s1 = false).
  Proof. exact (compare_iff_neither V ltb neg zero L). Qed.

  (* swapping the arguments negates the answer *)
  Theorem c02_antisym : forall c dirs s1 s2, wf dirs s1 -> wf dirs s2 ->
    cmp c dirs s2 s1 = - cmp c dirs s1 s2.
  Proof. exact (compare_antisym V ltb neg zero L). Qed.

  (* no solution beats itself or an identical twin *)
  Theorem c02_irrefl : forall c dirs s, wf dirs s -> cmp c dirs s s = 0.
  Proof. exact (compare_irrefl V ltb neg zero L). Qed.

  Theorem c02_twin : forall c dirs s1 s2, wf dirs s1 -> wf dirs s2 ->
    vec_eqv V ltb (d_objs s1) (d_objs s2) = true -> veq V ltb (d_cv s1) (d_cv s2) = true ->
    cmp c dirs s1 s2 = 0.
  Proof. exact (compare_twin V ltb neg zero L). Qed.

  (* 'better' is transitive and asymmetric *)
  Theorem c02_better_trans : forall c dirs s1 s2 s3, wf dirs s1 -> wf dirs s2 -> wf dirs s3 ->
    better c dirs s1 s2 = true -> better c dirs s2 s3 = true -> better c dirs s1 s3 = true.
  Proof. exact (better_trans V ltb neg zero L). Qed.

  Theorem c02_better_asym : forall c dirs s1 s2, wf dirs s1 -> wf dirs s2 ->
    better c dirs s1 s2 = true -> better c dirs s2 s1 = false.
  Proof. exact (better_asym V ltb neg zero L). Qed.

  Theorem c02_dominates_trans : forall c dirs s1 s2 s3, wf dirs s1 -> wf dirs s2 -> wf dirs s3 ->
    cmp c dirs s1 s2 = -1 -> cmp c dirs s2 s3 = -1 -> cmp c dirs s1 s3 = -1.
  Proof. exact (dominates_trans V ltb neg zero L). Qed.
End C02.

(* the executable carrier is an instance, so all of the above apply to the
   function the correspondence check runs *)
Theorem c02_instance_xq : OrdLaws xq xltb xneg.
Proof. exact xq_laws. Qed.

Theorem c02_xq_compare_spec : forall c dirs s1 s2,
  wf xq xltb xzero dirs s1 -> wf xq xltb xzero dirs s2 ->
  x_pareto_compare c dirs s1 s2 =
    if better xq xltb xneg c dirs s1 s2 then -1
    else if better xq xltb xneg c dirs s2 s1 then 1 else 0.
Proof. exact (compare_spec xq xltb xneg xzero xq_laws). Qed.
