(* C18 — benchmark problems compute their published functions (statements only; every proof is [exact lemma]).

   <Class>_eval / <Class>_defined are GENERATED from platypus/problems.py by harness/translate/py2coq.py on every
   run (coq/Gen/Problems.v); zdt*_ref / dtlz*_ref and the g functions are the published formulas written
   independently (coq/Model/ProblemsRef.v).  All statements are over the real numbers (Coq Reals): Python floats
   are read as reals, rounding and libm are NOT modelled.  M = number of objectives, n = number of variables,
   x = the decision vector (length n); in01 x = every variable in [0,1] (the declared box of ZDT1-4,6 and DTLZ).
   The generated functions take nobjs and nvars as Python ints (Z).

   For each class:  *_gen_eq_ref  generated objectives (CF: also the constraint value) = published formula;
                    *_out_length  exactly nobjs objectives (CF: and nconstrs constraints);
                    *_defined     no Python exception is raised on the translated path (index, division, sqrt,
                                  pow domain, length agreement of objective stores);
                    lower bounds  the published front inequality of the property statement.
   PROVED HERE:  ZDT1-4,6 (all four kinds), DTLZ1-4,7 (all four kinds + identities + sampler construction), UF1-4,7 (all four kinds),
                 UF5, UF6, CF1, CF3 (gen_eq_ref, out_length), WFG4-9 full lower bound on the translated pipelines, the WFG4-9 shape
                 stage (gen_eq_ref, out_length, identity), range lemmas and exception-freedom of the scalar WFG transformations.
                 Phase 3: r_nonsep(y,|y|) range and hence WFG6/WFG9 full; UF8-10, CF2, CF4-10 gen_eq_ref (objectives AND constraints) + out_length;
                 UF5, UF6, UF8-10 *_defined; WFG4 and WFG5 as whole problems (gen_eq_ref, out_length).
   ORACLE ONLY:  UF11-13, ZDT5, the WFG1-3 classes, gen_eq_ref of the whole WFG6-9 pipelines, *_defined of CF and the list-level WFG pipelines,
                 WFG sampler statements. *)
From Coq Require Import Reals List ZArith.
Import ListNotations.
From PV Require Import Base.RList Gen.Problems Model.ProblemsRef Proofs.ProblemsProofs Proofs.ProblemsDTLZ Proofs.ProblemsUF Proofs.ProblemsUF3 Proofs.ProblemsCF Proofs.ProblemsWFG Proofs.ProblemsWFGT Proofs.ProblemsNonsep Proofs.ProblemsWFGP Proofs.ProblemsWFGE.
Open Scope R_scope.

(* ------------------------------------------------------------------ ZDT1-4, ZDT6: every n >= 2 (the constructors fix n = 30, 30, 30, 10, 10) *)
Theorem c18_zdt1_gen_eq_ref : forall (n : nat) x, (2 <= n)%nat -> length x = n -> ZDT1_eval 2 (Z.of_nat n) x = zdt1_ref x.
Proof. exact zdt1_gen_eq_ref. Qed.
Theorem c18_zdt2_gen_eq_ref : forall (n : nat) x, (2 <= n)%nat -> length x = n -> ZDT2_eval 2 (Z.of_nat n) x = zdt2_ref x.
Proof. exact zdt2_gen_eq_ref. Qed.
Theorem c18_zdt3_gen_eq_ref : forall (n : nat) x, (2 <= n)%nat -> length x = n -> ZDT3_eval 2 (Z.of_nat n) x = zdt3_ref x.
Proof. exact zdt3_gen_eq_ref. Qed.
Theorem c18_zdt4_gen_eq_ref : forall (n : nat) x, (2 <= n)%nat -> length x = n -> ZDT4_eval 2 (Z.of_nat n) x = zdt4_ref x.
Proof. exact zdt4_gen_eq_ref. Qed.
Theorem c18_zdt6_gen_eq_ref : forall (n : nat) x, (2 <= n)%nat -> length x = n -> in01 x -> ZDT6_eval 2 (Z.of_nat n) x = zdt6_ref x.
Proof. exact zdt6_gen_eq_ref. Qed.

Theorem c18_zdt1_out_length : forall (n : nat) x, length (ZDT1_eval 2 (Z.of_nat n) x) = 2%nat.
Proof. exact zdt1_out_length. Qed.
Theorem c18_zdt2_out_length : forall (n : nat) x, length (ZDT2_eval 2 (Z.of_nat n) x) = 2%nat.
Proof. exact zdt2_out_length. Qed.
Theorem c18_zdt3_out_length : forall (n : nat) x, length (ZDT3_eval 2 (Z.of_nat n) x) = 2%nat.
Proof. exact zdt3_out_length. Qed.
Theorem c18_zdt4_out_length : forall (n : nat) x, length (ZDT4_eval 2 (Z.of_nat n) x) = 2%nat.
Proof. exact zdt4_out_length. Qed.
Theorem c18_zdt6_out_length : forall (n : nat) x, length (ZDT6_eval 2 (Z.of_nat n) x) = 2%nat.
Proof. exact zdt6_out_length. Qed.

(* the objectives are [f1; g * h(f1, g)] (by *_gen_eq_ref, see zdt*_ref) with g >= 1 on the declared box *)
Theorem c18_zdt123_g_ge_1 : forall (n : nat) x, (2 <= n)%nat -> length x = n -> in01 x -> 1 <= zdt_g123 x.
Proof. exact zdt_g123_ge_1. Qed.
Theorem c18_zdt4_g_ge_1 : forall (n : nat) x, (2 <= n)%nat -> length x = n -> 1 <= zdt_g4 x.
Proof. exact zdt_g4_ge_1. Qed.
Theorem c18_zdt6_g_ge_1 : forall x, 1 <= zdt_g6 x.
Proof. exact zdt_g6_ge_1. Qed.

(* no in-bounds point evaluates below the published front (ZDT1, ZDT4: f2 >= 1 - sqrt f1; ZDT2, ZDT6: f2 >= 1 - f1^2).
   ZDT3's front is a disconnected subset of g = 1; for it the property statement asks g >= 1 only (above). *)
Theorem c18_zdt1_front : forall (n : nat) x, (2 <= n)%nat -> length x = n -> in01 x ->
  1 - sqrt (nth 0 (ZDT1_eval 2 (Z.of_nat n) x) 0) <= nth 1 (ZDT1_eval 2 (Z.of_nat n) x) 0.
Proof. exact zdt1_front. Qed.
Theorem c18_zdt2_front : forall (n : nat) x, (2 <= n)%nat -> length x = n -> in01 x ->
  1 - nth 0 (ZDT2_eval 2 (Z.of_nat n) x) 0 ^ 2 <= nth 1 (ZDT2_eval 2 (Z.of_nat n) x) 0.
Proof. exact zdt2_front. Qed.
Theorem c18_zdt4_front : forall (n : nat) x, (2 <= n)%nat -> length x = n -> in01 x ->
  1 - sqrt (nth 0 (ZDT4_eval 2 (Z.of_nat n) x) 0) <= nth 1 (ZDT4_eval 2 (Z.of_nat n) x) 0.
Proof. exact zdt4_front. Qed.
Theorem c18_zdt6_front : forall (n : nat) x, (2 <= n)%nat -> length x = n -> in01 x ->
  1 - nth 0 (ZDT6_eval 2 (Z.of_nat n) x) 0 ^ 2 <= nth 1 (ZDT6_eval 2 (Z.of_nat n) x) 0.
Proof. exact zdt6_front. Qed.

Theorem c18_zdt1_defined : forall (n : nat) x, (2 <= n)%nat -> length x = n -> in01 x -> ZDT1_defined 2 (Z.of_nat n) x.
Proof. exact zdt1_defined. Qed.
Theorem c18_zdt2_defined : forall (n : nat) x, (2 <= n)%nat -> length x = n -> in01 x -> ZDT2_defined 2 (Z.of_nat n) x.
Proof. exact zdt2_defined. Qed.
Theorem c18_zdt3_defined : forall (n : nat) x, (2 <= n)%nat -> length x = n -> in01 x -> ZDT3_defined 2 (Z.of_nat n) x.
Proof. exact zdt3_defined. Qed.
Theorem c18_zdt4_defined : forall (n : nat) x, (2 <= n)%nat -> length x = n -> in01 x -> ZDT4_defined 2 (Z.of_nat n) x.
Proof. exact zdt4_defined. Qed.
Theorem c18_zdt6_defined : forall (n : nat) x, (2 <= n)%nat -> length x = n -> in01 x -> ZDT6_defined 2 (Z.of_nat n) x.
Proof. exact zdt6_defined. Qed.

(* ------------------------------------------------------------------ DTLZ1-4: every M >= 1 and every n >= M - 1
   (constructors: DTLZ1 n = M+4, DTLZ2/3 n = M+9 or given, DTLZ4 n = M+9); no box hypothesis is needed *)
Theorem c18_dtlz1_gen_eq_ref : forall (M n : nat) x, (1 <= M)%nat -> (M - 1 <= n)%nat -> length x = n ->
  DTLZ1_eval (Z.of_nat M) (Z.of_nat n) x = dtlz1_ref M x.
Proof. exact dtlz1_gen_eq_ref. Qed.
Theorem c18_dtlz2_gen_eq_ref : forall (M n : nat) x, (1 <= M)%nat -> (M - 1 <= n)%nat -> length x = n ->
  DTLZ2_eval (Z.of_nat M) (Z.of_nat n) x = dtlz2_ref M x.
Proof. exact dtlz2_gen_eq_ref. Qed.
Theorem c18_dtlz3_gen_eq_ref : forall (M n : nat) x, (1 <= M)%nat -> (M - 1 <= n)%nat -> length x = n ->
  DTLZ3_eval (Z.of_nat M) (Z.of_nat n) x = dtlz3_ref M x.
Proof. exact dtlz3_gen_eq_ref. Qed.
(* DTLZ4: the constructor parameter alpha is a parameter of the generated function; math.pow(x, alpha) is read as the real power
   py_rpow (exp(alpha ln x) for x > 0, 0^alpha = 0), so the theorems hold for EVERY real alpha (exception-freedom: alpha >= 0) *)
Theorem c18_dtlz4_gen_eq_ref : forall (M n : nat) x, (1 <= M)%nat -> (M - 1 <= n)%nat -> length x = n -> forall alpha,
  DTLZ4_eval (Z.of_nat M) (Z.of_nat n) alpha x = dtlz4_ref M alpha x.
Proof. exact dtlz4_gen_eq_ref. Qed.

Theorem c18_dtlz1_out_length : forall (M n : nat) x, (1 <= M)%nat -> (M - 1 <= n)%nat -> length x = n ->
  length (DTLZ1_eval (Z.of_nat M) (Z.of_nat n) x) = M.
Proof. exact dtlz1_out_length. Qed.
Theorem c18_dtlz2_out_length : forall (M n : nat) x, (1 <= M)%nat -> (M - 1 <= n)%nat -> length x = n ->
  length (DTLZ2_eval (Z.of_nat M) (Z.of_nat n) x) = M.
Proof. exact dtlz2_out_length. Qed.
Theorem c18_dtlz3_out_length : forall (M n : nat) x, (1 <= M)%nat -> (M - 1 <= n)%nat -> length x = n ->
  length (DTLZ3_eval (Z.of_nat M) (Z.of_nat n) x) = M.
Proof. exact dtlz3_out_length. Qed.
Theorem c18_dtlz4_out_length : forall (M n : nat) x, (1 <= M)%nat -> (M - 1 <= n)%nat -> length x = n -> forall alpha,
  length (DTLZ4_eval (Z.of_nat M) (Z.of_nat n) alpha x) = M.
Proof. exact dtlz4_out_length. Qed.

(* DTLZ1: sum f = (1 + g)/2 (telescoping product) and g >= 0, hence sum f >= 1/2 *)
Theorem c18_dtlz1_sum_identity : forall (M n : nat) x, (1 <= M)%nat -> (M - 1 <= n)%nat -> length x = n ->
  sum_of (DTLZ1_eval (Z.of_nat M) (Z.of_nat n) x) = (1 + dtlz_g13 x M) / 2.
Proof. exact dtlz1_sum_identity. Qed.
Theorem c18_dtlz1_lower : forall (M n : nat) x, (1 <= M)%nat -> (M - 1 <= n)%nat -> length x = n ->
  1 / 2 <= sum_of (DTLZ1_eval (Z.of_nat M) (Z.of_nat n) x).
Proof. exact dtlz1_lower. Qed.

(* DTLZ2-4: sum f^2 = (1 + g)^2 (sin^2 + cos^2 telescope) and g >= 0, hence sum f^2 >= 1 *)
Theorem c18_dtlz2_sumsq_identity : forall (M n : nat) x, (1 <= M)%nat -> (M - 1 <= n)%nat -> length x = n ->
  sumsq_of (DTLZ2_eval (Z.of_nat M) (Z.of_nat n) x) = (1 + dtlz_g24 x M) ^ 2.
Proof. exact dtlz2_sumsq_identity. Qed.
Theorem c18_dtlz3_sumsq_identity : forall (M n : nat) x, (1 <= M)%nat -> (M - 1 <= n)%nat -> length x = n ->
  sumsq_of (DTLZ3_eval (Z.of_nat M) (Z.of_nat n) x) = (1 + dtlz_g13 x M) ^ 2.
Proof. exact dtlz3_sumsq_identity. Qed.
Theorem c18_dtlz4_sumsq_identity : forall (M n : nat) x, (1 <= M)%nat -> (M - 1 <= n)%nat -> length x = n -> forall alpha,
  sumsq_of (DTLZ4_eval (Z.of_nat M) (Z.of_nat n) alpha x) = (1 + dtlz_g24 x M) ^ 2.
Proof. exact dtlz4_sumsq_identity. Qed.
Theorem c18_dtlz2_lower : forall (M n : nat) x, (1 <= M)%nat -> (M - 1 <= n)%nat -> length x = n ->
  1 <= sumsq_of (DTLZ2_eval (Z.of_nat M) (Z.of_nat n) x).
Proof. exact dtlz2_lower. Qed.
Theorem c18_dtlz3_lower : forall (M n : nat) x, (1 <= M)%nat -> (M - 1 <= n)%nat -> length x = n ->
  1 <= sumsq_of (DTLZ3_eval (Z.of_nat M) (Z.of_nat n) x).
Proof. exact dtlz3_lower. Qed.
Theorem c18_dtlz4_lower : forall (M n : nat) x, (1 <= M)%nat -> (M - 1 <= n)%nat -> length x = n -> forall alpha,
  1 <= sumsq_of (DTLZ4_eval (Z.of_nat M) (Z.of_nat n) alpha x).
Proof. exact dtlz4_lower. Qed.

(* the samplers' construction (distance variables = 1/2) gives g = 0: the front equation holds with equality *)
Theorem c18_dtlz1_sampler_on_front : forall (M n : nat) x, (1 <= M)%nat -> (M - 1 <= n)%nat -> length x = n -> tail_at_half M x ->
  sum_of (DTLZ1_eval (Z.of_nat M) (Z.of_nat n) x) = 1 / 2.
Proof. exact dtlz1_sampler_on_front. Qed.
Theorem c18_dtlz2_sampler_on_front : forall (M n : nat) x, (1 <= M)%nat -> (M - 1 <= n)%nat -> length x = n -> tail_at_half M x ->
  sumsq_of (DTLZ2_eval (Z.of_nat M) (Z.of_nat n) x) = 1.
Proof. exact dtlz2_sampler_on_front. Qed.
Theorem c18_dtlz3_sampler_on_front : forall (M n : nat) x, (1 <= M)%nat -> (M - 1 <= n)%nat -> length x = n -> tail_at_half M x ->
  sumsq_of (DTLZ3_eval (Z.of_nat M) (Z.of_nat n) x) = 1.
Proof. exact dtlz3_sampler_on_front. Qed.
Theorem c18_dtlz4_sampler_on_front : forall (M n : nat) x, (1 <= M)%nat -> (M - 1 <= n)%nat -> length x = n -> forall alpha, tail_at_half M x ->
  sumsq_of (DTLZ4_eval (Z.of_nat M) (Z.of_nat n) alpha x) = 1.
Proof. exact dtlz4_sampler_on_front. Qed.

Theorem c18_dtlz1_defined : forall (M n : nat) x, (1 <= M)%nat -> (M - 1 <= n)%nat -> length x = n -> DTLZ1_defined (Z.of_nat M) (Z.of_nat n) x.
Proof. exact dtlz1_defined. Qed.
Theorem c18_dtlz2_defined : forall (M n : nat) x, (1 <= M)%nat -> (M - 1 <= n)%nat -> length x = n -> DTLZ2_defined (Z.of_nat M) (Z.of_nat n) x.
Proof. exact dtlz2_defined. Qed.
Theorem c18_dtlz3_defined : forall (M n : nat) x, (1 <= M)%nat -> (M - 1 <= n)%nat -> length x = n -> DTLZ3_defined (Z.of_nat M) (Z.of_nat n) x.
Proof. exact dtlz3_defined. Qed.
Theorem c18_dtlz4_defined : forall (M n : nat) x, (1 <= M)%nat -> (M - 1 <= n)%nat -> length x = n -> forall alpha, 0 <= alpha -> in01 x ->
  DTLZ4_defined (Z.of_nat M) (Z.of_nat n) alpha x.
Proof. exact dtlz4_defined. Qed.

(* ------------------------------------------------------------------ DTLZ7: every M >= 1 and n >= M (constructor: n = M + 19) *)
Theorem c18_dtlz7_gen_eq_ref : forall (M n : nat) x, (1 <= M)%nat -> (M <= n)%nat -> length x = n ->
  DTLZ7_eval (Z.of_nat M) (Z.of_nat n) x = dtlz7_ref M x.
Proof. exact dtlz7_gen_eq_ref. Qed.
Theorem c18_dtlz7_out_length : forall (M n : nat) x, (1 <= M)%nat -> (M <= n)%nat -> length x = n ->
  length (DTLZ7_eval (Z.of_nat M) (Z.of_nat n) x) = M.
Proof. exact dtlz7_out_length. Qed.
Theorem c18_dtlz7_defined : forall (M n : nat) x, (1 <= M)%nat -> (M <= n)%nat -> length x = n -> in01 x ->
  DTLZ7_defined (Z.of_nat M) (Z.of_nat n) x.
Proof. exact dtlz7_defined. Qed.

(* ------------------------------------------------------------------ UF1-4, UF7 (CEC 2009): every n >= 3 (constructor default n = 30).
   The generated evaluate is a fold over j = 2..n with accumulators (sum1, count1, sum2, count2[, prod1, prod2]). *)
Theorem c18_uf1_gen_eq_ref : forall (n : nat) x, (3 <= n)%nat -> length x = n -> UF1_eval 2 (Z.of_nat n) x = uf1_ref x.
Proof. exact uf1_gen_eq_ref. Qed.
Theorem c18_uf2_gen_eq_ref : forall (n : nat) x, (3 <= n)%nat -> length x = n -> UF2_eval 2 (Z.of_nat n) x = uf2_ref x.
Proof. exact uf2_gen_eq_ref. Qed.
Theorem c18_uf3_gen_eq_ref : forall (n : nat) x, (3 <= n)%nat -> length x = n -> UF3_eval 2 (Z.of_nat n) x = uf3_ref x.
Proof. exact uf3_gen_eq_ref. Qed.
Theorem c18_uf4_gen_eq_ref : forall (n : nat) x, (3 <= n)%nat -> length x = n -> UF4_eval 2 (Z.of_nat n) x = uf4_ref x.
Proof. exact uf4_gen_eq_ref. Qed.
Theorem c18_uf7_gen_eq_ref : forall (n : nat) x, (3 <= n)%nat -> length x = n -> UF7_eval 2 (Z.of_nat n) x = uf7_ref x.
Proof. exact uf7_gen_eq_ref. Qed.

Theorem c18_uf1_out_length : forall (n : nat) x, (3 <= n)%nat -> length x = n -> length (UF1_eval 2 (Z.of_nat n) x) = 2%nat.
Proof. exact uf1_out_length. Qed.
Theorem c18_uf2_out_length : forall (n : nat) x, (3 <= n)%nat -> length x = n -> length (UF2_eval 2 (Z.of_nat n) x) = 2%nat.
Proof. exact uf2_out_length. Qed.
Theorem c18_uf3_out_length : forall (n : nat) x, (3 <= n)%nat -> length x = n -> length (UF3_eval 2 (Z.of_nat n) x) = 2%nat.
Proof. exact uf3_out_length. Qed.
Theorem c18_uf4_out_length : forall (n : nat) x, (3 <= n)%nat -> length x = n -> length (UF4_eval 2 (Z.of_nat n) x) = 2%nat.
Proof. exact uf4_out_length. Qed.
Theorem c18_uf7_out_length : forall (n : nat) x, (3 <= n)%nat -> length x = n -> length (UF7_eval 2 (Z.of_nat n) x) = 2%nat.
Proof. exact uf7_out_length. Qed.

(* f2 >= front(f1): UF1-3 front f2 = 1 - sqrt f1; UF4 front f2 = 1 - f1^2 (needs x_1 >= 0, which the box gives); UF7 front f2 = 1 - f1 *)
Theorem c18_uf1_front : forall (n : nat) x, (3 <= n)%nat -> length x = n ->
  1 - sqrt (nth 0 (UF1_eval 2 (Z.of_nat n) x) 0) <= nth 1 (UF1_eval 2 (Z.of_nat n) x) 0.
Proof. exact uf1_front. Qed.
Theorem c18_uf2_front : forall (n : nat) x, (3 <= n)%nat -> length x = n ->
  1 - sqrt (nth 0 (UF2_eval 2 (Z.of_nat n) x) 0) <= nth 1 (UF2_eval 2 (Z.of_nat n) x) 0.
Proof. exact uf2_front. Qed.
Theorem c18_uf3_front : forall (n : nat) x, (3 <= n)%nat -> length x = n ->
  1 - sqrt (nth 0 (UF3_eval 2 (Z.of_nat n) x) 0) <= nth 1 (UF3_eval 2 (Z.of_nat n) x) 0.
Proof. exact uf3_front. Qed.
Theorem c18_uf4_front : forall (n : nat) x, (3 <= n)%nat -> length x = n -> 0 <= X x 0 ->
  1 - nth 0 (UF4_eval 2 (Z.of_nat n) x) 0 ^ 2 <= nth 1 (UF4_eval 2 (Z.of_nat n) x) 0.
Proof. exact uf4_front. Qed.
Theorem c18_uf7_front : forall (n : nat) x, (3 <= n)%nat -> length x = n ->
  1 - nth 0 (UF7_eval 2 (Z.of_nat n) x) 0 <= nth 1 (UF7_eval 2 (Z.of_nat n) x) 0.
Proof. exact uf7_front. Qed.

(* ------------------------------------------------------------------ WFG4-9 shape stage (_WFG4_shape, _concave, _calculate_x, _create_A,
   _WFG_calculate_f, _calculate_f, _correct_to_01), every M >= 1, GIVEN the transformed vector t in [0,1]^M.
   FULL STATEMENT NOT PROVED (kept visible):
     forall M z, z in-bounds (0 <= z_i <= 2i) -> 1 <= wfg_scaled_sumsq (WFGk_eval M z)   for k = 4..9
   missing: the WFG evaluate methods/transformations (map + functools.partial) are outside the translated subset, and the
   range lemmas "every transformation maps [0,1] into [0,1]" are not proved; the oracle checks the inequality on the real code. *)
Theorem c18_wfg4_shape_gen_eq_ref : forall t, (1 <= length t)%nat -> in01 t -> fn_WFG4_shape_eval t = wfg4_shape_ref t.
Proof. exact wfg4_shape_gen_eq_ref. Qed.
Theorem c18_wfg4_shape_out_length : forall t, (1 <= length t)%nat -> in01 t -> length (fn_WFG4_shape_eval t) = length t.
Proof. exact wfg4_shape_out_length. Qed.
Theorem c18_wfg_concave_sumsq : forall t, (1 <= length t)%nat -> big_sum (fun m0 => wfg_concave (length t) t m0 ^ 2) (length t) = 1.
Proof. exact concave_sumsq. Qed.
Theorem c18_wfg_lower_partial : forall t, (1 <= length t)%nat -> in01 t -> 1 <= wfg_scaled_sumsq (fn_WFG4_shape_eval t).
Proof. exact wfg_lower_partial. Qed.

(* ------------------------------------------------------------------ WFG4-9: the property clause sum_m (f_m/2m)^2 >= 1 on the TRANSLATED evaluate pipelines
   (normalize_z, the _WFGn_t* transformations incl. map/functools.partial, _subvector, _r_sum, _r_nonsep, then the shape stage).
   wfg_box z: 0 <= z_i <= 2i.  self.k = nobjs - 1 and self.m = nobjs are resolved from the constructors.
   The range lemmas (each transformation maps [0,1] into [0,1]) are proved for s_linear, s_multi, s_decept, b_param, r_sum,
   and r_nonsep with A = 1; _correct_to_01 is modelled literally (EPSILON = 2^-52).
   WFG4, 5, 7, 8: FULL, for every nobjs, nvars : Z and every in-bounds z (no length hypothesis is needed: out-of-range reads are the
   side conditions of *_defined, not of this inequality). *)
Theorem c18_wfg4_lower : forall nobjs nvars z, wfg_box z -> 1 <= wfg_scaled_sumsq (WFG4_eval nobjs nvars z).
Proof. exact wfg4_lower. Qed.
Theorem c18_wfg5_lower : forall nobjs nvars z, wfg_box z -> 1 <= wfg_scaled_sumsq (WFG5_eval nobjs nvars z).
Proof. exact wfg5_lower. Qed.
Theorem c18_wfg7_lower : forall nobjs nvars z, wfg_box z -> 1 <= wfg_scaled_sumsq (WFG7_eval nobjs nvars z).
Proof. exact wfg7_lower. Qed.
Theorem c18_wfg8_lower : forall nobjs nvars z, wfg_box z -> 1 <= wfg_scaled_sumsq (WFG8_eval nobjs nvars z).
Proof. exact wfg8_lower. Qed.
(* WFG6, WFG9: FULL for every M >= 2 and M - 1 <= |z| (the hypotheses make the last group y[k:] well-formed so that A = l = |y[k:]|; in Platypus
   k = M - 1 so the other groups use r_nonsep with A = 1).  r_nonsep(y, |y|) in [0,1] is the inequality
   sum_j y_j + sum_{i<>j} |y_i - y_j| <= ceil(n/2) (1 + 2n - 2 ceil(n/2)) on [0,1]^n, proved in Proofs/ProblemsNonsep.v
   (cyclic reindexing, |a-b| <= a+b-2ab, fractional-part bound sum y(1-y) >= frac(S)(1-frac(S)), integer maximisation). *)
Theorem c18_r_nonsep_full_range : forall y, in01 y -> 0 <= fn_r_nonsep_eval y (zlen y) <= 1.
Proof. exact r_nonsep_full_range_proved. Qed.
Theorem c18_wfg6_lower : forall M nvars z, (2 <= M)%Z -> (M - 1 <= zlen z)%Z -> wfg_box z -> 1 <= wfg_scaled_sumsq (WFG6_eval M nvars z).
Proof. exact wfg6_lower. Qed.
Theorem c18_wfg9_lower : forall M nvars z, (2 <= M)%Z -> (M - 1 <= zlen z)%Z -> wfg_box z -> 1 <= wfg_scaled_sumsq (WFG9_eval M nvars z).
Proof. exact wfg9_lower. Qed.
(* the range lemmas themselves *)
Theorem c18_s_linear_range : forall y, 0 <= y <= 1 -> 0 <= fn_s_linear_eval y (7 / 20) <= 1.
Proof. exact s_linear_range. Qed.
Theorem c18_s_multi_range : forall y A B, 0 <= y <= 1 -> 0 <= B -> 0 <= fn_s_multi_eval y A B (7 / 20) <= 1.
Proof. exact s_multi_range. Qed.
Theorem c18_s_decept_range : forall y, 0 <= y <= 1 -> 0 <= fn_s_decept_eval y (7 / 20) (1 / 1000) (1 / 20) <= 1.
Proof. exact s_decept_range. Qed.
Theorem c18_b_param_range : forall y u, 0 <= y <= 1 -> 0 <= u <= 1 -> 0 <= fn_b_param_eval y u (49 / 50 / (2499 / 50)) (1 / 50) 50 <= 1.
Proof. exact b_param_range. Qed.
Theorem c18_r_sum_range : forall y w, in01 y -> (forall i, 0 <= py_nth w i) -> 0 <= fn_r_sum_eval y w <= 1.
Proof. exact r_sum_range. Qed.
Theorem c18_r_nonsep_1_range : forall y, in01 y -> 0 <= fn_r_nonsep_eval y 1 <= 1.
Proof. exact r_nonsep_1_range. Qed.

(* UF1-4, UF7 raise no Python exception on in-bounds input (only 0 <= x_1 is needed; n >= 3 keeps both index sets non-empty) *)
Theorem c18_uf1_defined : forall (n : nat) x, (3 <= n)%nat -> length x = n -> 0 <= X x 0 -> UF1_defined 2 (Z.of_nat n) x.
Proof. exact uf1_defined. Qed.
Theorem c18_uf2_defined : forall (n : nat) x, (3 <= n)%nat -> length x = n -> 0 <= X x 0 -> UF2_defined 2 (Z.of_nat n) x.
Proof. exact uf2_defined. Qed.
Theorem c18_uf3_defined : forall (n : nat) x, (3 <= n)%nat -> length x = n -> 0 <= X x 0 -> UF3_defined 2 (Z.of_nat n) x.
Proof. exact uf3_defined. Qed.
Theorem c18_uf4_defined : forall (n : nat) x, (3 <= n)%nat -> length x = n -> UF4_defined 2 (Z.of_nat n) x.
Proof. exact uf4_defined. Qed.
Theorem c18_uf7_defined : forall (n : nat) x, (3 <= n)%nat -> length x = n -> 0 <= X x 0 -> UF7_defined 2 (Z.of_nat n) x.
Proof. exact uf7_defined. Qed.

(* ------------------------------------------------------------------ UF5, UF6 and the constrained CF1, CF3 (CEC 2009), every n >= 3:
   generated objectives (and, for CF, the generated constraint value) = published formulas; exactly 2 objectives / 1 constraint *)
Theorem c18_uf5_gen_eq_ref : forall (n : nat) x, (3 <= n)%nat -> length x = n -> UF5_eval 2 (Z.of_nat n) x = uf5_ref x.
Proof. exact uf5_gen_eq_ref. Qed.
Theorem c18_uf6_gen_eq_ref : forall (n : nat) x, (3 <= n)%nat -> length x = n -> UF6_eval 2 (Z.of_nat n) x = uf6_ref x.
Proof. exact uf6_gen_eq_ref. Qed.
Theorem c18_uf5_out_length : forall (n : nat) x, (3 <= n)%nat -> length x = n -> length (UF5_eval 2 (Z.of_nat n) x) = 2%nat.
Proof. exact uf5_out_length. Qed.
Theorem c18_uf6_out_length : forall (n : nat) x, (3 <= n)%nat -> length x = n -> length (UF6_eval 2 (Z.of_nat n) x) = 2%nat.
Proof. exact uf6_out_length. Qed.
Theorem c18_cf1_gen_eq_ref : forall (n : nat) x, (3 <= n)%nat -> length x = n -> CF1_eval 2 (Z.of_nat n) x = cf1_objs x.
Proof. exact cf1_gen_eq_ref. Qed.
Theorem c18_cf1_constr_gen_eq_ref : forall (n : nat) x, (3 <= n)%nat -> length x = n -> CF1_constr_eval 2 (Z.of_nat n) x = cf1_constr x.
Proof. exact cf1_constr_gen_eq_ref. Qed.
Theorem c18_cf3_gen_eq_ref : forall (n : nat) x, (3 <= n)%nat -> length x = n -> CF3_eval 2 (Z.of_nat n) x = cf3_objs x.
Proof. exact cf3_gen_eq_ref. Qed.
Theorem c18_cf3_constr_gen_eq_ref : forall (n : nat) x, (3 <= n)%nat -> length x = n -> CF3_constr_eval 2 (Z.of_nat n) x = cf3_constr x.
Proof. exact cf3_constr_gen_eq_ref. Qed.
Theorem c18_cf1_out_length : forall (n : nat) x, (3 <= n)%nat -> length x = n ->
  length (CF1_eval 2 (Z.of_nat n) x) = 2%nat /\ length (CF1_constr_eval 2 (Z.of_nat n) x) = 1%nat.
Proof. exact cf1_out_length. Qed.
Theorem c18_cf3_out_length : forall (n : nat) x, (3 <= n)%nat -> length x = n ->
  length (CF3_eval 2 (Z.of_nat n) x) = 2%nat /\ length (CF3_constr_eval 2 (Z.of_nat n) x) = 1%nat.
Proof. exact cf3_out_length. Qed.

(* the scalar WFG transformation functions with the constants used by WFG1-9 raise no Python exception on [0,1]
   (no division by zero, pow inside its domain).  The list-level *_defined predicates of the pipelines (index ranges of
   _subvector/_r_sum, non-empty groups) are generated but NOT proved: the oracle covers exception-freedom of the WFG classes. *)
Theorem c18_wfg_scalar_defined : forall y u, 0 <= y <= 1 -> 0 <= u <= 1 ->
  fn_s_linear_defined y (7 / 20) /\ (forall A B, 0 <= B -> fn_s_multi_defined y A B (7 / 20)) /\
  fn_s_decept_defined y (7 / 20) (1 / 1000) (1 / 20) /\ fn_b_param_defined y u (49 / 50 / (2499 / 50)) (1 / 50) 50.
Proof. exact wfg_scalar_defined. Qed.

(* ------------------------------------------------------------------ UF8-10 and CF8-10 (three objectives; loop over j = 3..n split on j mod 3), every n >= 5:
   ALL THREE generated objectives = published formulas (the repaired defect e2b490f dropped f3 in CF8-10), the generated constraint
   value = published expression, exactly 3 objectives / 1 constraint *)
Theorem c18_uf8_gen_eq_ref : forall (n : nat) x, (5 <= n)%nat -> length x = n -> UF8_eval 3 (Z.of_nat n) x = uf8_ref x.
Proof. exact uf8_gen_eq_ref. Qed.
Theorem c18_uf9_gen_eq_ref : forall (n : nat) x, (5 <= n)%nat -> length x = n -> UF9_eval 3 (Z.of_nat n) x = uf9_ref x.
Proof. exact uf9_gen_eq_ref. Qed.
Theorem c18_uf10_gen_eq_ref : forall (n : nat) x, (5 <= n)%nat -> length x = n -> UF10_eval 3 (Z.of_nat n) x = uf10_ref x.
Proof. exact uf10_gen_eq_ref. Qed.
Theorem c18_cf8_gen_eq_ref : forall (n : nat) x, (5 <= n)%nat -> length x = n -> CF8_eval 3 (Z.of_nat n) x = uf8_ref x.
Proof. exact cf8_gen_eq_ref. Qed.
Theorem c18_cf9_gen_eq_ref : forall (n : nat) x, (5 <= n)%nat -> length x = n -> CF9_eval 3 (Z.of_nat n) x = uf8_ref x.
Proof. exact cf9_gen_eq_ref. Qed.
Theorem c18_cf10_gen_eq_ref : forall (n : nat) x, (5 <= n)%nat -> length x = n -> CF10_eval 3 (Z.of_nat n) x = uf10_ref x.
Proof. exact cf10_gen_eq_ref. Qed.
Theorem c18_cf8_constr_gen_eq_ref : forall (n : nat) x, (5 <= n)%nat -> length x = n -> CF8_constr_eval 3 (Z.of_nat n) x = cf8_constr x.
Proof. exact cf8_constr_gen_eq_ref. Qed.
Theorem c18_cf9_constr_gen_eq_ref : forall (n : nat) x, (5 <= n)%nat -> length x = n -> CF9_constr_eval 3 (Z.of_nat n) x = cf9_constr x.
Proof. exact cf9_constr_gen_eq_ref. Qed.
Theorem c18_cf10_constr_gen_eq_ref : forall (n : nat) x, (5 <= n)%nat -> length x = n -> CF10_constr_eval 3 (Z.of_nat n) x = cf10_constr x.
Proof. exact cf10_constr_gen_eq_ref. Qed.
Theorem c18_uf8_out_length : forall (n : nat) x, (5 <= n)%nat -> length x = n -> length (UF8_eval 3 (Z.of_nat n) x) = 3%nat.
Proof. exact uf8_out_length. Qed.
Theorem c18_uf9_out_length : forall (n : nat) x, (5 <= n)%nat -> length x = n -> length (UF9_eval 3 (Z.of_nat n) x) = 3%nat.
Proof. exact uf9_out_length. Qed.
Theorem c18_uf10_out_length : forall (n : nat) x, (5 <= n)%nat -> length x = n -> length (UF10_eval 3 (Z.of_nat n) x) = 3%nat.
Proof. exact uf10_out_length. Qed.
Theorem c18_cf8_out_length : forall (n : nat) x, (5 <= n)%nat -> length x = n ->
  length (CF8_eval 3 (Z.of_nat n) x) = 3%nat /\ length (CF8_constr_eval 3 (Z.of_nat n) x) = 1%nat.
Proof. exact cf8_out_length. Qed.
Theorem c18_cf9_out_length : forall (n : nat) x, (5 <= n)%nat -> length x = n ->
  length (CF9_eval 3 (Z.of_nat n) x) = 3%nat /\ length (CF9_constr_eval 3 (Z.of_nat n) x) = 1%nat.
Proof. exact cf9_out_length. Qed.
Theorem c18_cf10_out_length : forall (n : nat) x, (5 <= n)%nat -> length x = n ->
  length (CF10_eval 3 (Z.of_nat n) x) = 3%nat /\ length (CF10_constr_eval 3 (Z.of_nat n) x) = 1%nat.
Proof. exact cf10_out_length. Qed.

(* ------------------------------------------------------------------ CF2, CF4-CF7 (two objectives; CF6, CF7 two constraints), every n >= 4:
   generated objectives and constraint values = published formulas (incl. the piecewise h_2 and the sign(u) sqrt|u| terms), declared counts *)
Theorem c18_cf2_gen_eq_ref : forall (n : nat) x, (4 <= n)%nat -> length x = n -> CF2_eval 2 (Z.of_nat n) x = cf2_objs x.
Proof. exact cf2_gen_eq_ref. Qed.
Theorem c18_cf2_constr_gen_eq_ref : forall (n : nat) x, (4 <= n)%nat -> length x = n -> CF2_constr_eval 2 (Z.of_nat n) x = cf2_constr x.
Proof. exact cf2_constr_gen_eq_ref. Qed.
Theorem c18_cf2_out_length : forall (n : nat) x, (4 <= n)%nat -> length x = n ->
  length (CF2_eval 2 (Z.of_nat n) x) = 2%nat /\ length (CF2_constr_eval 2 (Z.of_nat n) x) = 1%nat.
Proof. exact cf2_out_length. Qed.
Theorem c18_cf4_gen_eq_ref : forall (n : nat) x, (4 <= n)%nat -> length x = n -> CF4_eval 2 (Z.of_nat n) x = cf4_objs x.
Proof. exact cf4_gen_eq_ref. Qed.
Theorem c18_cf4_constr_gen_eq_ref : forall (n : nat) x, (4 <= n)%nat -> length x = n -> CF4_constr_eval 2 (Z.of_nat n) x = cf4_constr x.
Proof. exact (fun n x _ => cf4_constr_gen_eq_ref n x). Qed.
Theorem c18_cf4_out_length : forall (n : nat) x, (4 <= n)%nat -> length x = n ->
  length (CF4_eval 2 (Z.of_nat n) x) = 2%nat /\ length (CF4_constr_eval 2 (Z.of_nat n) x) = 1%nat.
Proof. exact cf4_out_length. Qed.
Theorem c18_cf5_gen_eq_ref : forall (n : nat) x, (4 <= n)%nat -> length x = n -> CF5_eval 2 (Z.of_nat n) x = cf5_objs x.
Proof. exact cf5_gen_eq_ref. Qed.
Theorem c18_cf5_constr_gen_eq_ref : forall (n : nat) x, (4 <= n)%nat -> length x = n -> CF5_constr_eval 2 (Z.of_nat n) x = cf5_constr x.
Proof. exact (fun n x _ => cf5_constr_gen_eq_ref n x). Qed.
Theorem c18_cf5_out_length : forall (n : nat) x, (4 <= n)%nat -> length x = n ->
  length (CF5_eval 2 (Z.of_nat n) x) = 2%nat /\ length (CF5_constr_eval 2 (Z.of_nat n) x) = 1%nat.
Proof. exact cf5_out_length. Qed.
Theorem c18_cf6_gen_eq_ref : forall (n : nat) x, (4 <= n)%nat -> length x = n -> CF6_eval 2 (Z.of_nat n) x = cf6_objs x.
Proof. exact cf6_gen_eq_ref. Qed.
Theorem c18_cf6_constr_gen_eq_ref : forall (n : nat) x, (4 <= n)%nat -> length x = n -> CF6_constr_eval 2 (Z.of_nat n) x = cf67_constr (4 / 5 * X x 0) x.
Proof. exact (fun n x _ => cf6_constr_gen_eq_ref n x). Qed.
Theorem c18_cf6_out_length : forall (n : nat) x, (4 <= n)%nat -> length x = n ->
  length (CF6_eval 2 (Z.of_nat n) x) = 2%nat /\ length (CF6_constr_eval 2 (Z.of_nat n) x) = 2%nat.
Proof. exact cf6_out_length. Qed.
Theorem c18_cf7_gen_eq_ref : forall (n : nat) x, (4 <= n)%nat -> length x = n -> CF7_eval 2 (Z.of_nat n) x = cf7_objs x.
Proof. exact cf7_gen_eq_ref. Qed.
Theorem c18_cf7_constr_gen_eq_ref : forall (n : nat) x, (4 <= n)%nat -> length x = n -> CF7_constr_eval 2 (Z.of_nat n) x = cf67_constr 1 x.
Proof. exact (fun n x _ => cf7_constr_gen_eq_ref n x). Qed.
Theorem c18_cf7_out_length : forall (n : nat) x, (4 <= n)%nat -> length x = n ->
  length (CF7_eval 2 (Z.of_nat n) x) = 2%nat /\ length (CF7_constr_eval 2 (Z.of_nat n) x) = 2%nat.
Proof. exact cf7_out_length. Qed.

(* UF5, UF6, UF8-10 raise no Python exception on inputs of the right length (UF5/UF8-10: no sqrt or pow at all; n >= 3 resp. 5 keeps the index sets non-empty) *)
Theorem c18_uf5_defined : forall (n : nat) x, (3 <= n)%nat -> length x = n -> UF5_defined 2 (Z.of_nat n) x.
Proof. exact uf5_defined. Qed.
Theorem c18_uf6_defined : forall (n : nat) x, (3 <= n)%nat -> length x = n -> UF6_defined 2 (Z.of_nat n) x.
Proof. exact uf6_defined. Qed.
Theorem c18_uf8_defined : forall (n : nat) x, (5 <= n)%nat -> length x = n -> UF8_defined 3 (Z.of_nat n) x.
Proof. exact uf8_defined. Qed.
Theorem c18_uf9_defined : forall (n : nat) x, (5 <= n)%nat -> length x = n -> UF9_defined 3 (Z.of_nat n) x.
Proof. exact uf9_defined. Qed.
Theorem c18_uf10_defined : forall (n : nat) x, (5 <= n)%nat -> length x = n -> UF10_defined 3 (Z.of_nat n) x.
Proof. exact uf10_defined. Qed.

(* ------------------------------------------------------------------ WFG4 and WFG5 as WHOLE problems: the translated evaluate pipeline = the published
   composition (z_i/2i, s_multi resp. s_decept, reduction with one position parameter per group and the mean of the distance
   parameters, concave shape with f_m = x_M + 2m h_m), exactly M objectives; every M >= 2, every n >= M - 1, every in-bounds z.
   (_correct_to_01 is shown to be the identity on every value that occurs.)  WFG6-9 whole-pipeline equalities: not done. *)
Theorem c18_wfg4_gen_eq_ref : forall (M n : nat) z, (2 <= M)%nat -> (M - 1 <= n)%nat -> length z = n -> wfg_box z -> forall nvars,
  WFG4_eval (Z.of_nat M) nvars z = wfg4_ref M z.
Proof. exact wfg4_gen_eq_ref. Qed.
Theorem c18_wfg5_gen_eq_ref : forall (M n : nat) z, (2 <= M)%nat -> (M - 1 <= n)%nat -> length z = n -> wfg_box z -> forall nvars,
  WFG5_eval (Z.of_nat M) nvars z = wfg5_ref M z.
Proof. exact wfg5_gen_eq_ref. Qed.
Theorem c18_wfg4_out_length : forall (M n : nat) z, (2 <= M)%nat -> (M - 1 <= n)%nat -> length z = n -> wfg_box z -> forall nvars,
  length (WFG4_eval (Z.of_nat M) nvars z) = M.
Proof. exact wfg4_out_length. Qed.
Theorem c18_wfg5_out_length : forall (M n : nat) z, (2 <= M)%nat -> (M - 1 <= n)%nat -> length z = n -> wfg_box z -> forall nvars,
  length (WFG5_eval (Z.of_nat M) nvars z) = M.
Proof. exact wfg5_out_length. Qed.
Theorem c18_s_multi_gen_eq_ref : forall y A B, 0 <= y <= 1 -> 0 <= B -> fn_s_multi_eval y A B (7 / 20) = wfg_s_multi y A B (7 / 20).
Proof. exact s_multi_gen_eq_ref. Qed.
Theorem c18_s_decept_gen_eq_ref : forall y, 0 <= y <= 1 -> fn_s_decept_eval y (7 / 20) (1 / 1000) (1 / 20) = wfg_s_decept y (7 / 20) (1 / 1000) (1 / 20).
Proof. exact s_decept_gen_eq_ref. Qed.
