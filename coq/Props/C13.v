(* C13 — seeded runs are repeatable; a saved state resumes exactly; consecutive run calls compose.
   Only statements; every proof is [exact lemma] (proofs in Proofs/ResumeProofs.v).

   The state of a process is the pair (alg, rng).  THAT A STEP IS A FUNCTION OF THIS PAIR ONLY is the modelling
   assumption [frame] (a Gallina function is deterministic by construction, so "same seed, same result" is not a
   theorem here): it is what the harness ties to /repo by the determinism frame check (AST) and by replaying
   every algorithm x variable type in fresh interpreters under several PYTHONHASHSEEDs.
   [eqv] is observational equality on what a step and the result read. *)
From Coq Require Import Arith List Bool.
Import ListNotations.
From PV Require Import Model.RunLoop Proofs.RunLoopProofs Model.Resume Proofs.ResumeProofs.

Section C13.
  Variable A R F : Type.
  Variable nfe_a : A -> nat.
  Variable step_p start_p end_p : proc A R -> proc A R.
  Variable save : proc A R -> F.
  Variable load : F -> R -> proc A R.
  Variable eqv : proc A R -> proc A R -> Prop.
  Hypothesis FR : frame A R nfe_a step_p start_p end_p eqv.

  Notation run := (p_run A R nfe_a step_p start_p end_p).
  Notation oeqv := (oeqv A R eqv).

  (* a run is a function of the observable state: equal seeds and equal objects give equal results *)
  Theorem c13_run_deterministic : forall N p q, eqv p q -> oeqv (run N p) (run N q).
  Proof. exact (run_proper A R nfe_a step_p start_p end_p eqv FR). Qed.

  (* Saving at any step boundary, loading later — in a process whose generator has been used in between (r') —
     and continuing gives exactly what continuing the in-memory run gives, provided load restores what save captured *)
  Theorem c13_resume_exact : load_restores A R F save load eqv ->
    forall N p r', oeqv (resume A R F nfe_a step_p start_p end_p save load N p r') (run N p).
  Proof. exact (resume_exact A R F nfe_a step_p start_p end_p save load eqv FR). Qed.

  (* Without restart windows (start_run / end_run neutral on what a step reads) consecutive calls split at a step
     boundary equal the uninterrupted single call *)
  Theorem c13_run_compose : hooks_neutral A R start_p end_p eqv ->
    forall N1 N2 p,
      oeqv (p_run2 A R nfe_a step_p start_p end_p N1 N2 p)
           (run (p_consumed A R nfe_a step_p start_p end_p N1 p + N2) p).
  Proof. exact (run_compose A R nfe_a step_p start_p end_p eqv FR). Qed.
End C13.

(* the hypotheses are satisfiable (toy algorithm with a generator; save = the pair, load = setstate) *)
Theorem c13_frame_satisfiable :
  frame toy nat y_nfe toy_step (fun p => p) (fun p => p) eq
  /\ load_restores toy nat (toy * nat) toy_save toy_load eq.
Proof. exact (conj toy_frame toy_load_restores). Qed.

(* the exclusion of eps-NSGA-II / user fixed-frequency extensions from the composition clause is necessary:
   an extension whose window is measured from start_run satisfies the frame, is not neutral, and breaks composition *)
Theorem c13_run_compose_refuted_window :
  exists N1 N2 s, w_run2 N1 N2 s <> w_run (w_consumed N1 s + N2) s.
Proof. exact run_compose_refuted_window. Qed.

Theorem c13_window_satisfies_frame_but_is_not_neutral :
  frame wstate unit w_nfe w_step w_start (fun p => p) eq
  /\ ~ hooks_neutral wstate unit w_start (fun p => p) eq.
Proof. exact (conj w_frame w_start_not_neutral). Qed.

(* a load that does not restore the generator does not resume exactly *)
Theorem c13_resume_needs_rng_refuted :
  exists N s r', toy_resume_norng N s r' <> toy_run N s.
Proof. exact resume_needs_rng_refuted. Qed.

(* the law the harness evaluates on logged step sizes (Harness/H13.v) is an instance of c13_run_compose *)
Theorem c13_logged_steps_compose : forall N1 N2 s, z_run2 N1 N2 s = z_run (z_consumed N1 s + N2) s.
Proof. exact z_compose. Qed.
