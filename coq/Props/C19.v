(* C19 — saved solution files read back exactly.
   Only statements; every proof is [exact lemma].

   Reading guide.  [F] = float objects, [T] = float tokens of a file, [fv f] = exact value of f (None = NaN),
   [cparse] = what Constraint(op string) makes of a declaration text (operator, threshold); [cfun k] = the behaviour of the
   callable of a declaration Constraint(function) (arbitrary; "any non-zero value is a violation").
   [save_then_load old sup x] = load_json (save_json x) with problem=sup (an exception while saving is the result).
   PROVED (about the abstract structure): the encoder's trees, json's bottom-up object_hook traversal,
   the placeholder / rebuild / re-attach logic of the REPAIRED decoder, FixedLengthArray slice assignment,
   recomputation of violation and feasibility, the objectives line format with blank-line skipping.
   ASSUMED about CPython (hypotheses RT / ORT below, backed by the float sweep and by the correspondence
   through real files, never proved): printing a non-NaN float and parsing the token gives back the same
   float (json: float.__repr__/'Infinity' + float()/parse_constant; objectives file: str + float); and,
   built into the tree-level model, that json's character level and " ".join/split reproduce the tree.
   H0: the default declaration "==0" of a fresh Problem is parsable.
   NaN is outside the property (hypotheses [wf_*] require fv f <> None for every float leaf). *)
From Coq Require Import ZArith QArith Bool List String.
Import ListNotations.
From PV Require Import Base.Num Model.JsonModel Proofs.JsonProofs.
Open Scope Z_scope.

Section C19.
  Variables F T : Type.
  Variable fv : F -> option xq.
  Variable cparse : string -> option (js_cop * xq).
  Variable cfun : Z -> js_fval -> js_fval.
  Variable pr : F -> T.
  Variable pa : T -> F.
  Hypothesis RT : forall f, fv f <> None -> pa (pr f) = f.
  Hypothesis H0 : cparse "==0" <> None.
  Variable opr : F -> T.
  Variable opa : T -> F.
  Hypothesis ORT : forall f, fv f <> None -> opa (opr f) = f.

  (* the text layer loses nothing on NaN-free documents *)
  Theorem c19_text_layer : forall j, nonan F fv j = true -> jmap pa (jmap pr j) = j.
  Proof. exact (jmap_roundtrip F T fv pr pa RT). Qed.

  (* written from a list: all lengths incl. empty; variables any JSON-native value (numbers, booleans,
     strings, lists of them); any constraint values; problem supplied or not.  Every solution comes back with
     equal variables/objectives/constraints, in order, attached to the problem used on load (supplied, or the
     placeholder Problem(nv,no,nc) with "==0" declarations), violation = js_viol of THAT problem's declarations,
     feasible = (violation == 0). *)
  Theorem c19_json_roundtrip_list : forall sup sols nv no nc,
    wf_sols F fv nv no nc sols = true -> wf_supplied cparse nv no nc sup = true ->
    exists st outs,
      save_then_load F fv cparse cfun T pr pa false sup (SvList F sols) = Ok (st, PList F (map (PSol F) outs)) /\
      Forall2 (same_as F fv cparse cfun (load_problem sup nv no nc)) sols outs /\
      (sols <> [] -> st = Some (load_problem sup nv no nc)).
  Proof. exact (json_roundtrip_list F T fv cparse cfun pr pa RT H0). Qed.

  Theorem c19_json_roundtrip_archive : forall sup sols nv no nc,
    wf_sols F fv nv no nc sols = true -> wf_supplied cparse nv no nc sup = true ->
    exists st outs,
      save_then_load F fv cparse cfun T pr pa false sup (SvArchive F sols) = Ok (st, PList F (map (PSol F) outs)) /\
      Forall2 (same_as F fv cparse cfun (load_problem sup nv no nc)) sols outs /\
      (sols <> [] -> st = Some (load_problem sup nv no nc)).
  Proof. exact (json_roundtrip_archive F T fv cparse cfun pr pa RT H0). Qed.

  (* written from a live algorithm, nothing supplied on load: the decoder's problem is the one REBUILT from the
     saved definition, every solution is attached to it, violation/feasibility recomputed against the SAVED
     declarations (algo_roundtrip_stmt ... false = the repaired hook) *)
  Theorem c19_json_roundtrip_algorithm : forall a, wf_algo F fv cparse a = true ->
    algo_roundtrip_stmt F T fv cparse cfun pr pa false a.
  Proof. exact (json_roundtrip_algorithm F T fv cparse cfun pr pa RT H0). Qed.

  (* ... and that rebuilt problem has the saved shape, directions and constraint declarations *)
  Theorem c19_rebuilt_problem_spec : forall p,
    p_origin (rebuilt_of p) = Rebuilt /\
    p_nvars (rebuilt_of p) = p_nvars p /\ p_nobjs (rebuilt_of p) = p_nobjs p /\ p_nconstrs (rebuilt_of p) = p_nconstrs p /\
    p_dirs (rebuilt_of p) = p_dirs p /\ p_cons (rebuilt_of p) = p_cons p.
  Proof. exact rebuilt_of_spec. Qed.

  (* written from a live algorithm, problem supplied on load: the supplied problem is used *)
  Theorem c19_json_roundtrip_algorithm_supplied : forall a q, wf_algo F fv cparse a = true ->
    wf_supplied cparse (p_nvars (a_problem F a)) (p_nobjs (a_problem F a)) (p_nconstrs (a_problem F a)) (Some q) = true ->
    exists outs,
      save_then_load F fv cparse cfun T pr pa false (Some q) (SvAlgorithm F a) = Ok (Some q, PList F (map (PSol F) outs)) /\
      Forall2 (same_as F fv cparse cfun q) (a_result F a) outs.
  Proof. exact (json_roundtrip_algorithm_supplied F T fv cparse cfun pr pa RT). Qed.

  (* objectives text file: every objective value and the order of solutions, for >= 1 objective *)
  Theorem c19_objectives_roundtrip : forall sup sols no, (1 <= no)%nat ->
    forallb (wf_objs F fv no) sols = true ->
    match sup with Some p => p_nobjs p = no | None => True end ->
    exists lines, save_objectives F T opr sols = Ok lines /\
      load_objectives F T opa sup lines =
        map (fun s => mkOSol F (match sup with Some p => p | None => new_problem Placeholder 0 no 0 end) (ps_objs F s)) sols.
  Proof. exact (objectives_roundtrip F T fv opr opa ORT). Qed.

  (* boundary of the previous theorem, stated so that it is visible: with ZERO objectives each solution is
     written as a blank line and the loader skips blank lines - no objective value is lost (there is none),
     but the solutions themselves do not come back *)
  Theorem c19_objectives_zero_objs : forall sup sols, forallb (wf_objs F fv 0) sols = true ->
    exists lines, save_objectives F T opr sols = Ok lines /\ load_objectives F T opa sup lines = [].
  Proof. exact (objectives_roundtrip_zero_objs F T fv opr opa). Qed.

  (* the supplied problem may declare constraints by FUNCTIONS (wf_supplied accepts DFun); the violation is then
     sum |f_i(x_i)| of the callables' signed values.  Such a problem cannot be WRITTEN as part of an algorithm: *)
  Theorem c19_algorithm_callable_raises : forall old sup a, all_dop (p_cons (a_problem F a)) = false ->
    save_then_load F fv cparse cfun T pr pa old sup (SvAlgorithm F a) = Err EType.
  Proof. exact (json_algorithm_callable_raises F T fv cparse cfun pr pa). Qed.

  (* "feasibility recomputed consistently with the declarations": for finite thresholds, violation == 0 exactly
     when every declared relation holds of its constraint value / every callable returns 0 (exact arithmetic) *)
  Theorem c19_feasible_iff : forall cs xs v, finite_thresholds cparse cs ->
    js_viol F fv cparse cfun cs xs = Ok v ->
    js_fzero v = forallb (fun p => pair_holds F fv cparse cfun (fst p) (snd p)) (combine cs xs).
  Proof. exact (js_feasible_iff F fv cparse cfun). Qed.
End C19.

(* the hypotheses are satisfiable: the executable instance run by the correspondence *)
Theorem c19_instance_RT : forall f : Z, f64_val f <> None -> xid (xid f) = f.
Proof. exact inst_RT. Qed.
Theorem c19_instance_H0 : ex_cparse "==0" <> None.
Proof. exact inst_H0. Qed.

(* non-vacuity: concrete well-formed inputs *)
Theorem c19_ex_algo_wf : wf_algo Z f64_val ex_cparse ex_algo = true.
Proof. exact ex_algo_wf. Qed.
Theorem c19_ex_sols_wf : wf_sols Z f64_val 4 2 1 ex_sols = true /\ wf_sols Z f64_val 4 2 1 [] = true /\
  wf_supplied ex_cparse 4 2 1 None = true /\ wf_supplied ex_cparse 4 2 1 (Some ex_supplied) = true /\
  wf_supplied ex_cparse 4 2 1 (Some ex_supplied_fn) = true.
Proof. exact ex_sols_wf. Qed.
Theorem c19_ex_objs_wf : forallb (wf_objs Z f64_val 2) ex_sols = true.
Proof. exact ex_objs_wf. Qed.

Theorem c19_ex_feasible_iff :
  finite_thresholds ex_cparse [DOp "==0"; DOp "<=0.5"; DFun 0] /\
  (exists v, js_viol Z f64_val ex_cparse ex_cfun [DOp "==0"; DOp "<=0.5"; DFun 0] [JNum b_negzero; JNum b_quarter; JNum b_quarter] = Ok v /\ js_fzero v = true) /\
  (exists v, js_viol Z f64_val ex_cparse ex_cfun [DOp "==0"; DOp "<=0.5"; DFun 0] [JNum b_negzero; JNum b_quarter; JNum b_negzero] = Ok v /\ js_fzero v = false).
Proof. exact ex_feasible_iff. Qed.

(* a problem supplied on load whose constraint is the callable x - 0.25, constraint values -0.0 and 0.75: the callable
   returns -0.25 and +0.5; the loaded violations are 0.25 and 0.5 (magnitudes; a sum without abs() would give -0.25) *)
Theorem c19_ex_sols_callable :
  exists st outs,
    save_then_load Z f64_val ex_cparse ex_cfun Z xid xid false (Some ex_supplied_fn) (SvList Z ex_sols)
      = Ok (st, PList Z (map (PSol Z) outs)) /\
    map (ps_feas Z) outs = [false; false] /\
    map (fun o => js_fval_same (ps_cv Z o)) outs = map js_fval_same [Some (F 1 (-2)); Some (F 1 (-1))].
Proof. exact ex_sols_callable. Qed.

(* the theorem distinguishes the repaired defect (fix dc48d2e): the decoder as it was before the repair
   does NOT satisfy the algorithm round trip, on a saved algorithm with a maximised objective and "<=0.5" *)
Theorem c19_json_decoder_old_refuted :
  exists a, wf_algo Z f64_val ex_cparse a = true /\
            ~ algo_roundtrip_stmt Z Z f64_val ex_cparse ex_cfun xid xid true a.
Proof. exact json_decoder_old_refuted. Qed.
