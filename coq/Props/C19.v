(* C19 — saved solution files read back exactly.
   Only statements; every proof is [exact lemma].

   Reading guide.  [F] = float objects, [T] = float tokens of a file, [fv f] = exact value of f (None = NaN),
   [cparse] = what Constraint(op string) makes of a declaration (operator, threshold).
   PROVED (about the abstract structure): the encoder's trees, json's bottom-up object_hook traversal,
   the placeholder / rebuild / re-attach logic of the REPAIRED decoder, FixedLengthArray slice assignment,
   recomputation of violation and feasibility, the objectives line format with blank-line skipping.
   ASSUMED about CPython (hypotheses RT / ORT below, backed by the float sweep and by the correspondence
   through real files, never proved): printing a non-NaN float and parsing the token gives back the same
   float (json: float.__repr__/'Infinity' + float()/parse_constant; objectives file: str + float); and,
   built into the tree-level model, that json's character level and " ".join/split reproduce the tree.
   H0: the default declaration "==0" of a fresh Problem is parsable.
   NaN is outside the property (hypotheses [wf_*] require fv f <> None for every float leaf). *)
From Coq Require Import ZArith QArith Bool List String.
Import ListNotations.
From PV Require Import Base.Num Model.JsonModel Proofs.JsonProofs.
Open Scope Z_scope.

Section C19.
  Variables F T : Type.
  Variable fv : F -> option xq.
  Variable cparse : string -> option (js_cop * xq).
  Variable pr : F -> T.
  Variable pa : T -> F.
  Hypothesis RT : forall f, fv f <> None -> pa (pr f) = f.
  Hypothesis H0 : cparse "==0" <> None.
  Variable opr : F -> T.
  Variable opa : T -> F.
  Hypothesis ORT : forall f, fv f <> None -> opa (opr f) = f.

  (* the text layer loses nothing on NaN-free documents *)
  Theorem c19_text_layer : forall j, nonan F fv j = true -> jmap pa (jmap pr j) = j.
  Proof. exact (jmap_roundtrip F T fv pr pa RT). Qed.

  (* written from a list: all lengths incl. empty; variables any JSON-native value (numbers, booleans,
     strings, lists of them); any constraint values; problem supplied or not.  Every solution comes back with
     equal variables/objectives/constraints, in order, attached to the problem used on load (supplied, or the
     placeholder Problem(nv,no,nc) with "==0" declarations), violation = js_viol of THAT problem's declarations,
     feasible = (violation == 0). *)
  Theorem c19_json_roundtrip_list : forall sup sols nv no nc,
    wf_sols F fv nv no nc sols = true -> wf_supplied cparse nv no nc sup = true ->
    exists st outs,
      load_json F fv cparse T pa sup (save_json F T pr (SvList F sols)) = Ok (st, PList F (map (PSol F) outs)) /\
      Forall2 (same_as F fv cparse (load_problem sup nv no nc)) sols outs /\
      (sols <> [] -> st = Some (load_problem sup nv no nc)).
  Proof. exact (json_roundtrip_list F T fv cparse pr pa RT H0). Qed.

  Theorem c19_json_roundtrip_archive : forall sup sols nv no nc,
    wf_sols F fv nv no nc sols = true -> wf_supplied cparse nv no nc sup = true ->
    exists st outs,
      load_json F fv cparse T pa sup (save_json F T pr (SvArchive F sols)) = Ok (st, PList F (map (PSol F) outs)) /\
      Forall2 (same_as F fv cparse (load_problem sup nv no nc)) sols outs /\
      (sols <> [] -> st = Some (load_problem sup nv no nc)).
  Proof. exact (json_roundtrip_archive F T fv cparse pr pa RT H0). Qed.

  (* written from a live algorithm, nothing supplied on load: the decoder's problem is the one REBUILT from the
     saved definition, every solution is attached to it, violation/feasibility recomputed against the SAVED
     declarations (algo_roundtrip_stmt ... false = the repaired hook) *)
  Theorem c19_json_roundtrip_algorithm : forall a, wf_algo F fv cparse a = true ->
    algo_roundtrip_stmt F T fv cparse pr pa false a.
  Proof. exact (json_roundtrip_algorithm F T fv cparse pr pa RT H0). Qed.

  (* ... and that rebuilt problem has the saved shape, directions and constraint declarations *)
  Theorem c19_rebuilt_problem_spec : forall p,
    p_origin (rebuilt_of p) = Rebuilt /\
    p_nvars (rebuilt_of p) = p_nvars p /\ p_nobjs (rebuilt_of p) = p_nobjs p /\ p_nconstrs (rebuilt_of p) = p_nconstrs p /\
    p_dirs (rebuilt_of p) = p_dirs p /\ p_cons (rebuilt_of p) = p_cons p.
  Proof. exact rebuilt_of_spec. Qed.

  (* written from a live algorithm, problem supplied on load: the supplied problem is used *)
  Theorem c19_json_roundtrip_algorithm_supplied : forall a q, wf_algo F fv cparse a = true ->
    wf_supplied cparse (p_nvars (a_problem F a)) (p_nobjs (a_problem F a)) (p_nconstrs (a_problem F a)) (Some q) = true ->
    exists outs,
      load_json F fv cparse T pa (Some q) (save_json F T pr (SvAlgorithm F a)) = Ok (Some q, PList F (map (PSol F) outs)) /\
      Forall2 (same_as F fv cparse q) (a_result F a) outs.
  Proof. exact (json_roundtrip_algorithm_supplied F T fv cparse pr pa RT). Qed.

  (* objectives text file: every objective value and the order of solutions, for >= 1 objective *)
  Theorem c19_objectives_roundtrip : forall sup sols no, (1 <= no)%nat ->
    forallb (wf_objs F fv no) sols = true ->
    match sup with Some p => p_nobjs p = no | None => True end ->
    exists lines, save_objectives F T opr sols = Ok lines /\
      load_objectives F T opa sup lines =
        map (fun s => mkOSol F (match sup with Some p => p | None => new_problem Placeholder 0 no 0 end) (ps_objs F s)) sols.
  Proof. exact (objectives_roundtrip F T fv opr opa ORT). Qed.

  (* boundary of the previous theorem, stated so that it is visible: with ZERO objectives each solution is
     written as a blank line and the loader skips blank lines - no objective value is lost (there is none),
     but the solutions themselves do not come back *)
  Theorem c19_objectives_zero_objs : forall sup sols, forallb (wf_objs F fv 0) sols = true ->
    exists lines, save_objectives F T opr sols = Ok lines /\ load_objectives F T opa sup lines = [].
  Proof. exact (objectives_roundtrip_zero_objs F T fv opr opa). Qed.

  (* "feasibility recomputed consistently with the declarations": for finite thresholds, violation == 0
     exactly when every declared relation holds of its constraint value (exact arithmetic) *)
  Theorem c19_feasible_iff : forall cs xs v, finite_thresholds cparse cs ->
    js_viol F fv cparse cs xs = Ok v ->
    js_fzero v = forallb (fun p => pair_holds F fv cparse (fst p) (snd p)) (combine cs xs).
  Proof. exact (js_feasible_iff F fv cparse). Qed.
End C19.

(* the hypotheses are satisfiable: the executable instance run by the correspondence *)
Theorem c19_instance_RT : forall f : Z, f64_val f <> None -> xid (xid f) = f.
Proof. exact inst_RT. Qed.
Theorem c19_instance_H0 : ex_cparse "==0" <> None.
Proof. exact inst_H0. Qed.

(* non-vacuity: concrete well-formed inputs *)
Theorem c19_ex_algo_wf : wf_algo Z f64_val ex_cparse ex_algo = true.
Proof. exact ex_algo_wf. Qed.
Theorem c19_ex_sols_wf : wf_sols Z f64_val 4 2 1 ex_sols = true /\ wf_sols Z f64_val 4 2 1 [] = true /\
  wf_supplied ex_cparse 4 2 1 None = true /\ wf_supplied ex_cparse 4 2 1 (Some ex_supplied) = true.
Proof. exact ex_sols_wf. Qed.
Theorem c19_ex_objs_wf : forallb (wf_objs Z f64_val 2) ex_sols = true.
Proof. exact ex_objs_wf. Qed.

Theorem c19_ex_feasible_iff :
  finite_thresholds ex_cparse ["==0"%string; "<=0.5"%string] /\
  (exists v, js_viol Z f64_val ex_cparse ["==0"%string; "<=0.5"%string] [JNum b_negzero; JNum b_quarter] = Ok v /\ js_fzero v = true) /\
  (exists v, js_viol Z f64_val ex_cparse ["==0"%string; "<=0.5"%string] [JNum b_negzero; JNum b_3quarter] = Ok v /\ js_fzero v = false).
Proof. exact ex_feasible_iff. Qed.

(* the theorem distinguishes the repaired defect (fix dc48d2e): the decoder as it was before the repair
   does NOT satisfy the algorithm round trip, on a saved algorithm with a maximised objective and "<=0.5" *)
Theorem c19_json_decoder_old_refuted :
  exists a, wf_algo Z f64_val ex_cparse a = true /\
            ~ algo_roundtrip_stmt Z Z f64_val ex_cparse xid xid true a.
Proof. exact json_decoder_old_refuted. Qed.
