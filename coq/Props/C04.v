(* placeholder while the model is validated *)
From Coq Require Import List.
From PV Require Import Base.StableSort.
Theorem c04_sort_perm : forall A (lt : A -> A -> bool) l, Permutation.Permutation (ssort lt l) l.
Proof. exact ssort_perm. Qed.
