(* C04 — non-dominated sorting ranks by domination depth; truncation respects rank.
   Only statements; every proof is [exact lemma].

   Part 1  ranks, for ANY comparator obeying the Dominance contract (C03's hypotheses)
   Part 2  ranks and attributes of the executable sort (Pareto dominance on xq)
   Part 3  crowding distance (exact rational arithmetic)
   Part 4  Python's sorted(): permutation, sorted, stable, unique
   Part 5  truncate / nondominated_truncate / truncate_fitness
   Part 6  nondominated_split
   Part 7  nondominated_prune

   Conventions: [sid_inj l] = identities determine the object (an object may be listed twice);
   [NoDup (map asid l)] = no object listed twice; sizes are natural numbers. *)
From Coq Require Import ZArith QArith Bool List Permutation Sorted.
Import ListNotations.
From PV Require Import Base.Num Base.Order Base.StableSort Model.Dominance Model.Archive Proofs.ArchiveProofs
     Model.NDSort Proofs.NDSortProofs Model.Truncate Proofs.TruncateProofs.
Open Scope nat_scope.

(* ------------------------------------------------------------------ Part 1 *)
Section C04_ranks.
  Variable V : Type.
  Notation T := (sol V).
  Variable cmp : T -> T -> Z.
  Variable P : T -> Prop.
  Variable CR : Type.
  Variable crowd : list T -> option CR.
  Hypothesis cmp_range : forall x y, (cmp x y = -1 \/ cmp x y = 0 \/ cmp x y = 1)%Z.
  Hypothesis cmp_antisym : forall x y, P x -> P y -> (cmp y x = - cmp x y)%Z.
  Hypothesis dom_trans : forall x y z, P x -> P y -> P z ->
    dom T cmp x y = true -> dom T cmp y z = true -> dom T cmp x z = true.
  Hypothesis dom_irrefl : forall x, P x -> dom T cmp x x = false.

  (* [rank V CR log x] = the rank attribute nondominated_sort left on x *)

  (* rank 0 <=> no member dominates x *)
  Theorem c04_rank_zero_iff : forall l log, Forall P l -> sid_inj l ->
    nd_loop cmp crowd (length l) l 0 = Some log ->
    forall x, In x l -> (rank V CR log x = Some 0 <-> forall y, In y l -> dom T cmp y x = false).
  Proof. exact (rank_zero_iff V cmp P CR crowd cmp_range cmp_antisym dom_trans dom_irrefl). Qed.

  (* rank r+1 <=> every dominator has rank <= r and one has rank exactly r *)
  Theorem c04_rank_depth : forall l log, Forall P l -> sid_inj l ->
    nd_loop cmp crowd (length l) l 0 = Some log ->
    forall x r, In x l ->
    (rank V CR log x = Some (S r) <->
     (forall y, In y l -> dom T cmp y x = true -> exists j, rank V CR log y = Some j /\ j <= r) /\
     (exists y, In y l /\ dom T cmp y x = true /\ rank V CR log y = Some r)).
  Proof. exact (rank_depth V cmp P CR crowd cmp_range cmp_antisym dom_trans dom_irrefl). Qed.

  (* every member gets a rank, below len(population) *)
  Theorem c04_rank_total : forall l log, Forall P l -> sid_inj l ->
    nd_loop cmp crowd (length l) l 0 = Some log ->
    forall x, In x l -> exists k, rank V CR log x = Some k /\ k < length l.
  Proof. exact (rank_total V cmp P CR crowd cmp_range cmp_antisym dom_trans dom_irrefl). Qed.

  (* a dominator has a strictly smaller rank *)
  Theorem c04_rank_dominator_smaller : forall l log, Forall P l -> sid_inj l ->
    nd_loop cmp crowd (length l) l 0 = Some log ->
    forall x y rx ry, In x l -> In y l -> dom T cmp y x = true ->
    rank V CR log x = Some rx -> rank V CR log y = Some ry -> ry < rx.
  Proof. exact (rank_dominator_smaller V cmp P CR crowd cmp_range cmp_antisym dom_trans dom_irrefl). Qed.

  (* the peeling loop needs at most len(population) rounds, each peels a non-empty front ... *)
  Theorem c04_rounds_bounded : forall l log, Forall P l -> sid_inj l ->
    nd_loop cmp crowd (length l) l 0 = Some log ->
    length log <= length l /\ Forall (fun f => f <> []) (fronts_of V CR log).
  Proof. exact (rounds_bounded V cmp P CR crowd cmp_range cmp_antisym dom_trans dom_irrefl). Qed.

  (* ... and never runs out of fuel: it fails only if crowding_distance raised on some front *)
  Theorem c04_peeling_terminates : forall fuel R r, Forall P R -> sid_inj R -> length R <= fuel ->
    (forall f, incl f R -> crowd f <> None) -> exists log, nd_loop cmp crowd fuel R r = Some log.
  Proof. exact (nd_loop_fuel V cmp P CR crowd cmp_range cmp_antisym dom_trans dom_irrefl). Qed.

  (* the ranks written are 0, 1, ..., rounds-1 *)
  Theorem c04_ranks_contiguous : forall l log, Forall P l -> sid_inj l ->
    nd_loop cmp crowd (length l) l 0 = Some log -> ranks_of V CR log = seq 0 (length log).
  Proof. exact (ranks_contiguous V cmp P CR crowd cmp_range cmp_antisym dom_trans dom_irrefl). Qed.
End C04_ranks.

(* ------------------------------------------------------------------ Part 2 *)
(* [x_nd_sort c dirs l = Some ann]: ann lists l's members, in order, with the (rank, crowding_distance)
   attributes nondominated_sort(l) left on them *)
Theorem c04_x_rank_zero_iff : forall c dirs l ann, Forall (sol_wf xq xltb xzero dirs) l -> sid_inj l ->
  x_nd_sort c dirs l = Some ann -> forall a, In a ann ->
  (a_rank a = 0 <-> forall b, In b ann -> dom xsol (x_sol_cmp c dirs) (a_sol b) (a_sol a) = false).
Proof. exact x_rank_zero_iff. Qed.

Theorem c04_x_rank_depth : forall c dirs l ann, Forall (sol_wf xq xltb xzero dirs) l -> sid_inj l ->
  x_nd_sort c dirs l = Some ann -> forall a r, In a ann ->
  (a_rank a = S r <->
   (forall b, In b ann -> dom xsol (x_sol_cmp c dirs) (a_sol b) (a_sol a) = true -> a_rank b <= r) /\
   (exists b, In b ann /\ dom xsol (x_sol_cmp c dirs) (a_sol b) (a_sol a) = true /\ a_rank b = r)).
Proof. exact x_rank_depth. Qed.

Theorem c04_x_ranks_contiguous : forall c dirs l ann, Forall (sol_wf xq xltb xzero dirs) l -> sid_inj l ->
  x_nd_sort c dirs l = Some ann ->
  exists m, m <= length l /\ (forall a, In a ann -> a_rank a < m) /\
            (forall j, j < m -> filter (fun a => Nat.eqb (a_rank a) j) ann <> []).
Proof. exact x_ranks_contiguous. Qed.

(* nondominated_sort never fails (the round limit len(population) is never hit and crowding_distance does not
   raise) on well-formed populations with finite objective values *)
Theorem c04_nd_sort_total : forall c dirs l, Forall (sol_wf xq xltb xzero dirs) l -> sid_inj l ->
  (forall x, In x l -> finite_objs x) -> exists ann, x_nd_sort c dirs l = Some ann.
Proof. exact x_nd_sort_total. Qed.

(* the crowding attribute of a member is what crowding_distance computed for its own front
   (= the members of equal rank), so Part 3 applies to it *)
Theorem c04_x_crowd_front : forall c dirs l ann, Forall (sol_wf xq xltb xzero dirs) l -> sid_inj l ->
  x_nd_sort c dirs l = Some ann -> forall a, In a ann ->
  exists front cs,
    In (a_sol a) front /\ sid_inj front /\
    (forall b, In b ann -> (In (a_sol b) front <-> a_rank b = a_rank a)) /\
    (forall x, In x front -> In x l) /\
    crowding (length dirs) front = Some cs /\ cget cs (sid (a_sol a)) = Some (a_crowd a).
Proof. exact x_crowd_front. Qed.

Theorem c04_x_crowd_nonneg : forall c dirs l ann, Forall (sol_wf xq xltb xzero dirs) l -> sid_inj l ->
  x_nd_sort c dirs l = Some ann -> forall a, In a ann -> xltb (a_crowd a) xzero = false.
Proof. exact x_crowd_nonneg. Qed.

(* ------------------------------------------------------------------ Part 3 *)
(* [crowding nobjs front = Some st]: st maps identities to the crowding_distance written.
   [unique front] = first member of every distinct objective vector. *)

(* crowding_distance does not raise on finite objective vectors of sufficient length *)
Theorem c04_crowding_total : forall nobjs front,
  (forall x, In x front -> finite_objs x /\ nobjs <= length (s_objs x)) -> exists st, crowding nobjs front = Some st.
Proof. exact crowding_total. Qed.

(* >= 3 distinct vectors: for every objective the first and the last of the stable order get +inf *)
Theorem c04_crowding_extremes : forall nobjs front st, sid_inj front -> crowding nobjs front = Some st ->
  forall i x d, 3 <= length (unique front) -> i < nobjs ->
  x = hd d (sort_by_obj i (unique front)) \/ x = last (sort_by_obj i (unique front)) d ->
  cget st (sid x) = Some PInf.
Proof. exact crowding_extremes. Qed.

(* every member: the sum over the objectives of that objective's contribution ... *)
Theorem c04_crowding_sum : forall nobjs front st, sid_inj front -> crowding nobjs front = Some st ->
  forall x, 3 <= length (unique front) -> In x (unique front) ->
  exists cs, Forall2 (fun i c => contrib i (unique front) (sid x) = Some c) (seq 0 nobjs) cs /\
             Forall not_ninf cs /\ cget st (sid x) = Some (fold_left xplus cs xzero).
Proof. exact crowding_sum. Qed.

(* ... where the contribution of objective i to an interior member x (neighbours p, n in the stable order)
   is (obj_i n - obj_i p) / (max_i - min_i), or +inf when max_i - min_i < EPSILON (as the code does) *)
Theorem c04_contrib_interior : forall i u l1 p x n l2 mn mx a b,
  NoDup (map sid u) -> sort_by_obj i u = l1 ++ p :: x :: n :: l2 ->
  fin (obj_at i (hd x (sort_by_obj i u))) = Some mn ->
  fin (obj_at i (last (sort_by_obj i u) x)) = Some mx ->
  fin (obj_at i p) = Some a -> fin (obj_at i n) = Some b ->
  contrib i u (sid x) = Some (if Qltb (mx - mn) EPSILON then PInf else Fin ((b - a) / (mx - mn))).
Proof. exact contrib_interior. Qed.

(* interior for every objective with finite contributions q i: exactly their sum *)
Theorem c04_crowding_interior : forall nobjs front st, sid_inj front -> crowding nobjs front = Some st ->
  forall x (q : nat -> Q), 3 <= length (unique front) -> In x (unique front) ->
  (forall i, i < nobjs -> contrib i (unique front) (sid x) = Some (Fin (q i))) ->
  cget st (sid x) = Some (Fin (fold_left Qplus (map q (seq 0 nobjs)) 0%Q)).
Proof. exact crowding_interior. Qed.

(* fewer than 3 distinct vectors: all of them +inf *)
Theorem c04_crowding_small : forall nobjs front st, crowding nobjs front = Some st ->
  forall x, length (unique front) < 3 -> In x (unique front) -> cget st (sid x) = Some PInf.
Proof. exact crowding_small. Qed.

(* a member whose objective vector repeats an earlier member's keeps 0.0 *)
Theorem c04_crowding_dups_zero : forall nobjs front st, sid_inj front -> crowding nobjs front = Some st ->
  forall x, In x front -> has_sid (sid x) (unique front) = false -> cget st (sid x) = Some xzero.
Proof. exact crowding_dups_zero. Qed.

Theorem c04_crowding_nonneg : forall nobjs front st, sid_inj front -> crowding nobjs front = Some st ->
  forall x v, In x front -> cget st (sid x) = Some v -> xltb v xzero = false.
Proof. exact crowding_nonneg. Qed.

(* ------------------------------------------------------------------ Part 4 *)
Theorem c04_sort_perm : forall A (lt : A -> A -> bool) l, Permutation (ssort lt l) l.
Proof. exact ssort_perm. Qed.

Theorem c04_sort_sorted : forall A (lt : A -> A -> bool), StrictWeak lt ->
  forall l, StronglySorted (le_rel lt) (ssort lt l).
Proof. exact ssort_sorted. Qed.

Theorem c04_sort_stable : forall A (lt : A -> A -> bool), StrictWeak lt ->
  forall l z, filter (keq lt z) (ssort lt l) = filter (keq lt z) l.
Proof. exact ssort_stable. Qed.

(* any sorted stable permutation IS the model's sort: the sorting algorithm is immaterial *)
Theorem c04_stable_sort_unique : forall A (lt : A -> A -> bool), StrictWeak lt ->
  forall l l', Permutation l l' -> StronglySorted (le_rel lt) l' ->
  (forall z, filter (keq lt z) l' = filter (keq lt z) l) -> l' = ssort lt l.
Proof. exact ssort_unique. Qed.

(* the rank-then-crowding order of nondominated_sort_cmp is a strict weak order *)
Theorem c04_nd_lt_strict_weak : StrictWeak nd_lt.
Proof. exact nd_lt_sw. Qed.

(* ------------------------------------------------------------------ Part 5 *)
Theorem c04_truncate_length : forall A (lt : A -> A -> bool) reverse l k,
  length (truncate lt reverse l k) = min k (length l).
Proof. exact truncate_length. Qed.

Theorem c04_truncate_sub_generic : forall A (lt : A -> A -> bool) (f : A -> nat) reverse l k,
  NoDup (map f l) -> NoDup (map f (truncate lt reverse l k)).
Proof. exact truncate_NoDup. Qed.

Theorem c04_truncate_all : forall A (lt : A -> A -> bool) reverse l k, length l <= k ->
  truncate lt reverse l k = sorted_by lt reverse l /\ Permutation (truncate lt reverse l k) l.
Proof. exact truncate_all. Qed.

(* nondominated_truncate *)
Theorem c04_nd_truncate_length : forall l k, length (nondominated_truncate l k) = min k (length l).
Proof. exact nd_truncate_length. Qed.

Theorem c04_truncate_sub : forall l k, NoDup (map asid l) ->
  NoDup (map asid (nondominated_truncate l k)) /\
  exists dropped, Permutation (nondominated_truncate l k ++ dropped) l.
Proof. exact nd_truncate_sub. Qed.

(* kept x, dropped y => rank x <= rank y, and at equal rank crowding x >= crowding y *)
Theorem c04_truncate_rank_mono : forall l k x y, NoDup (map asid l) ->
  In x (nondominated_truncate l k) -> In y l -> ~ In (asid y) (map asid (nondominated_truncate l k)) ->
  a_rank x <= a_rank y /\ (a_rank x = a_rank y -> xltb (a_crowd x) (a_crowd y) = false).
Proof. exact nd_truncate_rank_mono. Qed.

Theorem c04_truncate_zero : forall l, nondominated_truncate l 0 = [].
Proof. exact nd_truncate_zero. Qed.

Theorem c04_truncate_all_fit : forall l k, length l <= k -> Permutation (nondominated_truncate l k) l.
Proof. exact nd_truncate_all. Qed.

(* truncate_fitness *)
Theorem c04_truncate_fitness_length : forall A (fitness : A -> xq) l k larger,
  length (truncate_fitness fitness l k larger) = min k (length l).
Proof. exact truncate_fitness_length. Qed.

Theorem c04_truncate_fitness_sub : forall A (fitness : A -> xq) (ident : A -> nat) l k larger,
  NoDup (map ident l) ->
  NoDup (map ident (truncate_fitness fitness l k larger)) /\
  exists dropped, Permutation (truncate_fitness fitness l k larger ++ dropped) l.
Proof. exact truncate_fitness_sub. Qed.

Theorem c04_truncate_fitness_mono : forall A (fitness : A -> xq) (ident : A -> nat) l k larger x y,
  NoDup (map ident l) -> In x (truncate_fitness fitness l k larger) -> In y l ->
  ~ In (ident y) (map ident (truncate_fitness fitness l k larger)) ->
  if larger then xltb (fitness x) (fitness y) = false else xltb (fitness y) (fitness x) = false.
Proof. exact truncate_fitness_mono. Qed.

(* ------------------------------------------------------------------ Part 6 *)
(* [fronts_upto rank l r] = fronts 0..r-1 one after the other = the members of rank < r;
   [split_post rank l size r last]: fronts 0..r-1 are non-empty and fit (total <= size), and either
   last = [] with (total = size  or  front r empty), or last = front r which does not fit. *)
Theorem c04_split_spec : forall l size, exists r last,
  nondominated_split l size = Some (fronts_upto a_rank l r, last) /\ split_post a_rank l size r last.
Proof. exact nd_split_spec. Qed.

Theorem c04_split_zero : forall A (rank : A -> nat) l, split_by rank l 0 = Some ([], []).
Proof. exact split_zero. Qed.

(* ranks 0..m-1 all occupied and everything fits: (all fronts in rank order, []) *)
Theorem c04_split_all : forall A (rank : A -> nat) l size m,
  (forall a, In a l -> rank a < m) -> (forall j, j < m -> matches rank l j <> []) -> length l <= size ->
  split_by rank l size = Some (fronts_upto rank l m, []) /\ Permutation (fronts_upto rank l m) l.
Proof. exact split_all. Qed.

Theorem c04_sorted_split_all : forall c dirs l ann, Forall (sol_wf xq xltb xzero dirs) l -> sid_inj l ->
  x_nd_sort c dirs l = Some ann -> forall size, length l <= size ->
  exists first, nondominated_split ann size = Some (first, []) /\ Permutation first ann.
Proof. exact sorted_split_all. Qed.

(* ------------------------------------------------------------------ Part 7 *)
Theorem c04_prune_length_le : forall nobjs l size out,
  nondominated_prune nobjs l size = Some out -> length out <= size.
Proof. exact prune_length_le. Qed.

(* exactly min(size, n) members of a freshly sorted population *)
Theorem c04_prune_length : forall c dirs l ann, Forall (sol_wf xq xltb xzero dirs) l -> sid_inj l ->
  x_nd_sort c dirs l = Some ann -> forall nobjs size out,
  nondominated_prune nobjs ann size = Some out -> length out = min size (length l).
Proof. exact sorted_prune_length. Qed.

(* members of the result are members of the input (solution and rank; crowding is rewritten) *)
Theorem c04_prune_sub : forall nobjs l size out, nondominated_prune nobjs l size = Some out ->
  exists rest, Permutation (map core out ++ rest) (map core l).
Proof. exact prune_sub. Qed.

Theorem c04_prune_distinct : forall nobjs l size out, nondominated_prune nobjs l size = Some out ->
  NoDup (map asid l) -> NoDup (map asid out).
Proof. exact prune_NoDup. Qed.

(* kept x, dropped y => rank x <= rank y *)
Theorem c04_prune_rank_mono : forall nobjs l size out, nondominated_prune nobjs l size = Some out ->
  forall x y, In x out -> In y l -> ~ In y out -> a_rank x <= a_rank y.
Proof. exact prune_rank_mono. Qed.

(* the pruning loop terminates (fuel = size of the cut front suffices) and nothing raises *)
Theorem c04_prune_total : forall nobjs l size, prunable nobjs l -> exists out, nondominated_prune nobjs l size = Some out.
Proof. exact prune_total. Qed.

Theorem c04_prune_zero : forall nobjs l, nondominated_prune nobjs l 0 = Some [].
Proof. exact prune_zero. Qed.
