(* C16 — GD, IGD, additive epsilon and spacing equal their textbook definitions.
   Only statements; every proof is [exact lemma].  All statements are about exact rational
   arithmetic.  sqrt and pow are NOT modelled: GD and IGD are characterised by their exact
   ingredients [ITerms ts n] -- the implementation returns
        (sum_i sqrt(t_i)^d)^(1/d) / n        (d = 2: sqrt(sum t_i)/n;  d = 1: (sum sqrt t_i)/n)
   -- and spacing by the exact rational under its final sqrt.  The correspondence check ties
   the implementation's float to these ingredients ((v*n)^2 = sum t_i etc., tolerance 2^-40).

   Vocabulary (Model/Indicators.v, Proofs/IndicatorsProofs.v):
     eps_calculate true / gd_calculate true / igd_calculate true   calculate of the repaired classes from a given store
     eps_indicator / gd_indicator / igd_indicator   constructor + calculate of the three classes (literal model
                                                    with the store of normalized_objectives keyed by object identity)
     spacing_calculate                              Spacing.calculate (value under the sqrt)
     accepted nobjs ref set c st0                   the constructor accepted the reference set (state c: reference members,
                                                    minimum, maximum) and the objects are well formed (wf_set)
     normed c s = normv (i_min c) (i_max c) (s_objs s)   (o - min)/(max - min), coordinate by coordinate
     eps_textbook / gd_terms_textbook / spacing_sq_textbook / spacing_ds_textbook     the textbook formulas
     peq l l'                                       same multiset of rationals (up to ==) *)
From Coq Require Import ZArith QArith Bool List Permutation.
Import ListNotations.
From PV Require Import Base.Num Model.Indicators Proofs.IndicatorsProofs.
Open Scope Q_scope.

(* ---------- normalisation ---------- *)
(* the bounds are the column minima / maxima of the feasible reference members *)
Theorem c16_bounds_textbook : forall nobjs st ref c st', (1 <= nobjs)%nat ->
  ind_make nobjs st ref = Ok (c, st') -> (forall s, In s (feasible ref) -> length (s_objs s) = nobjs) ->
  i_min c = map (fun k => lmin (colv (feasible ref) k)) (seq 0 nobjs) /\
  i_max c = map (fun k => lmax (colv (feasible ref) k)) (seq 0 nobjs).
Proof. exact ind_make_bounds_textbook. Qed.

(* when calculate reads normalized_objectives of ANY feasible object of the reference set or
   of the approximation set (also one that is listed in both), it finds (o - min)/(max - min),
   whatever the attributes held before the call (st arbitrary) *)
Theorem c16_normalized_objectives_textbook : forall nobjs ref set c st0 st x,
  accepted nobjs ref set c st0 -> In x (feasible ref ++ feasible set) ->
  store_get (writes (normed c) (writes (normed c) st (feasible ref)) (feasible set)) (s_sid x) = Ok (normed c x).
Proof. exact calc_store. Qed.

Theorem c16_ranges_positive : forall nobjs ref set c st0, accepted nobjs ref set c st0 ->
  forall k, (k < nobjs)%nat -> nth k (i_min c) 0 < nth k (i_max c) 0.
Proof. exact accepted_positive_range. Qed.

(* ---------- the model values ARE the textbook formulas ---------- *)
Theorem c16_eps_textbook : forall nobjs dirs ref set c st0, accepted nobjs ref set c st0 -> length dirs = nobjs ->
  eps_indicator nobjs dirs ref set =
  Ok (match feasible set with
      | [] => XInf
      | _ => XFin (eps_textbook dirs (map (normed c) (feasible ref)) (map (normed c) (feasible set)))
      end).
Proof. exact eps_unfold. Qed.

Theorem c16_gd_textbook : forall nobjs ref set c st0, accepted nobjs ref set c st0 ->
  gd_indicator nobjs ref set =
  Ok (match feasible set with
      | [] => IInf
      | _ => ITerms (gd_terms_textbook (map (normed c) (feasible ref)) (map (normed c) (feasible set)))
                    (length (feasible set))
      end).
Proof. exact gd_unfold. Qed.

Theorem c16_igd_textbook : forall nobjs ref set c st0, accepted nobjs ref set c st0 ->
  igd_indicator nobjs ref set =
  Ok (match feasible set with
      | [] => IInf
      | _ => ITerms (gd_terms_textbook (map (normed c) (feasible set)) (map (normed c) (feasible ref)))
                    (length (feasible ref))
      end).
Proof. exact igd_unfold. Qed.

Theorem c16_spacing_textbook : forall set q, spacing_calculate set = Ok q ->
  (forall s, In s (feasible set) -> length (s_objs s) = length (s_objs (hd s (feasible set)))) ->
  q == if Nat.ltb (length (feasible set)) 2 then 0 else spacing_sq_textbook (spacing_ds_textbook (feasible set)).
Proof. exact spacing_unfold. Qed.

(* ---------- zero on the reference set itself ---------- *)
Theorem c16_eps_ref_zero : forall nobjs dirs ref c st0, (1 <= nobjs)%nat -> length dirs = nobjs ->
  ind_make nobjs [] ref = Ok (c, st0) -> wf_set nobjs (feasible ref) ->
  exists e, eps_indicator nobjs dirs ref ref = Ok (XFin e) /\ e == 0.
Proof. exact eps_ref_zero. Qed.

Theorem c16_gd_ref_zero : forall nobjs ref c st0, (1 <= nobjs)%nat ->
  ind_make nobjs [] ref = Ok (c, st0) -> wf_set nobjs (feasible ref) ->
  exists ts, gd_indicator nobjs ref ref = Ok (ITerms ts (length (feasible ref))) /\
             (forall t, In t ts -> t == 0) /\ qsum ts == 0.
Proof. exact gd_ref_zero. Qed.

Theorem c16_igd_ref_zero : forall nobjs ref c st0, (1 <= nobjs)%nat ->
  ind_make nobjs [] ref = Ok (c, st0) -> wf_set nobjs (feasible ref) ->
  exists ts, igd_indicator nobjs ref ref = Ok (ITerms ts (length (feasible ref))) /\
             (forall t, In t ts -> t == 0) /\ qsum ts == 0.
Proof. exact igd_ref_zero. Qed.

(* ---------- non-negativity ---------- *)
Theorem c16_gd_nonneg : forall nobjs ref set c st0 ts n, accepted nobjs ref set c st0 ->
  gd_indicator nobjs ref set = Ok (ITerms ts n) ->
  (forall t, In t ts -> 0 <= t) /\ 0 <= qsum ts /\ n = length (feasible set) /\ (1 <= n)%nat.
Proof. exact gd_nonneg. Qed.

Theorem c16_igd_nonneg : forall nobjs ref set c st0 ts n, accepted nobjs ref set c st0 ->
  igd_indicator nobjs ref set = Ok (ITerms ts n) ->
  (forall t, In t ts -> 0 <= t) /\ 0 <= qsum ts /\ n = length (feasible ref) /\ (1 <= n)%nat.
Proof. exact igd_nonneg. Qed.

Theorem c16_spacing_nonneg : forall set q, spacing_calculate set = Ok q -> 0 <= q.
Proof. exact spacing_model_nonneg. Qed.

(* ---------- epsilon never decreases when members get worse ---------- *)
Theorem c16_eps_monotone_worse : forall nobjs dirs ref set set' c st0 e e',
  accepted nobjs ref set c st0 -> accepted nobjs ref set' c st0 -> length dirs = nobjs ->
  Forall2 (raw_worse dirs) set set' ->
  eps_indicator nobjs dirs ref set = Ok (XFin e) -> eps_indicator nobjs dirs ref set' = Ok (XFin e') -> e <= e'.
Proof. exact eps_monotone_worse. Qed.

(* ---------- +infinity exactly without a feasible member ---------- *)
Theorem c16_no_feasible_member_inf : forall nobjs dirs ref set c st0, accepted nobjs ref set c st0 -> length dirs = nobjs ->
  (feasible set = [] ->
     eps_indicator nobjs dirs ref set = Ok XInf /\ gd_indicator nobjs ref set = Ok IInf /\
     igd_indicator nobjs ref set = Ok IInf) /\
  (feasible set <> [] ->
     (exists e, eps_indicator nobjs dirs ref set = Ok (XFin e)) /\
     (exists ts n, gd_indicator nobjs ref set = Ok (ITerms ts n)) /\
     (exists ts n, igd_indicator nobjs ref set = Ok (ITerms ts n))).
Proof. exact no_feasible_member_inf. Qed.

(* ---------- no value depends on the order of the solutions ---------- *)
Theorem c16_eps_set_order : forall nobjs dirs ref set set' c st0, accepted nobjs ref set c st0 -> length dirs = nobjs ->
  Permutation set set' ->
  match eps_indicator nobjs dirs ref set, eps_indicator nobjs dirs ref set' with
  | Ok XInf, Ok XInf => True
  | Ok (XFin e), Ok (XFin e') => e == e'
  | _, _ => False
  end.
Proof. exact eps_set_order. Qed.

Theorem c16_eps_ref_order : forall nobjs dirs ref ref' set c c' st0 st0',
  accepted nobjs ref set c st0 -> accepted nobjs ref' set c' st0' -> length dirs = nobjs -> Permutation ref ref' ->
  match eps_indicator nobjs dirs ref set, eps_indicator nobjs dirs ref' set with
  | Ok XInf, Ok XInf => True
  | Ok (XFin e), Ok (XFin e') => e == e'
  | _, _ => False
  end.
Proof. exact eps_ref_order. Qed.

Theorem c16_gd_set_order : forall nobjs ref set set' c st0, accepted nobjs ref set c st0 -> Permutation set set' ->
  match gd_indicator nobjs ref set, gd_indicator nobjs ref set' with
  | Ok IInf, Ok IInf => True
  | Ok (ITerms ts n), Ok (ITerms ts' n') => peq ts ts' /\ n = n'
  | _, _ => False
  end.
Proof. exact gd_set_order. Qed.

Theorem c16_gd_ref_order : forall nobjs ref ref' set c c' st0 st0',
  accepted nobjs ref set c st0 -> accepted nobjs ref' set c' st0' -> Permutation ref ref' ->
  match gd_indicator nobjs ref set, gd_indicator nobjs ref' set with
  | Ok IInf, Ok IInf => True
  | Ok (ITerms ts n), Ok (ITerms ts' n') => peq ts ts' /\ n = n'
  | _, _ => False
  end.
Proof. exact gd_ref_order. Qed.

Theorem c16_igd_set_order : forall nobjs ref set set' c st0, accepted nobjs ref set c st0 -> Permutation set set' ->
  match igd_indicator nobjs ref set, igd_indicator nobjs ref set' with
  | Ok IInf, Ok IInf => True
  | Ok (ITerms ts n), Ok (ITerms ts' n') => peq ts ts' /\ n = n'
  | _, _ => False
  end.
Proof. exact igd_set_order. Qed.

Theorem c16_igd_ref_order : forall nobjs ref ref' set c c' st0 st0',
  accepted nobjs ref set c st0 -> accepted nobjs ref' set c' st0' -> Permutation ref ref' ->
  match igd_indicator nobjs ref set, igd_indicator nobjs ref' set with
  | Ok IInf, Ok IInf => True
  | Ok (ITerms ts n), Ok (ITerms ts' n') => peq ts ts' /\ n = n'
  | _, _ => False
  end.
Proof. exact igd_ref_order. Qed.

(* any symmetric function of the terms (sum t_i for d = 2, sum sqrt t_i for d = 1) is the same *)
Theorem c16_peq_sum : forall l l', peq l l' -> qsum l == qsum l' /\ length l = length l'.
Proof. exact peq_sum_length. Qed.

Theorem c16_spacing_order : forall nobjs set set' q q', (forall s, In s (feasible set) -> length (s_objs s) = nobjs) ->
  Permutation set set' -> spacing_calculate set = Ok q -> spacing_calculate set' = Ok q' -> q == q'.
Proof. exact spacing_order. Qed.

(* ---------- the textbook functions themselves ---------- *)
Theorem c16_eps_textbook_self : forall n dirs V, (1 <= n)%nat -> length dirs = n -> V <> [] ->
  (forall v, In v V -> length v = n) -> eps_textbook dirs V V == 0.
Proof. exact eps_textbook_self. Qed.

Theorem c16_eps_textbook_monotone : forall n dirs R S S', length dirs = n ->
  (forall r, In r R -> length r = n) -> (forall s, In s S -> length s = n) ->
  Forall2 (vworse dirs) S S' -> eps_textbook dirs R S <= eps_textbook dirs R S'.
Proof. exact eps_textbook_monotone. Qed.

(* ---------- the hypotheses are satisfiable; directions matter ---------- *)
Theorem c16_hypotheses_satisfiable :
  exists c st0, accepted 2 ex16_ref ex16_set c st0 /\ i_min c = [0; 0] /\ i_max c = [4; 2].
Proof. exact ex16_accepted. Qed.

Theorem c16_example_values :
  xval_is (eps_indicator 2 [true; false] ex16_ref ex16_set) (-1 # 4) = true /\
  terms_are (gd_indicator 2 ex16_ref ex16_set) [1#16; 0; 5#16] 3 = true /\
  terms_are (igd_indicator 2 ex16_ref ex16_set) [5#16; 5#16; 0] 3 = true /\
  (match spacing_calculate ex16_set with Ok q => Qeq_bool q (16 # 3) | _ => false end) = true /\
  xval_is (eps_indicator 2 [true; false] ex16_ref [ISol 0 [1#2;1] 0; ISol 102 [2;1] 0; ISol 1 [3;1#2] 0; ISol 2 [0;0] (1#2)]) (1 # 4) = true.
Proof. exact ex16_values. Qed.

Theorem c16_directions_matter :
  xval_is (eps_indicator 2 [true; true] [ISol 100 [0;1] 0; ISol 101 [1;0] 0] [ISol 0 [1#2;0] 0; ISol 1 [0;1#2] 0]) (1 # 2) = true /\
  xval_is (eps_indicator 2 [false; false] [ISol 100 [0;1] 0; ISol 101 [1;0] 0] [ISol 0 [1#2;0] 0; ISol 1 [0;1#2] 0]) 0 = true.
Proof. exact ex16_directions_matter. Qed.

(* ---------- no dependence on earlier indicator calls (repaired code, fixes/acef3b8.diff) ----------
   calculate of an indicator object (state c from its constructor) gives the textbook value from
   EVERY prior content st of the objects' normalized_objectives attributes, i.e. whatever other
   indicators did to the shared Solution objects between construction and this call *)
Theorem c16_eps_any_prior_store : forall nobjs dirs ref set c st0 st,
  accepted nobjs ref set c st0 -> length dirs = nobjs ->
  exists st', eps_calculate true nobjs dirs c st set =
  Ok (match feasible set with
      | [] => XInf
      | _ => XFin (eps_textbook dirs (map (normed c) (feasible ref)) (map (normed c) (feasible set)))
      end, st').
Proof. exact eps_calc_unfold. Qed.

Theorem c16_gd_any_prior_store : forall nobjs ref set c st0 st, accepted nobjs ref set c st0 ->
  exists st', gd_calculate true nobjs c st set =
  Ok (match feasible set with
      | [] => IInf
      | _ => ITerms (gd_terms_textbook (map (normed c) (feasible ref)) (map (normed c) (feasible set)))
                    (length (feasible set))
      end, st').
Proof. exact gd_calc_unfold. Qed.

Theorem c16_igd_any_prior_store : forall nobjs ref set c st0 st, accepted nobjs ref set c st0 ->
  exists st', igd_calculate true nobjs c st set =
  Ok (match feasible set with
      | [] => IInf
      | _ => ITerms (gd_terms_textbook (map (normed c) (feasible set)) (map (normed c) (feasible ref)))
                    (length (feasible ref))
      end, st').
Proof. exact igd_calc_unfold. Qed.

Theorem c16_calculate_store_independent : forall nobjs dirs ref set c st0 st1 st2,
  accepted nobjs ref set c st0 -> length dirs = nobjs ->
  (exists v s1 s2, eps_calculate true nobjs dirs c st1 set = Ok (v, s1) /\ eps_calculate true nobjs dirs c st2 set = Ok (v, s2)) /\
  (exists v s1 s2, gd_calculate true nobjs c st1 set = Ok (v, s1) /\ gd_calculate true nobjs c st2 set = Ok (v, s2)) /\
  (exists v s1 s2, igd_calculate true nobjs c st1 set = Ok (v, s1) /\ igd_calculate true nobjs c st2 set = Ok (v, s2)).
Proof. exact calculate_store_independent. Qed.

(* the code before the repair (flag rn = false) read stale attributes: after the construction of
   a second indicator sharing object 100, GD / IGD of the same arguments change; with rn = true
   they do not *)
Theorem c16_prerepair_shared_reference_objects_refuted :
  terms_are (gd_indicator 2 hd_ref hd_set) [1#8; 1#8] 2 = true /\
  terms_are (after_second_constructor (fun c st => gd_calculate false 2 c st hd_set)) [5#16; 1#8] 2 = true /\
  terms_are (after_second_constructor (fun c st => gd_calculate true 2 c st hd_set)) [1#8; 1#8] 2 = true /\
  terms_are (igd_indicator 2 hd_ref hd_set) [1#8; 1#8; 5#16] 3 = true /\
  terms_are (after_second_constructor (fun c st => igd_calculate false 2 c st hd_set)) [5#16; 1#8; 5#16] 3 = true /\
  terms_are (after_second_constructor (fun c st => igd_calculate true 2 c st hd_set)) [1#8; 1#8; 5#16] 3 = true.
Proof. exact prerepair_shared_reference_objects_refuted. Qed.
