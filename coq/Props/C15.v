(* C15 — hypervolume is the exact dominated volume, monotone, order/duplicate invariant.
   Only statements; every proof is [exact lemma].  All statements are about exact rational
   arithmetic (float rounding is not modelled).

   Vocabulary (Model/Hypervolume.v):
     hv_calculate repaired / hv_indicator repaired   literal model of Hypervolume.calculate (repaired code)
     calc_internal                                   literal model of the recursive slicing on an array with swaps
     hv_spec d P        measure of the union of the boxes [0,p], p in P, first d coordinates
     spec_points        the points the English statement selects (feasible, normalised, not worse
                        than the nadir, clipped at the ideal, goodness coordinates)
     nnpt / nnP         all coordinates >= 0;   cover d A B: every box of A lies in a box of B
     wf_set n l         vectors have n entries and equal sid means the same object (same fields)
     hv_pre             >= 2 objectives, vectors of that length, bounds that normalize accepts *)
From Coq Require Import ZArith QArith Bool List Permutation.
Import ListNotations.
From PV Require Import Base.Num Model.Indicators Model.Hypervolume Proofs.IndicatorsProofs Proofs.HypervolumeProofs.
Open Scope Q_scope.

(* ---------- hv_exact: calculate = hv_spec, every number of objectives >= 2 ---------- *)
Theorem c15_hv_exact : forall nobjs dirs mins maxs st set,
  (2 <= nobjs)%nat -> length dirs = nobjs -> length mins = nobjs -> length maxs = nobjs ->
  empty_range nobjs mins maxs = Ok false -> wf_set nobjs (feasible set) ->
  exists v st', hv_calculate repaired nobjs dirs mins maxs st set = Ok (v, st') /\
                v == hv_spec nobjs (spec_points dirs mins maxs set).
Proof. exact hv_exact. Qed.

Theorem c15_hv_exact_explicit_bounds : forall nobjs dirs mins maxs set,
  hv_pre nobjs dirs mins maxs -> wf_set nobjs (feasible set) ->
  exists v, hv_indicator repaired nobjs dirs (inl (mins, maxs)) set = Ok v /\
            v == hv_spec nobjs (spec_points dirs mins maxs set).
Proof. exact hv_exact_bounds. Qed.

Theorem c15_hv_exact_reference_set : forall nobjs dirs ref set c st0,
  (2 <= nobjs)%nat -> length dirs = nobjs -> ind_make nobjs [] ref = Ok (c, st0) ->
  wf_set nobjs (feasible set) ->
  exists v, hv_indicator repaired nobjs dirs (inr ref) set = Ok v /\
            v == hv_spec nobjs (spec_points dirs (i_min c) (i_max c) set).
Proof. exact hv_exact_refset. Qed.

(* the recursive slicing alone: never out of fuel, value = hv_spec of the active prefix,
   only the active prefix is permuted *)
Theorem c15_calc_internal_refines : forall D a n, (2 <= D)%nat -> (n <= length a)%nat -> nnA a ->
  exists v a', calc_internal D a n = Ok (v, a') /\ v == hv_spec D (firstn n a) /\
               frame a a' n /\ same_zone a a' n.
Proof. exact calc_internal_ok. Qed.

(* ---------- the specification, all dimensions ---------- *)
Theorem c15_spec_range : forall d P,
  nnP P -> (forall p i, In p P -> (i < d)%nat -> coord p i <= 1) -> 0 <= hv_spec d P <= 1.
Proof. exact hv_spec_range. Qed.

Theorem c15_spec_perm : forall d A B, nnP A -> Permutation A B -> hv_spec d A == hv_spec d B.
Proof. exact hv_spec_perm. Qed.

Theorem c15_spec_box_inclusion : forall d A B, nnP A -> nnP B -> cover d A B -> hv_spec d A <= hv_spec d B.
Proof. exact hv_cover. Qed.

Theorem c15_spec_dominated : forall d P1 P2 p q,
  nnP (P1 ++ P2) -> nnpt p -> In q (P1 ++ P2) -> (forall i, (i < d)%nat -> coord p i <= coord q i) ->
  hv_spec d (P1 ++ p :: P2) == hv_spec d (P1 ++ P2).
Proof. exact hv_spec_dominated. Qed.

Theorem c15_spec_duplicate : forall d P1 P2 p q,
  nnP (P1 ++ P2) -> In q (P1 ++ P2) -> (forall i, (i < d)%nat -> coord p i == coord q i) -> nnpt p ->
  hv_spec d (P1 ++ p :: P2) == hv_spec d (P1 ++ P2).
Proof. exact hv_spec_duplicate. Qed.

Theorem c15_spec_repeated : forall d P1 P2 p,
  nnP (P1 ++ P2) -> In p (P1 ++ P2) -> hv_spec d (P1 ++ p :: P2) == hv_spec d (P1 ++ P2).
Proof. exact hv_spec_repeated. Qed.

Theorem c15_spec_monotone : forall d P1 P2 p,
  nnP (P1 ++ P2) -> nnpt p -> hv_spec d (P1 ++ P2) <= hv_spec d (P1 ++ p :: P2).
Proof. exact hv_spec_monotone. Qed.

(* hv_spec is the measure of the union of boxes: no box = 0, one box = product of its sides,
   and mu(A u box p) = mu(A) + mu(box p) - mu(A n box p)  (these three determine it) *)
Theorem c15_spec_empty : forall d, hv_spec d [] = 0.
Proof. exact hv_nil. Qed.

Theorem c15_spec_single_box : forall d p, hv_spec d [p] == boxvol d p.
Proof. exact hv_single. Qed.

Theorem c15_spec_inclusion_exclusion : forall d p P, nnpt p -> nnP P ->
  hv_spec d (p :: P) == hv_spec d P + boxvol d p - hv_spec d (map (pmin p) P).
Proof. exact hv_incl_excl. Qed.

(* ---------- user-facing corollaries about calculate ---------- *)
Theorem c15_calculate_range : forall nobjs dirs mins maxs st set,
  hv_pre nobjs dirs mins maxs -> wf_set nobjs (feasible set) ->
  exists v st', hv_calculate repaired nobjs dirs mins maxs st set = Ok (v, st') /\ 0 <= v <= 1.
Proof. exact hv_calc_range. Qed.

Theorem c15_calculate_order_invariant : forall nobjs dirs mins maxs st st0 set set',
  hv_pre nobjs dirs mins maxs -> wf_set nobjs (feasible set) -> Permutation set set' ->
  exists v st1 v' st1', hv_calculate repaired nobjs dirs mins maxs st set = Ok (v, st1) /\
    hv_calculate repaired nobjs dirs mins maxs st0 set' = Ok (v', st1') /\ v == v'.
Proof. exact hv_calc_perm. Qed.

Theorem c15_calculate_monotone : forall nobjs dirs mins maxs st st0 l1 l2 s,
  hv_pre nobjs dirs mins maxs -> wf_set nobjs (feasible (l1 ++ s :: l2)) ->
  exists v st1 v' st1', hv_calculate repaired nobjs dirs mins maxs st (l1 ++ l2) = Ok (v, st1) /\
    hv_calculate repaired nobjs dirs mins maxs st0 (l1 ++ s :: l2) = Ok (v', st1') /\ v <= v'.
Proof. exact hv_calc_monotone. Qed.

Theorem c15_calculate_dominated_invariant : forall nobjs dirs mins maxs st st0 l1 l2 s q,
  hv_pre nobjs dirs mins maxs -> (forall i, (i < nobjs)%nat -> nth i mins 0 < nth i maxs 0) ->
  wf_set nobjs (feasible (l1 ++ s :: l2)) ->
  In q (feasible (l1 ++ l2)) -> no_better dirs s q ->
  exists v st1 v' st1', hv_calculate repaired nobjs dirs mins maxs st (l1 ++ l2) = Ok (v, st1) /\
    hv_calculate repaired nobjs dirs mins maxs st0 (l1 ++ s :: l2) = Ok (v', st1') /\ v == v'.
Proof. exact hv_calc_dominated. Qed.

Theorem c15_calculate_duplicate_invariant : forall nobjs dirs mins maxs st st0 l1 l2 s s',
  hv_pre nobjs dirs mins maxs -> wf_set nobjs (feasible (l1 ++ s' :: l2)) ->
  In s (l1 ++ l2) -> s_objs s' = s_objs s -> s_cv s' = s_cv s ->
  exists v st1 v' st1', hv_calculate repaired nobjs dirs mins maxs st (l1 ++ l2) = Ok (v, st1) /\
    hv_calculate repaired nobjs dirs mins maxs st0 (l1 ++ s' :: l2) = Ok (v', st1') /\ v == v'.
Proof. exact hv_calc_duplicate. Qed.

Theorem c15_calculate_repeated_invariant : forall nobjs dirs mins maxs st st0 l1 l2 s,
  hv_pre nobjs dirs mins maxs -> wf_set nobjs (feasible (l1 ++ l2)) -> In s (l1 ++ l2) ->
  exists v st1 v' st1', hv_calculate repaired nobjs dirs mins maxs st (l1 ++ l2) = Ok (v, st1) /\
    hv_calculate repaired nobjs dirs mins maxs st0 (l1 ++ s :: l2) = Ok (v', st1') /\ v == v'.
Proof. exact hv_calc_repeated. Qed.

(* ---------- the hypotheses are satisfiable; the pre-repair code differs ---------- *)
Theorem c15_hypotheses_satisfiable :
  hv_pre 3 ex_dirs [0;0;0] [1;1;1] /\ wf_set 3 (feasible ex_set) /\
  res_is (hv_indicator repaired 3 ex_dirs (inl ([0;0;0], [1;1;1])) ex_set) (33 # 64) = true /\
  hv_spec 3 ex_pts == 33 # 64 /\ length ex_pts = 5%nat.
Proof. exact ex_hv_exact_hypotheses. Qed.

Theorem c15_prerepair_direction_handling_differs :
  res_is (hv_indicator (HvFlags false true) 2 [true; true] (inl ([0;0], [1;1])) [ISol 0 [2; 1#2] 0]) 0 = true /\
  hv_spec 2 (spec_points [true; true] [0;0] [1;1] [ISol 0 [2; 1#2] 0]) == 1 # 2 /\
  res_is (hv_indicator repaired 2 [true; true] (inl ([0;0], [1;1])) [ISol 0 [2; 1#2] 0]) (1 # 2) = true /\
  res_is (hv_indicator (HvFlags false true) 2 [true; true] (inl ([0;0], [1;1]))
            [ISol 0 [-1#2; 1#2] 0; ISol 1 [1#4; 1#4] 0]) (-1 # 16) = true /\
  hv_spec 2 (spec_points [true; true] [0;0] [1;1] [ISol 0 [-1#2; 1#2] 0; ISol 1 [1#4; 1#4] 0]) == 1 # 16.
Proof. exact prerepair_direction_differs. Qed.

Theorem c15_prerepair_repeated_object_differs :
  res_is (hv_indicator (HvFlags true false) 2 [false; false] (inl ([0;0], [1;1]))
            [ISol 0 [1#4; 1#4] 0; ISol 0 [1#4; 1#4] 0]) (1 # 16) = true /\
  hv_spec 2 (spec_points [false; false] [0;0] [1;1] [ISol 0 [1#4; 1#4] 0; ISol 0 [1#4; 1#4] 0]) == 9 # 16 /\
  res_is (hv_indicator repaired 2 [false; false] (inl ([0;0], [1;1]))
            [ISol 0 [1#4; 1#4] 0; ISol 0 [1#4; 1#4] 0]) (9 # 16) = true.
Proof. exact prerepair_repeated_differs. Qed.
