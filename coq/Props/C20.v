(* C20 — linear solver and symmetric eigendecomposition.
   Only statements; every proof is [exact lemma].

   What is PROVED (exact arithmetic over Q; rounding is not modelled):
     * lsolve (Gaussian elimination with partial pivoting, the literal model of _math.py:76-119,
       one generic Gallina function also run at binary64 for the bit-exact correspondence):
       a returned x satisfies A x = b for the ORIGINAL A, b and is the unique solution; a matrix
       with a non-trivial kernel is reported Singular for every threshold >= 0; with threshold 0
       Singular is reported exactly for the singular matrices; ZeroDivisionError is unreachable.
     * the ordering phase of tql2 (_math.py:319-335): eigenvalues come out ascending and ONE
       permutation is applied to the eigenvalues and to the columns of V (so V diag(d) V^T and
       V^T V are unchanged by it).
   What is NOT proved: that tred2 + tql2 in floating point converge and return V, d with
   V diag(d) V^T = C (c20_eig_decomposition_partial below records the full statement).  That part
   is TESTED: bit-exact float model evaluated in Coq with an exact residual checker
   (Harness/H20.v) + Fraction-based oracle on the real code. *)
From Coq Require Import ZArith QArith List Bool.
From PV Require Import Base.Num Base.Order Model.LSolve Model.EigSort
                       Proofs.LSolveProofs Proofs.EigSortProofs.
Open Scope Q_scope.

(* Solved x  ->  A x = b *)
Theorem c20_lsolve_sound : forall eps A b x, 0 <= eps -> square_system A b ->
  lsolveQ eps A b = Solved x -> length x = length b /\ veq (mat_vec A x) b.
Proof. exact lsolve_sound. Qed.

Theorem c20_lsolve_unique : forall eps A b x z, 0 <= eps -> square_system A b ->
  lsolveQ eps A b = Solved x -> length z = length b -> veq (mat_vec A z) b -> veq z x.
Proof. exact lsolve_unique. Qed.

(* singular matrix (some y <> 0 with A y = 0)  ->  SingularError, any threshold >= 0, any b *)
Theorem c20_lsolve_singular : forall eps A b y, 0 <= eps -> square_system A b ->
  length y = length b -> veq (mat_vec A y) (zeros (length b)) -> ~ veq y (zeros (length b)) ->
  lsolveQ eps A b = Singular.
Proof. exact lsolve_singular. Qed.

(* threshold 0 and non-singular  ->  Solved *)
Theorem c20_lsolve_complete_eps0 : forall A b, square_system A b ->
  (forall y, length y = length b -> veq (mat_vec A y) (zeros (length b)) -> veq y (zeros (length b))) ->
  exists x, lsolveQ 0 A b = Solved x.
Proof. exact lsolve_complete_eps0. Qed.

Theorem c20_lsolve_eps0_singular_iff : forall A b, square_system A b ->
  (lsolveQ 0 A b = Singular <->
   exists y, length y = length b /\ veq (mat_vec A y) (zeros (length b)) /\ ~ veq y (zeros (length b))).
Proof. exact lsolve_eps0_singular_iff. Qed.

(* the two `/` of the code never divide by zero *)
Theorem c20_lsolve_no_divzero : forall eps A b, 0 <= eps -> square_system A b -> lsolveQ eps A b <> DivZero.
Proof. exact lsolve_no_divzero. Qed.

(* the code's threshold is admissible *)
Theorem c20_epsilon_nonneg : 0 <= EPSILON_Q.
Proof. exact (proj1 lsolve_sound_nonvacuous). Qed.

Close Scope Q_scope.
Open Scope nat_scope.

Section C20_sort.
  Variable T : Type.
  Variable dflt : T.
  Variable ltb : T -> T -> bool.
  Variable neg : T -> T.
  Hypothesis L : OrdLaws T ltb neg.

  (* eigenvalues ascending: no later entry is smaller than an earlier one *)
  Theorem c20_eig_sort_ascending : forall n d V, length d = n -> length V = n ->
    forall a b, a <= b < n ->
      ltb (at_ T dflt (fst (eig_sort T dflt ltb n d V)) b) (at_ T dflt (fst (eig_sort T dflt ltb n d V)) a) = false.
  Proof. exact (eig_sort_ascending T dflt ltb neg L). Qed.
End C20_sort.

(* one permutation p of 0..n-1 with d' = d o p and (row j of V') = (row j of V) o p for every row:
   eigenvalue k stays attached to column k.  Holds for ANY comparison function. *)
Theorem c20_eig_sort_consistent : forall (T : Type) (dflt : T) (ltb : T -> T -> bool) n d V,
  length d = n -> rows_ok T n V ->
  exists p, is_perm n p /\
    fst (eig_sort T dflt ltb n d V) = permute T dflt p d /\
    length (snd (eig_sort T dflt ltb n d V)) = n /\
    forall j, j < n -> nth j (snd (eig_sort T dflt ltb n d V)) nil = permute T dflt p (nth j V nil).
Proof. exact eig_sort_consistent. Qed.

(* the executable carrier of exact float values is an instance *)
Theorem c20_sort_instance_xq : OrdLaws xq xltb xneg.
Proof. exact xq_laws. Qed.

(* FULL statement, NOT proved (floating-point convergence/accuracy of Householder + implicit QL):
     forall n (C : symmetric n x n float matrix),
       tred2;tql2 C = (V, d)  ->  d ascending /\ ||V^T V - I|| <= c n u /\ ||V diag(d) V^T - C|| <= c n u ||C||.
   Proved part: the ordering clause and its consistency with the columns, for the sort phase,
   whatever the QL phase produced (the two theorems above); the rest is tested. *)
Theorem c20_eig_decomposition_partial : forall (T : Type) (dflt : T) (ltb : T -> T -> bool) (neg : T -> T),
  OrdLaws T ltb neg -> forall n d V, length d = n -> rows_ok T n V ->
  (forall a b, a <= b < n ->
      ltb (at_ T dflt (fst (eig_sort T dflt ltb n d V)) b) (at_ T dflt (fst (eig_sort T dflt ltb n d V)) a) = false) /\
  exists p, is_perm n p /\
    fst (eig_sort T dflt ltb n d V) = permute T dflt p d /\
    forall j, j < n -> nth j (snd (eig_sort T dflt ltb n d V)) nil = permute T dflt p (nth j V nil).
Proof. exact eig_decomposition_sort_part. Qed.
