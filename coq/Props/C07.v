(* C07 — the user's problem function is only ever called with in-domain arguments.
   Only statements; every proof is [exact lemma].

   ev_dom_dec t v : v is a valid DECODED value of type t (what the user function receives):
     Real: min <= v <= max (hence not NaN); Binary: list of booleans of the declared length;
     Integer: min <= v <= max; Permutation: a permutation of the declared elements;
     Subset: duplicate-free, of the declared size, drawn from the declared elements.
   ev_dom_enc t v : v is a valid ENCODED value (what solution.variables holds): the same, except
     Integer = a bit list of length nbits.
   Explicit hypotheses: the candidate handed to the PSO clamp / the CMA-ES range test is not NaN
   (NaN-freeness of the velocity and covariance arithmetic is NOT proved; pso_nan_passes shows the
   clamp lets a NaN through); variation operators preserve the encoded domain (C06's validity
   theorems) enters the skeleton invariant as the hypothesis [Op_dom]. *)
From Coq Require Import ZArith Bool List Sorting.Permutation.
From PV Require Import Model.Evaluate Model.AlgSkeleton Model.AlgSteps Proofs.EvaluateProofs Proofs.AlgSkeletonProofs Proofs.AlgStepsProofs.
Open Scope Z_scope.

(* the boolean evaluated on every logged call decides the domain predicate *)
Theorem c07_in_domain_b_sound : forall types args, in_domain_b types args = true ->
  Forall ev_wf_ty types /\ Forall2 ev_dom_dec types args.
Proof. exact in_domain_b_sound. Qed.

(* Type.rand *)
Theorem c07_rand_real_in_domain : forall lb ub r, ev_leb lb r = true -> ev_leb r ub = true ->
  ev_dom_enc (TReal lb ub) (rand_real r).
Proof. exact rand_real_in_domain. Qed.

Theorem c07_rand_binary_in_domain : forall n tape v, rand_binary n tape = Some v -> ev_dom_enc (TBinary n) v.
Proof. exact rand_binary_in_domain. Qed.

Theorem c07_rand_integer_in_domain : forall mn mx k z, ev_wf_ty (TInteger mn mx k) -> mn <= z <= mx ->
  ev_dom_enc (TInteger mn mx k) (rand_integer (TInteger mn mx k) z) /\
  ev_decode (TInteger mn mx k) (rand_integer (TInteger mn mx k) z) = VInt z.
Proof. exact rand_integer_in_domain. Qed.

Theorem c07_rand_perm_in_domain : forall els p, Permutation (seq 0 (length els)) p -> ev_dom_enc (TPerm els) (rand_perm els p).
Proof. exact rand_perm_in_domain. Qed.

Theorem c07_rand_subset_in_domain : forall els k p, ev_wf_ty (TSubset els k) ->
  Permutation (seq 0 (length els)) p -> ev_dom_enc (TSubset els k) (rand_subset els k p).
Proof. exact rand_subset_in_domain. Qed.

(* Type.decode: every valid encoded value — for Integer EVERY bit list of the declared length — decodes into the domain *)
Theorem c07_decode_in_domain : forall t v, ev_wf_ty t -> ev_dom_enc t v -> ev_dom_dec t (ev_decode t v).
Proof. exact decode_in_domain. Qed.

Theorem c07_integer_decode_in_range : forall mn mx k g, ev_wf_ty (TInteger mn mx k) -> length g = k ->
  exists z, ev_decode (TInteger mn mx k) (VBits g) = VInt z /\ mn <= z <= mx.
Proof. exact ev_decode_integer_range. Qed.

Theorem c07_encode_in_domain : forall t v, ev_dom_dec t v -> ev_dom_enc t (ev_encode t v).
Proof. exact encode_in_domain. Qed.

(* ParticleSwarm._update_positions: clamp + velocity reflection *)
Theorem c07_pso_position_in_domain : forall lb ub value vel, ev_leb lb ub = true -> ev_isnan value = false ->
  ev_dom_enc (TReal lb ub) (VNum (fst (pso_clamp lb ub value vel))).
Proof. exact pso_position_in_domain. Qed.

Theorem c07_pso_velocity_reflected : forall lb ub value vel,
  snd (pso_clamp lb ub value vel) = if ev_ltb value lb || ev_ltb ub value then ev_neg vel else vel.
Proof. exact pso_velocity_reflected. Qed.

Theorem c07_pso_update_positions_in_domain : forall types values vels,
  Forall2 (fun t v => exists lb ub, t = TReal lb ub /\ ev_leb lb ub = true /\ ev_isnan v = false) types values ->
  length vels = length values ->
  Forall2 ev_dom_enc types (fst (pso_update_positions types values vels)).
Proof. exact pso_update_positions_in_domain. Qed.

(* CMAES.sample: whatever the rejection loop returns is inside the box *)
Theorem c07_cmaes_sample_in_domain : forall fuel types tape v,
  Forall ev_wf_ty types -> Forall (Forall (fun x => ev_isnan x = false)) tape ->
  cma_sample fuel types tape = Some v -> Forall2 ev_dom_enc types v.
Proof. exact cmaes_sample_in_domain. Qed.

Theorem c07_cmaes_accepts_inside : forall types cand,
  Forall2 (fun t x => ev_dom_enc t (VNum x)) types cand -> exists v, cma_try types cand = Some v.
Proof. exact cma_try_accepts. Qed.

(* default operators: the operator chosen for a type list acts on a class every variable is an instance of *)
Theorem c07_default_variator_applicable : forall ts o, default_variator ts = Some o ->
  Forall (fun t => isinst t (op_acts_on o) = true) ts.
Proof. exact default_variator_applicable. Qed.

Theorem c07_default_mutator_applicable : forall ts o, default_mutator ts = Some o ->
  Forall (fun t => isinst t (op_acts_on o) = true) ts.
Proof. exact default_mutator_applicable. Qed.

Theorem c07_default_mixed_rejected : forall reg ts,
  (exists a b, In a ts /\ In b ts /\ isinst a b = false /\ isinst b a = false) -> default_op reg ts = None.
Proof. exact default_mixed_rejected. Qed.

Theorem c07_default_integer_binary : forall n, (0 < n)%nat ->
  default_variator (repeat KInteger n) = Some Op_HUX_BitFlip /\ default_mutator (repeat KInteger n) = Some Op_BitFlip.
Proof. exact default_integer_binary. Qed.

(* the skeleton invariant: every solution submitted to evaluate_all is in the encoded domain and every
   argument vector the user function receives is in the domain, at every step of every trace
   (restarts are batches of a step; injected initial solutions are the initial pool) *)
Section C07skeleton.
  Variable types : list ev_ty.
  Variable tab : list ev_call.
  Variable cs : list ev_cdecl.
  Hypothesis types_wf : Forall ev_wf_ty types.
  (* the producers the algorithm uses: Type.rand through a generator, variation operators,
     the PSO position update, the CMA-ES sampler, copy.deepcopy *)
  Variable Op : list ev_sol -> ev_sol -> Prop.
  Hypothesis Op_dom : forall ps c, Forall (ev_EncOK types) ps -> Op ps c -> ev_EncOK types c.

  Theorem c07_calls_in_domain : forall ev sts pool,
    ev_spec ev_val ev_num ev_ty ev_decode ev_encode (ev_lookup tab) (ev_cfuns cs) ev_abs ev_add ev_zero ev_iszero types ev ->
    Forall (ev_EncOK types) pool ->
    stepsD_ok ev_val ev_num Op ev pool sts ->
    Forall (Forall2 ev_dom_dec types) (all_calls ev_val ev_num ev_ty ev_decode types sts).
  Proof. exact (ev_calls_in_domain types tab cs types_wf Op Op_dom). Qed.
End C07skeleton.

Section C07generic.
  Variable Val : Type.
  Variable Num : Type.
  Variable Ty  : Type.
  Variable decode : Ty -> Val -> Val.
  Variable encode : Ty -> Val -> Val.
  Variable F : list Val -> list Num * list Num.
  Variable C : list (Num -> Num).
  Variable nabs : Num -> Num.
  Variable nadd : Num -> Num -> Num.
  Variable nzero : Num.
  Variable niszero : Num -> bool.
  Variable types : list Ty.
  Variable dom_enc : Ty -> Val -> Prop.
  Variable dom_dec : Ty -> Val -> Prop.
  Variable Op : list (sol Val Num) -> sol Val Num -> Prop.
  Hypothesis decode_dom : forall t v, In t types -> dom_enc t v -> dom_dec t (decode t v).
  Hypothesis encode_dom : forall t v, In t types -> dom_dec t v -> dom_enc t (encode t v).
  Hypothesis Op_dom : forall ps c, Forall (EncOK Val Num Ty types dom_enc) ps -> Op ps c -> EncOK Val Num Ty types dom_enc c.

  Theorem c07_submitted_in_domain : forall ev pool b,
    ev_spec Val Num Ty decode encode F C nabs nadd nzero niszero types ev ->
    Forall (EncOK Val Num Ty types dom_enc) pool -> batchD_ok Val Num Op ev pool b ->
    Forall (EncOK Val Num Ty types dom_enc) (b_before b).
  Proof. exact (submitted_in_domain Val Num Ty decode encode F C nabs nadd nzero niszero types dom_enc dom_dec Op decode_dom encode_dom Op_dom). Qed.
End C07generic.

(* ------------------------------------------------------------------------- *)
(* The step functions of the algorithms (Model/AlgSteps.v) keep the C07 invariant: if everything exposed is in
   the encoded domain, then every solution handed to evaluate_all in the step is, every argument vector the user
   function receives is in the domain, and everything exposed afterwards is again in the encoded domain.
   Hypotheses: the contracts of the abstract components (variators/mutators preserve the domain = C06;
   move = c07_pso_update_positions_in_domain and sample = c07_cmaes_sample_in_domain under the non-NaN
   hypothesis; generator = c07_rand_*_in_domain; decode/encode = c07_decode_in_domain / c07_encode_in_domain). *)

(* GeneticAlgorithm.initialize *)
Theorem c07_ga_initialize_step_in_domain :
    forall (Val Num Ty : Type) (decode encode : Ty -> Val -> Val) (F : list Val -> list Num * list Num)
         (C : list (Num -> Num)) (nabs : Num -> Num) (nadd : Num -> Num -> Num) (nzero : Num) 
         (niszero : Num -> bool) (types : list Ty) (ev : list (sol Val Num) -> list (jobres Val Num)) 
         (T : Type) (vary : T -> list (sol Val Num) -> list (sol Val Num))
         (mutate move : T -> sol Val Num -> sol Val Num) (sample : T -> sol Val Num) (Gen : sol Val Num -> Prop)
         (sortf : list (sol Val Num) -> list (sol Val Num)),
       ev_spec Val Num Ty decode encode F C nabs nadd nzero niszero types ev ->
       (forall l : list (sol Val Num), incl (sortf l) l) ->
       forall dom_enc dom_dec : Ty -> Val -> Prop,
       (forall (t : Ty) (v : Val), In t types -> dom_enc t v -> dom_dec t (decode t v)) ->
       (forall (t : Ty) (v : Val), In t types -> dom_dec t v -> dom_enc t (encode t v)) ->
       (forall (t : T) (ps : list (sol Val Num)) (c : sol Val Num),
        Forall (EncOK Val Num Ty types dom_enc) ps -> In c (vary t ps) -> EncOK Val Num Ty types dom_enc c) ->
       (forall (t : T) (p : sol Val Num),
        EncOK Val Num Ty types dom_enc p -> EncOK Val Num Ty types dom_enc (mutate t p)) ->
       (forall (t : T) (p : sol Val Num),
        EncOK Val Num Ty types dom_enc p -> EncOK Val Num Ty types dom_enc (move t p)) ->
       (forall t : T, EncOK Val Num Ty types dom_enc (sample t)) ->
       (forall s : sol Val Num, Gen s -> EncOK Val Num Ty types dom_enc s) ->
       forall injected gen : list (sol Val Num),
       generated Val Num Gen injected gen ->
       Forall (EncOK Val Num Ty types dom_enc) injected ->
       Forall (fun b : batch Val Num => Forall (EncOK Val Num Ty types dom_enc) (b_before b))
         (snd (ga_initialize Val Num ev sortf gen)) /\
       Forall (InDomain Val Ty types dom_dec)
         (flat_map (calls_of Val Num Ty decode types) (snd (ga_initialize Val Num ev sortf gen))) /\
       Forall (EncOK Val Num Ty types dom_enc) (ga_exposed Val Num (fst (ga_initialize Val Num ev sortf gen))).
Proof. exact ga_initialize_step_in_domain. Qed.

(* GeneticAlgorithm.iterate *)
Theorem c07_ga_step_in_domain :
    forall (Val Num Ty : Type) (decode encode : Ty -> Val -> Val) (F : list Val -> list Num * list Num)
         (C : list (Num -> Num)) (nabs : Num -> Num) (nadd : Num -> Num -> Num) (nzero : Num) 
         (niszero : Num -> bool) (types : list Ty) (ev : list (sol Val Num) -> list (jobres Val Num)) 
         (T : Type) (vary : T -> list (sol Val Num) -> list (sol Val Num))
         (mutate move : T -> sol Val Num -> sol Val Num) (sample : T -> sol Val Num) (Gen : sol Val Num -> Prop)
         (survive : list (sol Val Num) -> list (sol Val Num)),
       ev_spec Val Num Ty decode encode F C nabs nadd nzero niszero types ev ->
       (forall l : list (sol Val Num), incl (survive l) l) ->
       forall dom_enc dom_dec : Ty -> Val -> Prop,
       (forall (t : Ty) (v : Val), In t types -> dom_enc t v -> dom_dec t (decode t v)) ->
       (forall (t : Ty) (v : Val), In t types -> dom_dec t v -> dom_enc t (encode t v)) ->
       (forall (t : T) (ps : list (sol Val Num)) (c : sol Val Num),
        Forall (EncOK Val Num Ty types dom_enc) ps -> In c (vary t ps) -> EncOK Val Num Ty types dom_enc c) ->
       (forall (t : T) (p : sol Val Num),
        EncOK Val Num Ty types dom_enc p -> EncOK Val Num Ty types dom_enc (mutate t p)) ->
       (forall (t : T) (p : sol Val Num),
        EncOK Val Num Ty types dom_enc p -> EncOK Val Num Ty types dom_enc (move t p)) ->
       (forall t : T, EncOK Val Num Ty types dom_enc (sample t)) ->
       (forall s : sol Val Num, Gen s -> EncOK Val Num Ty types dom_enc s) ->
       forall (tape : list (list nat * T)) (st : ga_st Val Num),
       Forall (EncOK Val Num Ty types dom_enc) (ga_exposed Val Num st) ->
       Forall (fun b : batch Val Num => Forall (EncOK Val Num Ty types dom_enc) (b_before b))
         (snd (ga_iterate Val Num ev T vary survive tape st)) /\
       Forall (InDomain Val Ty types dom_dec)
         (flat_map (calls_of Val Num Ty decode types) (snd (ga_iterate Val Num ev T vary survive tape st))) /\
       Forall (EncOK Val Num Ty types dom_enc)
         (ga_exposed Val Num (fst (ga_iterate Val Num ev T vary survive tape st))).
Proof. exact ga_step_in_domain. Qed.

(* EvolutionaryStrategy.iterate *)
Theorem c07_es_step_in_domain :
    forall (Val Num Ty : Type) (decode encode : Ty -> Val -> Val) (F : list Val -> list Num * list Num)
         (C : list (Num -> Num)) (nabs : Num -> Num) (nadd : Num -> Num -> Num) (nzero : Num) 
         (niszero : Num -> bool) (types : list Ty) (ev : list (sol Val Num) -> list (jobres Val Num)) 
         (T : Type) (vary : T -> list (sol Val Num) -> list (sol Val Num))
         (mutate move : T -> sol Val Num -> sol Val Num) (sample : T -> sol Val Num) (Gen : sol Val Num -> Prop)
         (survive : list (sol Val Num) -> list (sol Val Num)),
       ev_spec Val Num Ty decode encode F C nabs nadd nzero niszero types ev ->
       (forall l : list (sol Val Num), incl (survive l) l) ->
       forall dom_enc dom_dec : Ty -> Val -> Prop,
       (forall (t : Ty) (v : Val), In t types -> dom_enc t v -> dom_dec t (decode t v)) ->
       (forall (t : Ty) (v : Val), In t types -> dom_dec t v -> dom_enc t (encode t v)) ->
       (forall (t : T) (ps : list (sol Val Num)) (c : sol Val Num),
        Forall (EncOK Val Num Ty types dom_enc) ps -> In c (vary t ps) -> EncOK Val Num Ty types dom_enc c) ->
       (forall (t : T) (p : sol Val Num),
        EncOK Val Num Ty types dom_enc p -> EncOK Val Num Ty types dom_enc (mutate t p)) ->
       (forall (t : T) (p : sol Val Num),
        EncOK Val Num Ty types dom_enc p -> EncOK Val Num Ty types dom_enc (move t p)) ->
       (forall t : T, EncOK Val Num Ty types dom_enc (sample t)) ->
       (forall s : sol Val Num, Gen s -> EncOK Val Num Ty types dom_enc s) ->
       forall (ts : list T) (pop : list (sol Val Num)),
       Forall (EncOK Val Num Ty types dom_enc) pop ->
       Forall (fun b : batch Val Num => Forall (EncOK Val Num Ty types dom_enc) (b_before b))
         (snd (es_iterate Val Num ev T vary survive ts pop)) /\
       Forall (InDomain Val Ty types dom_dec)
         (flat_map (calls_of Val Num Ty decode types) (snd (es_iterate Val Num ev T vary survive ts pop))) /\
       Forall (EncOK Val Num Ty types dom_enc) (fst (es_iterate Val Num ev T vary survive ts pop)).
Proof. exact es_step_in_domain. Qed.

(* NSGAII.initialize (archive optional; also EpsMOEA / PAES / PESA2 / CMAES-style archive += population) *)
Theorem c07_nsga2_initialize_step_in_domain :
    forall (Val Num Ty : Type) (decode encode : Ty -> Val -> Val) (F : list Val -> list Num * list Num)
         (C : list (Num -> Num)) (nabs : Num -> Num) (nadd : Num -> Num -> Num) (nzero : Num) 
         (niszero : Num -> bool) (types : list Ty) (ev : list (sol Val Num) -> list (jobres Val Num)) 
         (T : Type) (vary : T -> list (sol Val Num) -> list (sol Val Num))
         (mutate move : T -> sol Val Num -> sol Val Num) (sample : T -> sol Val Num) (Gen : sol Val Num -> Prop)
         (arch_add : list (sol Val Num) -> sol Val Num -> list (sol Val Num)),
       ev_spec Val Num Ty decode encode F C nabs nadd nzero niszero types ev ->
       (forall (a : list (sol Val Num)) (s : sol Val Num), incl (arch_add a s) (s :: a)) ->
       forall dom_enc dom_dec : Ty -> Val -> Prop,
       (forall (t : Ty) (v : Val), In t types -> dom_enc t v -> dom_dec t (decode t v)) ->
       (forall (t : Ty) (v : Val), In t types -> dom_dec t v -> dom_enc t (encode t v)) ->
       (forall (t : T) (ps : list (sol Val Num)) (c : sol Val Num),
        Forall (EncOK Val Num Ty types dom_enc) ps -> In c (vary t ps) -> EncOK Val Num Ty types dom_enc c) ->
       (forall (t : T) (p : sol Val Num),
        EncOK Val Num Ty types dom_enc p -> EncOK Val Num Ty types dom_enc (mutate t p)) ->
       (forall (t : T) (p : sol Val Num),
        EncOK Val Num Ty types dom_enc p -> EncOK Val Num Ty types dom_enc (move t p)) ->
       (forall t : T, EncOK Val Num Ty types dom_enc (sample t)) ->
       (forall s : sol Val Num, Gen s -> EncOK Val Num Ty types dom_enc s) ->
       forall (injected : list (sol Val Num)) (arch0 : option (list (sol Val Num))) (gen : list (sol Val Num)),
       generated Val Num Gen injected gen ->
       incl (oarch Val Num arch0) injected ->
       Forall (EncOK Val Num Ty types dom_enc) injected ->
       Forall (fun b : batch Val Num => Forall (EncOK Val Num Ty types dom_enc) (b_before b))
         (snd (nsga2_initialize Val Num ev arch_add arch0 gen)) /\
       Forall (InDomain Val Ty types dom_dec)
         (flat_map (calls_of Val Num Ty decode types) (snd (nsga2_initialize Val Num ev arch_add arch0 gen))) /\
       Forall (EncOK Val Num Ty types dom_enc)
         (pa_exposed Val Num (fst (nsga2_initialize Val Num ev arch_add arch0 gen))).
Proof. exact nsga2_initialize_step_in_domain. Qed.

(* NSGAII.iterate (with or without archive) *)
Theorem c07_nsga2_step_in_domain :
    forall (Val Num Ty : Type) (decode encode : Ty -> Val -> Val) (F : list Val -> list Num * list Num)
         (C : list (Num -> Num)) (nabs : Num -> Num) (nadd : Num -> Num -> Num) (nzero : Num) 
         (niszero : Num -> bool) (types : list Ty) (ev : list (sol Val Num) -> list (jobres Val Num)) 
         (T : Type) (vary : T -> list (sol Val Num) -> list (sol Val Num))
         (mutate move : T -> sol Val Num -> sol Val Num) (sample : T -> sol Val Num) (Gen : sol Val Num -> Prop)
         (survive : list (sol Val Num) -> list (sol Val Num))
         (arch_add : list (sol Val Num) -> sol Val Num -> list (sol Val Num)),
       ev_spec Val Num Ty decode encode F C nabs nadd nzero niszero types ev ->
       (forall l : list (sol Val Num), incl (survive l) l) ->
       (forall (a : list (sol Val Num)) (s : sol Val Num), incl (arch_add a s) (s :: a)) ->
       forall dom_enc dom_dec : Ty -> Val -> Prop,
       (forall (t : Ty) (v : Val), In t types -> dom_enc t v -> dom_dec t (decode t v)) ->
       (forall (t : Ty) (v : Val), In t types -> dom_dec t v -> dom_enc t (encode t v)) ->
       (forall (t : T) (ps : list (sol Val Num)) (c : sol Val Num),
        Forall (EncOK Val Num Ty types dom_enc) ps -> In c (vary t ps) -> EncOK Val Num Ty types dom_enc c) ->
       (forall (t : T) (p : sol Val Num),
        EncOK Val Num Ty types dom_enc p -> EncOK Val Num Ty types dom_enc (mutate t p)) ->
       (forall (t : T) (p : sol Val Num),
        EncOK Val Num Ty types dom_enc p -> EncOK Val Num Ty types dom_enc (move t p)) ->
       (forall t : T, EncOK Val Num Ty types dom_enc (sample t)) ->
       (forall s : sol Val Num, Gen s -> EncOK Val Num Ty types dom_enc s) ->
       forall (tape : list (list nat * T)) (st : pa_st Val Num),
       Forall (EncOK Val Num Ty types dom_enc) (pa_exposed Val Num st) ->
       Forall (fun b : batch Val Num => Forall (EncOK Val Num Ty types dom_enc) (b_before b))
         (snd (nsga2_iterate Val Num ev T vary survive arch_add tape st)) /\
       Forall (InDomain Val Ty types dom_dec)
         (flat_map (calls_of Val Num Ty decode types)
            (snd (nsga2_iterate Val Num ev T vary survive arch_add tape st))) /\
       Forall (EncOK Val Num Ty types dom_enc)
         (pa_exposed Val Num (fst (nsga2_iterate Val Num ev T vary survive arch_add tape st))).
Proof. exact nsga2_step_in_domain. Qed.

(* NSGAIII.iterate *)
Theorem c07_nsga3_step_in_domain :
    forall (Val Num Ty : Type) (decode encode : Ty -> Val -> Val) (F : list Val -> list Num * list Num)
         (C : list (Num -> Num)) (nabs : Num -> Num) (nadd : Num -> Num -> Num) (nzero : Num) 
         (niszero : Num -> bool) (types : list Ty) (ev : list (sol Val Num) -> list (jobres Val Num)) 
         (T : Type) (vary : T -> list (sol Val Num) -> list (sol Val Num))
         (mutate move : T -> sol Val Num -> sol Val Num) (sample : T -> sol Val Num) (Gen : sol Val Num -> Prop)
         (survive : list (sol Val Num) -> list (sol Val Num)),
       ev_spec Val Num Ty decode encode F C nabs nadd nzero niszero types ev ->
       (forall l : list (sol Val Num), incl (survive l) l) ->
       forall dom_enc dom_dec : Ty -> Val -> Prop,
       (forall (t : Ty) (v : Val), In t types -> dom_enc t v -> dom_dec t (decode t v)) ->
       (forall (t : Ty) (v : Val), In t types -> dom_dec t v -> dom_enc t (encode t v)) ->
       (forall (t : T) (ps : list (sol Val Num)) (c : sol Val Num),
        Forall (EncOK Val Num Ty types dom_enc) ps -> In c (vary t ps) -> EncOK Val Num Ty types dom_enc c) ->
       (forall (t : T) (p : sol Val Num),
        EncOK Val Num Ty types dom_enc p -> EncOK Val Num Ty types dom_enc (mutate t p)) ->
       (forall (t : T) (p : sol Val Num),
        EncOK Val Num Ty types dom_enc p -> EncOK Val Num Ty types dom_enc (move t p)) ->
       (forall t : T, EncOK Val Num Ty types dom_enc (sample t)) ->
       (forall s : sol Val Num, Gen s -> EncOK Val Num Ty types dom_enc s) ->
       forall (tape : list (list nat * T)) (pop : list (sol Val Num)),
       Forall (EncOK Val Num Ty types dom_enc) pop ->
       Forall (fun b : batch Val Num => Forall (EncOK Val Num Ty types dom_enc) (b_before b))
         (snd (plus_iterate Val Num ev T vary survive tape pop)) /\
       Forall (InDomain Val Ty types dom_dec)
         (flat_map (calls_of Val Num Ty decode types) (snd (plus_iterate Val Num ev T vary survive tape pop))) /\
       Forall (EncOK Val Num Ty types dom_enc) (fst (plus_iterate Val Num ev T vary survive tape pop)).
Proof. exact nsga3_step_in_domain. Qed.

(* SPEA2.iterate *)
Theorem c07_spea2_step_in_domain :
    forall (Val Num Ty : Type) (decode encode : Ty -> Val -> Val) (F : list Val -> list Num * list Num)
         (C : list (Num -> Num)) (nabs : Num -> Num) (nadd : Num -> Num -> Num) (nzero : Num) 
         (niszero : Num -> bool) (types : list Ty) (ev : list (sol Val Num) -> list (jobres Val Num)) 
         (T : Type) (vary : T -> list (sol Val Num) -> list (sol Val Num))
         (mutate move : T -> sol Val Num -> sol Val Num) (sample : T -> sol Val Num) (Gen : sol Val Num -> Prop)
         (survive : list (sol Val Num) -> list (sol Val Num)),
       ev_spec Val Num Ty decode encode F C nabs nadd nzero niszero types ev ->
       (forall l : list (sol Val Num), incl (survive l) l) ->
       forall dom_enc dom_dec : Ty -> Val -> Prop,
       (forall (t : Ty) (v : Val), In t types -> dom_enc t v -> dom_dec t (decode t v)) ->
       (forall (t : Ty) (v : Val), In t types -> dom_dec t v -> dom_enc t (encode t v)) ->
       (forall (t : T) (ps : list (sol Val Num)) (c : sol Val Num),
        Forall (EncOK Val Num Ty types dom_enc) ps -> In c (vary t ps) -> EncOK Val Num Ty types dom_enc c) ->
       (forall (t : T) (p : sol Val Num),
        EncOK Val Num Ty types dom_enc p -> EncOK Val Num Ty types dom_enc (mutate t p)) ->
       (forall (t : T) (p : sol Val Num),
        EncOK Val Num Ty types dom_enc p -> EncOK Val Num Ty types dom_enc (move t p)) ->
       (forall t : T, EncOK Val Num Ty types dom_enc (sample t)) ->
       (forall s : sol Val Num, Gen s -> EncOK Val Num Ty types dom_enc s) ->
       forall (tape : list (list nat * T)) (pop : list (sol Val Num)),
       Forall (EncOK Val Num Ty types dom_enc) pop ->
       Forall (fun b : batch Val Num => Forall (EncOK Val Num Ty types dom_enc) (b_before b))
         (snd (plus_iterate Val Num ev T vary survive tape pop)) /\
       Forall (InDomain Val Ty types dom_dec)
         (flat_map (calls_of Val Num Ty decode types) (snd (plus_iterate Val Num ev T vary survive tape pop))) /\
       Forall (EncOK Val Num Ty types dom_enc) (fst (plus_iterate Val Num ev T vary survive tape pop)).
Proof. exact spea2_step_in_domain. Qed.

(* EpsNSGAII: NSGAII.iterate followed, in the same step, by an optional restart *)
Theorem c07_epsnsga2_step_in_domain :
    forall (Val Num Ty : Type) (decode encode : Ty -> Val -> Val) (F : list Val -> list Num * list Num)
         (C : list (Num -> Num)) (nabs : Num -> Num) (nadd : Num -> Num -> Num) (nzero : Num) 
         (niszero : Num -> bool) (types : list Ty) (ev : list (sol Val Num) -> list (jobres Val Num)) 
         (T : Type) (vary : T -> list (sol Val Num) -> list (sol Val Num))
         (mutate move : T -> sol Val Num -> sol Val Num) (sample : T -> sol Val Num) (Gen : sol Val Num -> Prop)
         (survive : list (sol Val Num) -> list (sol Val Num))
         (arch_add : list (sol Val Num) -> sol Val Num -> list (sol Val Num)),
       ev_spec Val Num Ty decode encode F C nabs nadd nzero niszero types ev ->
       (forall l : list (sol Val Num), incl (survive l) l) ->
       (forall (a : list (sol Val Num)) (s : sol Val Num), incl (arch_add a s) (s :: a)) ->
       forall dom_enc dom_dec : Ty -> Val -> Prop,
       (forall (t : Ty) (v : Val), In t types -> dom_enc t v -> dom_dec t (decode t v)) ->
       (forall (t : Ty) (v : Val), In t types -> dom_dec t v -> dom_enc t (encode t v)) ->
       (forall (t : T) (ps : list (sol Val Num)) (c : sol Val Num),
        Forall (EncOK Val Num Ty types dom_enc) ps -> In c (vary t ps) -> EncOK Val Num Ty types dom_enc c) ->
       (forall (t : T) (p : sol Val Num),
        EncOK Val Num Ty types dom_enc p -> EncOK Val Num Ty types dom_enc (mutate t p)) ->
       (forall (t : T) (p : sol Val Num),
        EncOK Val Num Ty types dom_enc p -> EncOK Val Num Ty types dom_enc (move t p)) ->
       (forall t : T, EncOK Val Num Ty types dom_enc (sample t)) ->
       (forall s : sol Val Num, Gen s -> EncOK Val Num Ty types dom_enc s) ->
       forall (tape : list (list nat * T)) (rt : option (list (list nat * T))) (st : pa_st Val Num),
       Forall (EncOK Val Num Ty types dom_enc) (pa_exposed Val Num st) ->
       Forall (fun b : batch Val Num => Forall (EncOK Val Num Ty types dom_enc) (b_before b))
         (snd (epsnsga2_step Val Num ev T vary survive arch_add tape rt st)) /\
       Forall (InDomain Val Ty types dom_dec)
         (flat_map (calls_of Val Num Ty decode types)
            (snd (epsnsga2_step Val Num ev T vary survive arch_add tape rt st))) /\
       Forall (EncOK Val Num Ty types dom_enc)
         (pa_exposed Val Num (fst (epsnsga2_step Val Num ev T vary survive arch_add tape rt st))).
Proof. exact epsnsga2_step_in_domain. Qed.

(* AdaptiveTimeContinuationExtension.restart *)
Theorem c07_restart_step_in_domain :
    forall (Val Num Ty : Type) (decode encode : Ty -> Val -> Val) (F : list Val -> list Num * list Num)
         (C : list (Num -> Num)) (nabs : Num -> Num) (nadd : Num -> Num -> Num) (nzero : Num) 
         (niszero : Num -> bool) (types : list Ty) (ev : list (sol Val Num) -> list (jobres Val Num)) 
         (T : Type) (vary : T -> list (sol Val Num) -> list (sol Val Num))
         (mutate move : T -> sol Val Num -> sol Val Num) (sample : T -> sol Val Num) (Gen : sol Val Num -> Prop)
         (arch_add : list (sol Val Num) -> sol Val Num -> list (sol Val Num)),
       ev_spec Val Num Ty decode encode F C nabs nadd nzero niszero types ev ->
       (forall (a : list (sol Val Num)) (s : sol Val Num), incl (arch_add a s) (s :: a)) ->
       forall dom_enc dom_dec : Ty -> Val -> Prop,
       (forall (t : Ty) (v : Val), In t types -> dom_enc t v -> dom_dec t (decode t v)) ->
       (forall (t : Ty) (v : Val), In t types -> dom_dec t v -> dom_enc t (encode t v)) ->
       (forall (t : T) (ps : list (sol Val Num)) (c : sol Val Num),
        Forall (EncOK Val Num Ty types dom_enc) ps -> In c (vary t ps) -> EncOK Val Num Ty types dom_enc c) ->
       (forall (t : T) (p : sol Val Num),
        EncOK Val Num Ty types dom_enc p -> EncOK Val Num Ty types dom_enc (mutate t p)) ->
       (forall (t : T) (p : sol Val Num),
        EncOK Val Num Ty types dom_enc p -> EncOK Val Num Ty types dom_enc (move t p)) ->
       (forall t : T, EncOK Val Num Ty types dom_enc (sample t)) ->
       (forall s : sol Val Num, Gen s -> EncOK Val Num Ty types dom_enc s) ->
       forall (rt : list (list nat * T)) (st : pa_st Val Num),
       Forall (EncOK Val Num Ty types dom_enc) (pa_exposed Val Num st) ->
       Forall (fun b : batch Val Num => Forall (EncOK Val Num Ty types dom_enc) (b_before b))
         (snd (restart Val Num ev T vary arch_add rt st)) /\
       Forall (InDomain Val Ty types dom_dec)
         (flat_map (calls_of Val Num Ty decode types) (snd (restart Val Num ev T vary arch_add rt st))) /\
       Forall (EncOK Val Num Ty types dom_enc) (pa_exposed Val Num (fst (restart Val Num ev T vary arch_add rt st))).
Proof. exact restart_step_in_domain. Qed.

(* EpsMOEA.iterate (steady state) *)
Theorem c07_epsmoea_step_in_domain :
    forall (Val Num Ty : Type) (decode encode : Ty -> Val -> Val) (F : list Val -> list Num * list Num)
         (C : list (Num -> Num)) (nabs : Num -> Num) (nadd : Num -> Num -> Num) (nzero : Num) 
         (niszero : Num -> bool) (types : list Ty) (ev : list (sol Val Num) -> list (jobres Val Num)) 
         (T : Type) (vary : T -> list (sol Val Num) -> list (sol Val Num))
         (mutate move : T -> sol Val Num -> sol Val Num) (sample : T -> sol Val Num) (Gen : sol Val Num -> Prop)
         (cmp : sol Val Num -> sol Val Num -> Z) (arch_add : list (sol Val Num) -> sol Val Num -> list (sol Val Num)),
       ev_spec Val Num Ty decode encode F C nabs nadd nzero niszero types ev ->
       (forall (a : list (sol Val Num)) (s : sol Val Num), incl (arch_add a s) (s :: a)) ->
       forall dom_enc dom_dec : Ty -> Val -> Prop,
       (forall (t : Ty) (v : Val), In t types -> dom_enc t v -> dom_dec t (decode t v)) ->
       (forall (t : Ty) (v : Val), In t types -> dom_dec t v -> dom_enc t (encode t v)) ->
       (forall (t : T) (ps : list (sol Val Num)) (c : sol Val Num),
        Forall (EncOK Val Num Ty types dom_enc) ps -> In c (vary t ps) -> EncOK Val Num Ty types dom_enc c) ->
       (forall (t : T) (p : sol Val Num),
        EncOK Val Num Ty types dom_enc p -> EncOK Val Num Ty types dom_enc (mutate t p)) ->
       (forall (t : T) (p : sol Val Num),
        EncOK Val Num Ty types dom_enc p -> EncOK Val Num Ty types dom_enc (move t p)) ->
       (forall t : T, EncOK Val Num Ty types dom_enc (sample t)) ->
       (forall s : sol Val Num, Gen s -> EncOK Val Num Ty types dom_enc s) ->
       forall (tp : eps_tape T) (st : pa_st Val Num),
       Forall (EncOK Val Num Ty types dom_enc) (pa_exposed Val Num st) ->
       Forall (fun b : batch Val Num => Forall (EncOK Val Num Ty types dom_enc) (b_before b))
         (snd (epsmoea_iterate Val Num ev T vary cmp arch_add tp st)) /\
       Forall (InDomain Val Ty types dom_dec)
         (flat_map (calls_of Val Num Ty decode types) (snd (epsmoea_iterate Val Num ev T vary cmp arch_add tp st))) /\
       Forall (EncOK Val Num Ty types dom_enc)
         (pa_exposed Val Num (fst (epsmoea_iterate Val Num ev T vary cmp arch_add tp st))).
Proof. exact epsmoea_step_in_domain. Qed.

(* GDE3.iterate *)
Theorem c07_gde3_step_in_domain :
    forall (Val Num Ty : Type) (decode encode : Ty -> Val -> Val) (F : list Val -> list Num * list Num)
         (C : list (Num -> Num)) (nabs : Num -> Num) (nadd : Num -> Num -> Num) (nzero : Num) 
         (niszero : Num -> bool) (types : list Ty) (ev : list (sol Val Num) -> list (jobres Val Num)) 
         (T : Type) (vary : T -> list (sol Val Num) -> list (sol Val Num))
         (mutate move : T -> sol Val Num -> sol Val Num) (sample : T -> sol Val Num) (Gen : sol Val Num -> Prop)
         (cmp : sol Val Num -> sol Val Num -> Z) (survive : list (sol Val Num) -> list (sol Val Num)),
       ev_spec Val Num Ty decode encode F C nabs nadd nzero niszero types ev ->
       (forall l : list (sol Val Num), incl (survive l) l) ->
       forall dom_enc dom_dec : Ty -> Val -> Prop,
       (forall (t : Ty) (v : Val), In t types -> dom_enc t v -> dom_dec t (decode t v)) ->
       (forall (t : Ty) (v : Val), In t types -> dom_dec t v -> dom_enc t (encode t v)) ->
       (forall (t : T) (ps : list (sol Val Num)) (c : sol Val Num),
        Forall (EncOK Val Num Ty types dom_enc) ps -> In c (vary t ps) -> EncOK Val Num Ty types dom_enc c) ->
       (forall (t : T) (p : sol Val Num),
        EncOK Val Num Ty types dom_enc p -> EncOK Val Num Ty types dom_enc (mutate t p)) ->
       (forall (t : T) (p : sol Val Num),
        EncOK Val Num Ty types dom_enc p -> EncOK Val Num Ty types dom_enc (move t p)) ->
       (forall t : T, EncOK Val Num Ty types dom_enc (sample t)) ->
       (forall s : sol Val Num, Gen s -> EncOK Val Num Ty types dom_enc s) ->
       forall (tape : list (list nat * T)) (pop : list (sol Val Num)),
       Forall (EncOK Val Num Ty types dom_enc) pop ->
       Forall (fun b : batch Val Num => Forall (EncOK Val Num Ty types dom_enc) (b_before b))
         (snd (gde3_iterate Val Num ev T vary cmp survive tape pop)) /\
       Forall (InDomain Val Ty types dom_dec)
         (flat_map (calls_of Val Num Ty decode types) (snd (gde3_iterate Val Num ev T vary cmp survive tape pop))) /\
       Forall (EncOK Val Num Ty types dom_enc) (fst (gde3_iterate Val Num ev T vary cmp survive tape pop)).
Proof. exact gde3_step_in_domain. Qed.

(* IBEA.iterate (removal loop) *)
Theorem c07_ibea_step_in_domain :
    forall (Val Num Ty : Type) (decode encode : Ty -> Val -> Val) (F : list Val -> list Num * list Num)
         (C : list (Num -> Num)) (nabs : Num -> Num) (nadd : Num -> Num -> Num) (nzero : Num) 
         (niszero : Num -> bool) (types : list Ty) (ev : list (sol Val Num) -> list (jobres Val Num)) 
         (T : Type) (vary : T -> list (sol Val Num) -> list (sol Val Num))
         (mutate move : T -> sol Val Num -> sol Val Num) (sample : T -> sol Val Num) (Gen : sol Val Num -> Prop)
         (worst : list (sol Val Num) -> nat),
       ev_spec Val Num Ty decode encode F C nabs nadd nzero niszero types ev ->
       forall dom_enc dom_dec : Ty -> Val -> Prop,
       (forall (t : Ty) (v : Val), In t types -> dom_enc t v -> dom_dec t (decode t v)) ->
       (forall (t : Ty) (v : Val), In t types -> dom_dec t v -> dom_enc t (encode t v)) ->
       (forall (t : T) (ps : list (sol Val Num)) (c : sol Val Num),
        Forall (EncOK Val Num Ty types dom_enc) ps -> In c (vary t ps) -> EncOK Val Num Ty types dom_enc c) ->
       (forall (t : T) (p : sol Val Num),
        EncOK Val Num Ty types dom_enc p -> EncOK Val Num Ty types dom_enc (mutate t p)) ->
       (forall (t : T) (p : sol Val Num),
        EncOK Val Num Ty types dom_enc p -> EncOK Val Num Ty types dom_enc (move t p)) ->
       (forall t : T, EncOK Val Num Ty types dom_enc (sample t)) ->
       (forall s : sol Val Num, Gen s -> EncOK Val Num Ty types dom_enc s) ->
       forall (size : nat) (tape : list (list nat * T)) (pop : list (sol Val Num)),
       Forall (EncOK Val Num Ty types dom_enc) pop ->
       Forall (fun b : batch Val Num => Forall (EncOK Val Num Ty types dom_enc) (b_before b))
         (snd (ibea_iterate Val Num ev T vary worst size tape pop)) /\
       Forall (InDomain Val Ty types dom_dec)
         (flat_map (calls_of Val Num Ty decode types) (snd (ibea_iterate Val Num ev T vary worst size tape pop))) /\
       Forall (EncOK Val Num Ty types dom_enc) (fst (ibea_iterate Val Num ev T vary worst size tape pop)).
Proof. exact ibea_step_in_domain. Qed.

(* PAES.iterate *)
Theorem c07_paes_step_in_domain :
    forall (Val Num Ty : Type) (decode encode : Ty -> Val -> Val) (F : list Val -> list Num * list Num)
         (C : list (Num -> Num)) (nabs : Num -> Num) (nadd : Num -> Num -> Num) (nzero : Num) 
         (niszero : Num -> bool) (types : list Ty) (ev : list (sol Val Num) -> list (jobres Val Num)) 
         (T : Type) (vary : T -> list (sol Val Num) -> list (sol Val Num))
         (mutate move : T -> sol Val Num -> sol Val Num) (sample : T -> sol Val Num) (Gen : sol Val Num -> Prop)
         (cmp : sol Val Num -> sol Val Num -> Z) (test : list (sol Val Num) -> sol Val Num -> sol Val Num -> bool)
         (arch_add : list (sol Val Num) -> sol Val Num -> list (sol Val Num))
         (arch_added : list (sol Val Num) -> sol Val Num -> bool),
       ev_spec Val Num Ty decode encode F C nabs nadd nzero niszero types ev ->
       (forall (a : list (sol Val Num)) (s : sol Val Num), incl (arch_add a s) (s :: a)) ->
       forall dom_enc dom_dec : Ty -> Val -> Prop,
       (forall (t : Ty) (v : Val), In t types -> dom_enc t v -> dom_dec t (decode t v)) ->
       (forall (t : Ty) (v : Val), In t types -> dom_dec t v -> dom_enc t (encode t v)) ->
       (forall (t : T) (ps : list (sol Val Num)) (c : sol Val Num),
        Forall (EncOK Val Num Ty types dom_enc) ps -> In c (vary t ps) -> EncOK Val Num Ty types dom_enc c) ->
       (forall (t : T) (p : sol Val Num),
        EncOK Val Num Ty types dom_enc p -> EncOK Val Num Ty types dom_enc (mutate t p)) ->
       (forall (t : T) (p : sol Val Num),
        EncOK Val Num Ty types dom_enc p -> EncOK Val Num Ty types dom_enc (move t p)) ->
       (forall t : T, EncOK Val Num Ty types dom_enc (sample t)) ->
       (forall s : sol Val Num, Gen s -> EncOK Val Num Ty types dom_enc s) ->
       forall (t : T) (st : pa_st Val Num),
       Forall (EncOK Val Num Ty types dom_enc) (pa_exposed Val Num st) ->
       Forall (fun b : batch Val Num => Forall (EncOK Val Num Ty types dom_enc) (b_before b))
         (snd (paes_iterate Val Num ev T vary cmp test arch_add arch_added t st)) /\
       Forall (InDomain Val Ty types dom_dec)
         (flat_map (calls_of Val Num Ty decode types)
            (snd (paes_iterate Val Num ev T vary cmp test arch_add arch_added t st))) /\
       Forall (EncOK Val Num Ty types dom_enc)
         (pa_exposed Val Num (fst (paes_iterate Val Num ev T vary cmp test arch_add arch_added t st))).
Proof. exact paes_step_in_domain. Qed.

(* PESA2.iterate *)
Theorem c07_pesa2_step_in_domain :
    forall (Val Num Ty : Type) (decode encode : Ty -> Val -> Val) (F : list Val -> list Num * list Num)
         (C : list (Num -> Num)) (nabs : Num -> Num) (nadd : Num -> Num -> Num) (nzero : Num) 
         (niszero : Num -> bool) (types : list Ty) (ev : list (sol Val Num) -> list (jobres Val Num)) 
         (T : Type) (vary : T -> list (sol Val Num) -> list (sol Val Num))
         (mutate move : T -> sol Val Num -> sol Val Num) (sample : T -> sol Val Num) (Gen : sol Val Num -> Prop)
         (arch_add : list (sol Val Num) -> sol Val Num -> list (sol Val Num)),
       ev_spec Val Num Ty decode encode F C nabs nadd nzero niszero types ev ->
       (forall (a : list (sol Val Num)) (s : sol Val Num), incl (arch_add a s) (s :: a)) ->
       forall dom_enc dom_dec : Ty -> Val -> Prop,
       (forall (t : Ty) (v : Val), In t types -> dom_enc t v -> dom_dec t (decode t v)) ->
       (forall (t : Ty) (v : Val), In t types -> dom_dec t v -> dom_enc t (encode t v)) ->
       (forall (t : T) (ps : list (sol Val Num)) (c : sol Val Num),
        Forall (EncOK Val Num Ty types dom_enc) ps -> In c (vary t ps) -> EncOK Val Num Ty types dom_enc c) ->
       (forall (t : T) (p : sol Val Num),
        EncOK Val Num Ty types dom_enc p -> EncOK Val Num Ty types dom_enc (mutate t p)) ->
       (forall (t : T) (p : sol Val Num),
        EncOK Val Num Ty types dom_enc p -> EncOK Val Num Ty types dom_enc (move t p)) ->
       (forall t : T, EncOK Val Num Ty types dom_enc (sample t)) ->
       (forall s : sol Val Num, Gen s -> EncOK Val Num Ty types dom_enc s) ->
       forall (tape : list (list nat * T)) (st : pa_st Val Num),
       Forall (EncOK Val Num Ty types dom_enc) (pa_exposed Val Num st) ->
       Forall (fun b : batch Val Num => Forall (EncOK Val Num Ty types dom_enc) (b_before b))
         (snd (pesa2_iterate Val Num ev T vary arch_add tape st)) /\
       Forall (InDomain Val Ty types dom_dec)
         (flat_map (calls_of Val Num Ty decode types) (snd (pesa2_iterate Val Num ev T vary arch_add tape st))) /\
       Forall (EncOK Val Num Ty types dom_enc)
         (pa_exposed Val Num (fst (pesa2_iterate Val Num ev T vary arch_add tape st))).
Proof. exact pesa2_step_in_domain. Qed.

(* ParticleSwarm.initialize (OMOPSO: with archive) *)
Theorem c07_pso_initialize_step_in_domain :
    forall (Val Num Ty : Type) (decode encode : Ty -> Val -> Val) (F : list Val -> list Num * list Num)
         (C : list (Num -> Num)) (nabs : Num -> Num) (nadd : Num -> Num -> Num) (nzero : Num) 
         (niszero : Num -> bool) (types : list Ty) (ev : list (sol Val Num) -> list (jobres Val Num)) 
         (T : Type) (vary : T -> list (sol Val Num) -> list (sol Val Num))
         (mutate move : T -> sol Val Num -> sol Val Num) (sample : T -> sol Val Num) (Gen : sol Val Num -> Prop)
         (trunc : list (sol Val Num) -> list (sol Val Num))
         (arch_add lead_add : list (sol Val Num) -> sol Val Num -> list (sol Val Num)),
       ev_spec Val Num Ty decode encode F C nabs nadd nzero niszero types ev ->
       (forall l : list (sol Val Num), incl (trunc l) l) ->
       (forall (a : list (sol Val Num)) (s : sol Val Num), incl (arch_add a s) (s :: a)) ->
       (forall (a : list (sol Val Num)) (s : sol Val Num), incl (lead_add a s) (s :: a)) ->
       forall dom_enc dom_dec : Ty -> Val -> Prop,
       (forall (t : Ty) (v : Val), In t types -> dom_enc t v -> dom_dec t (decode t v)) ->
       (forall (t : Ty) (v : Val), In t types -> dom_dec t v -> dom_enc t (encode t v)) ->
       (forall (t : T) (ps : list (sol Val Num)) (c : sol Val Num),
        Forall (EncOK Val Num Ty types dom_enc) ps -> In c (vary t ps) -> EncOK Val Num Ty types dom_enc c) ->
       (forall (t : T) (p : sol Val Num),
        EncOK Val Num Ty types dom_enc p -> EncOK Val Num Ty types dom_enc (mutate t p)) ->
       (forall (t : T) (p : sol Val Num),
        EncOK Val Num Ty types dom_enc p -> EncOK Val Num Ty types dom_enc (move t p)) ->
       (forall t : T, EncOK Val Num Ty types dom_enc (sample t)) ->
       (forall s : sol Val Num, Gen s -> EncOK Val Num Ty types dom_enc s) ->
       forall (injected : list (sol Val Num)) (arch0 : option (list (sol Val Num))) (gen : list (sol Val Num)),
       generated Val Num Gen injected gen ->
       incl (oarch Val Num arch0) injected ->
       Forall (EncOK Val Num Ty types dom_enc) injected ->
       Forall (fun b : batch Val Num => Forall (EncOK Val Num Ty types dom_enc) (b_before b))
         (snd (pso_initialize Val Num ev trunc arch_add lead_add arch0 gen)) /\
       Forall (InDomain Val Ty types dom_dec)
         (flat_map (calls_of Val Num Ty decode types)
            (snd (pso_initialize Val Num ev trunc arch_add lead_add arch0 gen))) /\
       Forall (EncOK Val Num Ty types dom_enc)
         (pso_exposed Val Num (fst (pso_initialize Val Num ev trunc arch_add lead_add arch0 gen))).
Proof. exact pso_initialize_step_in_domain. Qed.

(* ParticleSwarm.iterate (OMOPSO with archive, SMPSO without) *)
Theorem c07_pso_step_in_domain :
    forall (Val Num Ty : Type) (decode encode : Ty -> Val -> Val) (F : list Val -> list Num * list Num)
         (C : list (Num -> Num)) (nabs : Num -> Num) (nadd : Num -> Num -> Num) (nzero : Num) 
         (niszero : Num -> bool) (types : list Ty) (ev : list (sol Val Num) -> list (jobres Val Num)) 
         (T : Type) (vary : T -> list (sol Val Num) -> list (sol Val Num))
         (mutate move : T -> sol Val Num -> sol Val Num) (sample : T -> sol Val Num) (Gen : sol Val Num -> Prop)
         (cmp : sol Val Num -> sol Val Num -> Z) (trunc : list (sol Val Num) -> list (sol Val Num))
         (arch_add lead_add : list (sol Val Num) -> sol Val Num -> list (sol Val Num)),
       ev_spec Val Num Ty decode encode F C nabs nadd nzero niszero types ev ->
       (forall l : list (sol Val Num), incl (trunc l) l) ->
       (forall (a : list (sol Val Num)) (s : sol Val Num), incl (arch_add a s) (s :: a)) ->
       (forall (a : list (sol Val Num)) (s : sol Val Num), incl (lead_add a s) (s :: a)) ->
       forall dom_enc dom_dec : Ty -> Val -> Prop,
       (forall (t : Ty) (v : Val), In t types -> dom_enc t v -> dom_dec t (decode t v)) ->
       (forall (t : Ty) (v : Val), In t types -> dom_dec t v -> dom_enc t (encode t v)) ->
       (forall (t : T) (ps : list (sol Val Num)) (c : sol Val Num),
        Forall (EncOK Val Num Ty types dom_enc) ps -> In c (vary t ps) -> EncOK Val Num Ty types dom_enc c) ->
       (forall (t : T) (p : sol Val Num),
        EncOK Val Num Ty types dom_enc p -> EncOK Val Num Ty types dom_enc (mutate t p)) ->
       (forall (t : T) (p : sol Val Num),
        EncOK Val Num Ty types dom_enc p -> EncOK Val Num Ty types dom_enc (move t p)) ->
       (forall t : T, EncOK Val Num Ty types dom_enc (sample t)) ->
       (forall s : sol Val Num, Gen s -> EncOK Val Num Ty types dom_enc s) ->
       forall (tape : list (T * option T)) (st : pso_st Val Num),
       Forall (EncOK Val Num Ty types dom_enc) (pso_exposed Val Num st) ->
       Forall (fun b : batch Val Num => Forall (EncOK Val Num Ty types dom_enc) (b_before b))
         (snd (pso_iterate Val Num ev T mutate move cmp trunc arch_add lead_add tape st)) /\
       Forall (InDomain Val Ty types dom_dec)
         (flat_map (calls_of Val Num Ty decode types)
            (snd (pso_iterate Val Num ev T mutate move cmp trunc arch_add lead_add tape st))) /\
       Forall (EncOK Val Num Ty types dom_enc)
         (pso_exposed Val Num (fst (pso_iterate Val Num ev T mutate move cmp trunc arch_add lead_add tape st))).
Proof. exact pso_step_in_domain. Qed.

(* CMAES.iterate (= step; initialize ends with iterate) *)
Theorem c07_cmaes_step_in_domain :
    forall (Val Num Ty : Type) (decode encode : Ty -> Val -> Val) (F : list Val -> list Num * list Num)
         (C : list (Num -> Num)) (nabs : Num -> Num) (nadd : Num -> Num -> Num) (nzero : Num) 
         (niszero : Num -> bool) (types : list Ty) (ev : list (sol Val Num) -> list (jobres Val Num)) 
         (T : Type) (vary : T -> list (sol Val Num) -> list (sol Val Num))
         (mutate move : T -> sol Val Num -> sol Val Num) (sample : T -> sol Val Num) (Gen : sol Val Num -> Prop)
         (sortf : list (sol Val Num) -> list (sol Val Num))
         (arch_add : list (sol Val Num) -> sol Val Num -> list (sol Val Num)),
       ev_spec Val Num Ty decode encode F C nabs nadd nzero niszero types ev ->
       (forall l : list (sol Val Num), incl (sortf l) l) ->
       (forall (a : list (sol Val Num)) (s : sol Val Num), incl (arch_add a s) (s :: a)) ->
       forall dom_enc dom_dec : Ty -> Val -> Prop,
       (forall (t : Ty) (v : Val), In t types -> dom_enc t v -> dom_dec t (decode t v)) ->
       (forall (t : Ty) (v : Val), In t types -> dom_dec t v -> dom_enc t (encode t v)) ->
       (forall (t : T) (ps : list (sol Val Num)) (c : sol Val Num),
        Forall (EncOK Val Num Ty types dom_enc) ps -> In c (vary t ps) -> EncOK Val Num Ty types dom_enc c) ->
       (forall (t : T) (p : sol Val Num),
        EncOK Val Num Ty types dom_enc p -> EncOK Val Num Ty types dom_enc (mutate t p)) ->
       (forall (t : T) (p : sol Val Num),
        EncOK Val Num Ty types dom_enc p -> EncOK Val Num Ty types dom_enc (move t p)) ->
       (forall t : T, EncOK Val Num Ty types dom_enc (sample t)) ->
       (forall s : sol Val Num, Gen s -> EncOK Val Num Ty types dom_enc s) ->
       forall (ts : list T) (st : pa_st Val Num),
       Forall (EncOK Val Num Ty types dom_enc) (pa_exposed Val Num st) ->
       Forall (fun b : batch Val Num => Forall (EncOK Val Num Ty types dom_enc) (b_before b))
         (snd (cmaes_iterate Val Num ev T sample sortf arch_add ts st)) /\
       Forall (InDomain Val Ty types dom_dec)
         (flat_map (calls_of Val Num Ty decode types) (snd (cmaes_iterate Val Num ev T sample sortf arch_add ts st))) /\
       Forall (EncOK Val Num Ty types dom_enc)
         (pa_exposed Val Num (fst (cmaes_iterate Val Num ev T sample sortf arch_add ts st))).
Proof. exact cmaes_step_in_domain. Qed.

(* MOEAD.iterate (one evaluate_all per subproblem, in-place replacement) *)
Theorem c07_moead_step_in_domain :
    forall (Val Num Ty : Type) (decode encode : Ty -> Val -> Val) (F : list Val -> list Num * list Num)
         (C : list (Num -> Num)) (nabs : Num -> Num) (nadd : Num -> Num -> Num) (nzero : Num) 
         (niszero : Num -> bool) (types : list Ty) (ev : list (sol Val Num) -> list (jobres Val Num)) 
         (T : Type) (vary : T -> list (sol Val Num) -> list (sol Val Num))
         (mutate move : T -> sol Val Num -> sol Val Num) (sample : T -> sol Val Num) (Gen : sol Val Num -> Prop)
         (better : sol Val Num -> sol Val Num -> nat -> bool),
       ev_spec Val Num Ty decode encode F C nabs nadd nzero niszero types ev ->
       forall (arity eta : nat) (dom_enc dom_dec : Ty -> Val -> Prop),
       (forall (t : Ty) (v : Val), In t types -> dom_enc t v -> dom_dec t (decode t v)) ->
       (forall (t : Ty) (v : Val), In t types -> dom_dec t v -> dom_enc t (encode t v)) ->
       (forall (t : T) (ps : list (sol Val Num)) (c : sol Val Num),
        Forall (EncOK Val Num Ty types dom_enc) ps -> In c (vary t ps) -> EncOK Val Num Ty types dom_enc c) ->
       (forall (t : T) (p : sol Val Num),
        EncOK Val Num Ty types dom_enc p -> EncOK Val Num Ty types dom_enc (mutate t p)) ->
       (forall (t : T) (p : sol Val Num),
        EncOK Val Num Ty types dom_enc p -> EncOK Val Num Ty types dom_enc (move t p)) ->
       (forall t : T, EncOK Val Num Ty types dom_enc (sample t)) ->
       (forall s : sol Val Num, Gen s -> EncOK Val Num Ty types dom_enc s) ->
       forall (items : list (moead_item T)) (pop : list (sol Val Num)),
       Forall (EncOK Val Num Ty types dom_enc) pop ->
       Forall (fun b : batch Val Num => Forall (EncOK Val Num Ty types dom_enc) (b_before b))
         (snd (moead_iterate Val Num ev T vary better arity eta items pop)) /\
       Forall (InDomain Val Ty types dom_dec)
         (flat_map (calls_of Val Num Ty decode types)
            (snd (moead_iterate Val Num ev T vary better arity eta items pop))) /\
       Forall (EncOK Val Num Ty types dom_enc) (fst (moead_iterate Val Num ev T vary better arity eta items pop)).
Proof. exact moead_step_in_domain. Qed.


(* Real.rand when max - min overflows (fix 143937a; the same guard in UM.um_mutation, fix f6dc0d6): in exact
   arithmetic the interpolation min*(1-r) + max*r with r = random.random() in [0,1) lies in [min, max], so the
   range contract of c07_rand_real_in_domain holds for every finite min <= max *)
From Coq Require Import QArith.
Open Scope Z_scope.
Theorem c07_rand_real_wide_in_domain : forall lb ub r : Q,
  (lb <= ub)%Q -> (0 <= r)%Q -> (r <= 1)%Q ->
  (lb <= rand_real_interp lb ub r)%Q /\ (rand_real_interp lb ub r <= ub)%Q.
Proof. exact rand_real_wide_in_domain. Qed.
