(* C03 — a Pareto archive always equals the non-dominated subset of all it was offered.
   Only statements; every proof is [exact lemma].

   Part 1: for ANY comparator with range {-1,0,1}, antisymmetry and a transitive,
           irreflexive dominance on well-formed solutions (the contract of Dominance.compare).
   Part 2: C02's pareto_compare satisfies that contract on well-formed solutions
           (right number of objectives, violation >= 0) for every carrier with OrdLaws, and
           the main theorems restated for it (any number of objectives, any directions,
           with/without constraints).
   Part 3: the executable carrier xq, i.e. the function the correspondence check runs. *)
From Coq Require Import ZArith Bool List Permutation.
Import ListNotations.
From PV Require Import Base.Num Base.Order Model.Dominance Proofs.DominanceProofs Model.Archive Proofs.ArchiveProofs.
Open Scope Z_scope.

Section C03_generic.
  Variable T : Type.
  Variable cmp : T -> T -> Z.
  Variable P : T -> Prop.
  Hypothesis cmp_range : forall x y, cmp x y = -1 \/ cmp x y = 0 \/ cmp x y = 1.
  Hypothesis cmp_antisym : forall x y, P x -> P y -> cmp y x = - cmp x y.
  Hypothesis dom_trans : forall x y z, P x -> P y -> P z ->
    dom T cmp x y = true -> dom T cmp y z = true -> dom T cmp x z = true.
  Hypothesis dom_irrefl : forall x, P x -> dom T cmp x x = false.

  (* add returns True iff no current member dominates the newcomer *)
  Theorem c03_add_accept_iff : forall a s, Forall P a -> P s ->
    (snd (add T cmp a s) = true <-> forall m, In m a -> dom T cmp m s = false).
  Proof. exact (add_accept_iff T cmp P cmp_range cmp_antisym). Qed.

  (* a rejected insertion leaves the archive untouched *)
  Theorem c03_add_reject_unchanged : forall a s, snd (add T cmp a s) = false -> fst (add T cmp a s) = a.
  Proof. exact (add_reject_unchanged T cmp). Qed.

  (* an accepted newcomer evicts exactly the members it dominates and is appended last *)
  Theorem c03_add_accept_contents : forall a s, Forall P a -> P s -> snd (add T cmp a s) = true ->
    fst (add T cmp a s) = filter (fun m => negb (dom T cmp s m)) a ++ [s].
  Proof. exact (add_accept_contents T cmp P cmp_range). Qed.

  (* pairwise mutual non-domination is preserved by every insertion ... *)
  Theorem c03_add_pairwise : forall a s, Forall P a -> P s ->
    pairwise_nd T cmp a -> pairwise_nd T cmp (fst (add T cmp a s)).
  Proof. exact (add_pairwise T cmp P cmp_antisym). Qed.

  (* ... and therefore holds after every history over add/append/extend/+= *)
  Theorem c03_inv_pairwise : forall ops, Forall P (offered T ops) -> pairwise_nd T cmp (run_ops T cmp ops []).
  Proof. exact (history_pairwise T cmp P cmp_range cmp_antisym dom_trans dom_irrefl). Qed.

  (* the characterisation, as lists (order and multiplicity included) *)
  Theorem c03_archive_char : forall l, Forall P l -> archive T cmp l = filter (nd T cmp l) l.
  Proof. exact (archive_char T cmp P cmp_range cmp_antisym dom_trans dom_irrefl). Qed.

  Theorem c03_history_char : forall ops, Forall P (offered T ops) ->
    run_ops T cmp ops [] = filter (nd T cmp (offered T ops)) (offered T ops).
  Proof. exact (history_char T cmp P cmp_range cmp_antisym dom_trans dom_irrefl). Qed.

  (* membership = exactly the offered solutions no offered solution dominates *)
  Theorem c03_membership : forall l x, Forall P l ->
    (In x (archive T cmp l) <-> In x l /\ forall y, In y l -> dom T cmp y x = false).
  Proof. exact (archive_In T cmp P cmp_range cmp_antisym dom_trans dom_irrefl). Qed.

  (* solutions with the same dominators as a kept one are kept too *)
  Theorem c03_twins : forall l x x', Forall P l -> In x (archive T cmp l) -> In x' l ->
    (forall y, In y l -> dom T cmp y x' = dom T cmp y x) -> In x' (archive T cmp l).
  Proof. exact (archive_twins T cmp P cmp_range cmp_antisym dom_trans dom_irrefl). Qed.

  (* the final membership does not depend on the order of insertion *)
  Theorem c03_order_independent : forall l l', Forall P l -> Permutation l l' ->
    Permutation (archive T cmp l) (archive T cmp l').
  Proof. exact (archive_order_independent T cmp P cmp_range cmp_antisym dom_trans dom_irrefl). Qed.

  (* add's answer after any history = "nothing offered so far dominates the newcomer" *)
  Theorem c03_accept_iff_offered : forall l s, Forall P l -> P s ->
    snd (add T cmp (archive T cmp l) s) = nd T cmp l s.
  Proof. exact (add_accept_offered T cmp P cmp_range cmp_antisym dom_trans dom_irrefl). Qed.

  (* the stand-alone filter returns the same list *)
  Theorem c03_nondominated_eq : forall l, nondominated T cmp l = archive T cmp l.
  Proof. exact (nondominated_eq T cmp). Qed.

  Theorem c03_nondominated_char : forall l, Forall P l -> nondominated T cmp l = filter (nd T cmp l) l.
  Proof. exact (nondominated_char T cmp P cmp_range cmp_antisym dom_trans dom_irrefl). Qed.

  (* the bulk forms are the fold of add *)
  Theorem c03_extend_is_fold : forall a l, extend T cmp a l = fold_left (fun a s => fst (add T cmp a s)) l a.
  Proof. exact (extend_fold T cmp). Qed.

  Theorem c03_iadd_is_fold : forall a l, iadd_list T cmp a l = fold_left (fun a s => fst (add T cmp a s)) l a.
  Proof. exact (iadd_list_fold T cmp). Qed.

  Theorem c03_history_is_fold : forall ops, run_ops T cmp ops [] = archive T cmp (offered T ops).
  Proof. exact (run_ops_archive T cmp). Qed.
End C03_generic.

Section C03_pareto.
  Variable V : Type.
  Variable ltb : V -> V -> bool.
  Variable neg : V -> V.
  Variable zero : V.
  Hypothesis L : OrdLaws V ltb neg.
  Variable c : bool.              (* problem.nconstrs > 0 *)
  Variable dirs : list bool.      (* problem.directions, true = MAXIMIZE *)
  Notation S := (sol V).
  Notation scmp := (sol_cmp V ltb neg zero c dirs).
  Notation wfs := (sol_wf V ltb zero dirs).

  (* the contract of Part 1 holds for Pareto dominance (instantiation of C02's theorems) *)
  Theorem c03_pareto_range : forall x y : S, scmp x y = -1 \/ scmp x y = 0 \/ scmp x y = 1.
  Proof. exact (scmp_range V ltb neg zero L c dirs). Qed.

  Theorem c03_pareto_antisym : forall x y : S, wfs x -> wfs y -> scmp y x = - scmp x y.
  Proof. exact (scmp_antisym V ltb neg zero L c dirs). Qed.

  Theorem c03_pareto_dom_trans : forall x y z : S, wfs x -> wfs y -> wfs z ->
    dom S scmp x y = true -> dom S scmp y z = true -> dom S scmp x z = true.
  Proof. exact (sdom_trans V ltb neg zero L c dirs). Qed.

  Theorem c03_pareto_dom_irrefl : forall x : S, wfs x -> dom S scmp x x = false.
  Proof. exact (sdom_irrefl V ltb neg zero L c dirs). Qed.

  Theorem c03_pareto_add_accept_iff : forall a s, Forall wfs a -> wfs s ->
    (snd (add S scmp a s) = true <-> forall m, In m a -> dom S scmp m s = false).
  Proof. exact (pareto_add_accept_iff V ltb neg zero L c dirs). Qed.

  Theorem c03_pareto_archive_char : forall l, Forall wfs l -> archive S scmp l = filter (nd S scmp l) l.
  Proof. exact (pareto_archive_char V ltb neg zero L c dirs). Qed.

  Theorem c03_pareto_history_char : forall ops, Forall wfs (offered S ops) ->
    run_ops S scmp ops [] = filter (nd S scmp (offered S ops)) (offered S ops).
  Proof. exact (pareto_history_char V ltb neg zero L c dirs). Qed.

  Theorem c03_pareto_inv_pairwise : forall ops, Forall wfs (offered S ops) ->
    pairwise_nd S scmp (run_ops S scmp ops []).
  Proof. exact (pareto_history_pairwise V ltb neg zero L c dirs). Qed.

  Theorem c03_pareto_order_independent : forall l l', Forall wfs l -> Permutation l l' ->
    Permutation (archive S scmp l) (archive S scmp l').
  Proof. exact (pareto_order_independent V ltb neg zero L c dirs). Qed.

  Theorem c03_pareto_nondominated_char : forall l, Forall wfs l ->
    nondominated S scmp l = filter (nd S scmp l) l.
  Proof. exact (pareto_nondominated_char V ltb neg zero L c dirs). Qed.

  (* solutions with identical objective vectors (and violation) are all kept *)
  Theorem c03_pareto_twins_kept : forall l x x', Forall wfs l -> In x (archive S scmp l) -> In x' l ->
    twin V ltb x x' = true -> In x' (archive S scmp l).
  Proof. exact (pareto_twins_kept V ltb neg zero L c dirs). Qed.
End C03_pareto.

(* the executable instance run by the correspondence check *)
Theorem c03_xq_history_char : forall c dirs ops, Forall (sol_wf xq xltb xzero dirs) (offered xsol ops) ->
  x_run_ops c dirs ops [] = filter (nd xsol (x_sol_cmp c dirs) (offered xsol ops)) (offered xsol ops).
Proof. exact (pareto_history_char xq xltb xneg xzero xq_laws). Qed.

Theorem c03_xq_nondominated_char : forall c dirs l, Forall (sol_wf xq xltb xzero dirs) l ->
  x_nondominated c dirs l = filter (nd xsol (x_sol_cmp c dirs) l) l.
Proof. exact (pareto_nondominated_char xq xltb xneg xzero xq_laws). Qed.
