(* C10 — maximising an objective is equivalent to minimising its negation.
   Only statements; every proof is [exact lemma].  J is a mask (true = objective flipped).
     flipd J dirs          directions with J flipped          flipv neg J objs / flipq / flipx     objectives negated on J
     flip_dsol / flip_xsol / flip_esol / flip_isol / flip_ecfg   the solutions / configurations of the models of C02-C05, C15, C16
     flip_min / flip_max / flip_hv_bounds                    explicit bounds (min' = -max, max' = -min on J) / reference set flipped
     flipn J v             x -> 1 - x on J (normalised vectors)
   Discrete components (dominance, epsilon-dominance, archives, ranks): results are EQUAL (=).
   Indicators over exact Q: results are the same rational numbers (==); GD / IGD through their exact
   ingredients (list of squared nearest distances and divisor, see Props/C16.v). *)
From Coq Require Import ZArith QArith Bool List.
Import ListNotations.
From PV Require Import Base.Num Base.Order Model.Dominance Model.Archive Model.Epsilon Model.NDSort
                       Model.Indicators Model.Hypervolume Model.Negation
                       Proofs.IndicatorsProofs Proofs.HypervolumeProofs Proofs.NegationProofs.
Open Scope Q_scope.

(* ---------- Pareto dominance: any carrier whose negation is an involution ---------- *)
Theorem c10_pareto_flip : forall (V : Type) (ltb : V -> V -> bool) (neg : V -> V) (zero : V),
  (forall x, neg (neg x) = x) ->
  forall c dirs J s1 s2,
    pareto_compare V ltb neg zero c (flipd J dirs) (flip_dsol neg J s1) (flip_dsol neg J s2) =
    pareto_compare V ltb neg zero c dirs s1 s2.
Proof. exact pareto_flip. Qed.

(* the executable carrier (every non-NaN float incl. +-inf): xneg is an involution *)
Theorem c10_xq_negation_involutive : forall x, xneg (xneg x) = x.
Proof. exact xneg_involutive. Qed.

Theorem c10_pareto_flip_xq : forall c dirs J s1 s2,
  x_pareto_compare c (flipd J dirs) (flip_dsol xneg J s1) (flip_dsol xneg J s2) = x_pareto_compare c dirs s1 s2.
Proof. exact x_pareto_flip. Qed.

(* ---------- epsilon dominance ---------- *)
Theorem c10_eps_compare_flip : forall c J s1 s2,
  eps_compare (flip_ecfg J c) (flip_esol J s1) (flip_esol J s2) = eps_compare c s1 s2.
Proof. exact eps_compare_flip. Qed.

Theorem c10_same_box_flip : forall c J s1 s2,
  same_box (flip_ecfg J c) (flip_esol J s1) (flip_esol J s2) = same_box c s1 s2.
Proof. exact same_box_flip. Qed.

(* ---------- archive membership, every insertion history ---------- *)
Theorem c10_archive_flip : forall c dirs J (l : list xsol),
  x_archive c (flipd J dirs) (map (flip_xsol J) l) = map (flip_xsol J) (x_archive c dirs l).
Proof. exact archive_flip. Qed.

Theorem c10_archive_flip_members : forall c dirs J (l : list xsol),
  map sid (x_archive c (flipd J dirs) (map (flip_xsol J) l)) = map sid (x_archive c dirs l).
Proof. exact archive_flip_sids. Qed.

(* EpsilonBoxArchive: members and improvements counter *)
Theorem c10_eps_archive_flip : forall c J l,
  eps_box_run (flip_ecfg J c) (map (flip_esol J) l) = option_map (flip_box_state J) (eps_box_run c l).
Proof. exact eps_archive_flip. Qed.

(* Archive(EpsilonDominance(eps)) *)
Theorem c10_eps_plain_archive_flip : forall c J l a,
  eps_plain_run_from (flip_ecfg J c) (map (flip_esol J) a) (map (flip_esol J) l) =
  option_map (map (flip_esol J)) (eps_plain_run_from c a l).
Proof. exact eps_plain_archive_flip. Qed.

(* ---------- non-dominated rank ---------- *)
Theorem c10_rank_flip : forall c dirs J (l : list xsol),
  x_ranks c (flipd J dirs) (map (flip_xsol J) l) = x_ranks c dirs l.
Proof. exact rank_flip. Qed.

(* ---------- normalisation ---------- *)
Theorem c10_normalize_flip : forall J o mins maxs,
  Forall2 (fun lo hi => ~ hi - lo == 0) mins maxs ->
  Forall2 Qeq (normv (flip_min J mins maxs) (flip_max J mins maxs) (flipq J o)) (flipn J (normv mins maxs o)).
Proof. exact normalize_flip. Qed.

(* bounds computed from a flipped reference set are the flipped bounds *)
Theorem c10_reference_bounds_flip : forall nobjs J ref set set' c c' st0 st0',
  accepted nobjs ref set c st0 -> accepted nobjs (map (flip_isol J) ref) set' c' st0' ->
  Forall2 Qeq (i_min c') (flip_min J (i_min c) (i_max c)) /\ Forall2 Qeq (i_max c') (flip_max J (i_min c) (i_max c)).
Proof. exact bounds_flip. Qed.

(* ---------- the indicators ---------- *)
Theorem c10_eps_indicator_flip : forall nobjs dirs J ref set c c' st0 st0',
  accepted nobjs ref set c st0 -> accepted nobjs (map (flip_isol J) ref) (map (flip_isol J) set) c' st0' ->
  length dirs = nobjs ->
  match eps_indicator nobjs dirs ref set, eps_indicator nobjs (flipd J dirs) (map (flip_isol J) ref) (map (flip_isol J) set) with
  | Ok XInf, Ok XInf => True
  | Ok (XFin e), Ok (XFin e') => e == e'
  | _, _ => False
  end.
Proof. exact eps_indicator_flip. Qed.

Theorem c10_gd_flip : forall nobjs J ref set c c' st0 st0',
  accepted nobjs ref set c st0 -> accepted nobjs (map (flip_isol J) ref) (map (flip_isol J) set) c' st0' ->
  match gd_indicator nobjs ref set, gd_indicator nobjs (map (flip_isol J) ref) (map (flip_isol J) set) with
  | Ok IInf, Ok IInf => True
  | Ok (ITerms ts n), Ok (ITerms ts' n') => Forall2 Qeq ts' ts /\ n = n'
  | _, _ => False
  end.
Proof. exact gd_flip. Qed.

Theorem c10_igd_flip : forall nobjs J ref set c c' st0 st0',
  accepted nobjs ref set c st0 -> accepted nobjs (map (flip_isol J) ref) (map (flip_isol J) set) c' st0' ->
  match igd_indicator nobjs ref set, igd_indicator nobjs (map (flip_isol J) ref) (map (flip_isol J) set) with
  | Ok IInf, Ok IInf => True
  | Ok (ITerms ts n), Ok (ITerms ts' n') => Forall2 Qeq ts' ts /\ n = n'
  | _, _ => False
  end.
Proof. exact igd_flip. Qed.

Theorem c10_hv_flip : forall nobjs dirs J mins maxs set,
  hv_pre nobjs dirs mins maxs -> wf_set nobjs (feasible set) ->
  exists v v', hv_indicator repaired nobjs dirs (inl (mins, maxs)) set = Ok v /\
               hv_indicator repaired nobjs (flipd J dirs) (flip_hv_bounds J (inl (mins, maxs))) (map (flip_isol J) set) = Ok v' /\
               v == v'.
Proof. exact hv_flip. Qed.

Theorem c10_hv_flip_reference_set : forall nobjs dirs J ref set c c' st0 st0',
  (2 <= nobjs)%nat -> length dirs = nobjs ->
  accepted nobjs ref set c st0 -> accepted nobjs (map (flip_isol J) ref) (map (flip_isol J) set) c' st0' ->
  wf_set nobjs (feasible set) ->
  exists v v', hv_indicator repaired nobjs dirs (inr ref) set = Ok v /\
               hv_indicator repaired nobjs (flipd J dirs) (flip_hv_bounds J (inr ref)) (map (flip_isol J) set) = Ok v' /\
               v == v'.
Proof. exact hv_flip_refset. Qed.

(* ---------- hypotheses satisfiable; the pre-repair code violates the law ---------- *)
Theorem c10_hypotheses_satisfiable :
  exists c' st0', accepted 2 (map (flip_isol exJ) ex16_ref) (map (flip_isol exJ) ex16_set) c' st0' /\
                  i_min c' = [-(4); 0] /\ i_max c' = [-0; 2].
Proof. exact ex10_flipped_accepted. Qed.

Theorem c10_example_values :
  x_pareto_compare false [false; true] (Build_dsol [F 1 0; F 1 1] xzero) (Build_dsol [F 1 1; F 1 0] xzero) = (-1)%Z /\
  x_pareto_compare false (flipd exJ [false; true]) (flip_dsol xneg exJ (Build_dsol [F 1 0; F 1 1] xzero))
                   (flip_dsol xneg exJ (Build_dsol [F 1 1; F 1 0] xzero)) = (-1)%Z /\
  xval_is (eps_indicator 2 [true; false] ex16_ref ex16_set) (-1 # 4) = true /\
  xval_is (eps_indicator 2 (flipd exJ [true; false]) (map (flip_isol exJ) ex16_ref) (map (flip_isol exJ) ex16_set)) (-1 # 4) = true /\
  terms_are (gd_indicator 2 (map (flip_isol exJ) ex16_ref) (map (flip_isol exJ) ex16_set)) [1#16; 0; 5#16] 3 = true /\
  terms_are (igd_indicator 2 (map (flip_isol exJ) ex16_ref) (map (flip_isol exJ) ex16_set)) [5#16; 5#16; 0] 3 = true /\
  res_is (hv_indicator repaired 3 (flipd [true; false; true] ex_dirs) (flip_hv_bounds [true; false; true] (inl ([0;0;0], [1;1;1])))
            (map (flip_isol [true; false; true]) ex_set)) (33 # 64) = true.
Proof. exact ex10_values. Qed.

Theorem c10_prerepair_hypervolume_violates_flip :
  res_is (hv_indicator (HvFlags false true) 2 [true; true] (inl ([0;0], [1;1])) [ISol 0 [2; 1#2] 0]) 0 = true /\
  res_is (hv_indicator (HvFlags false true) 2 (flipd [true; true] [true; true]) (flip_hv_bounds [true; true] (inl ([0;0], [1;1])))
            (map (flip_isol [true; true]) [ISol 0 [2; 1#2] 0])) (1 # 2) = true /\
  res_is (hv_indicator repaired 2 [true; true] (inl ([0;0], [1;1])) [ISol 0 [2; 1#2] 0]) (1 # 2) = true.
Proof. exact prerepair_hv_violates_flip. Qed.

Theorem c10_prerepair_eps_indicator_violates_flip :
  xval_is (prerepair_eps 2 [true; true] [ISol 100 [0;1] 0; ISol 101 [1;0] 0] [ISol 0 [1#2;0] 0; ISol 1 [0;1#2] 0]) 0 = true /\
  xval_is (prerepair_eps 2 (flipd [true; true] [true; true]) (map (flip_isol [true; true]) [ISol 100 [0;1] 0; ISol 101 [1;0] 0])
             (map (flip_isol [true; true]) [ISol 0 [1#2;0] 0; ISol 1 [0;1#2] 0])) (1 # 2) = true /\
  xval_is (eps_indicator 2 [true; true] [ISol 100 [0;1] 0; ISol 101 [1;0] 0] [ISol 0 [1#2;0] 0; ISol 1 [0;1#2] 0]) (1 # 2) = true.
Proof. exact prerepair_eps_violates_flip. Qed.
