(* C01 — every exposed solution carries the objectives of its own decision variables.
   Only statements; every proof is [exact lemma].

   Reading guide.  A solution is a record {sid; vars (encoded); objs; cons; cv; feasible; evaluated}.
     Good s  :=  evaluated s = true  /\  objs s = fst (F (decode (vars s)))  /\  cons s = snd (F (decode (vars s)))
                 /\  cv s = viol C (cons s)  /\  feasible s = (cv s == 0)
   for the user's function F (ANY function: a Section variable) and the declared constraint
   functions C (ANY list of functions).  Safe s := evaluated s = true -> Good s.
   Theorems 1-4 of DESIGN.md section 6/C01; theorem 2 of the design (per-operator flag discipline)
   is a premise of the skeleton ([P_vary]) that the trace checker tests on every submitted
   solution ([produced_b]); per-operator proofs belong to C06.  Theorem 5 (each algorithm's
   step is an instance of the skeleton) is proved for the step MODELS of Model/AlgSteps.v
   (c01_<alg>_step_ok at the end of this file: GA, ES, NSGA-II with/without archive, NSGA-III,
   SPEA2, eps-NSGA-II incl. restart, eps-MOEA, GDE3, MOEA/D, IBEA, PAES, PESA2, the particle
   swarms, CMA-ES, and the initialisations); those models abstract randomness as tapes and
   operators / survival / archive insertion as functions meeting stated contracts.  That the
   real code follows these models is validated on every traced run: [accepts] for the generic
   skeleton (c01_accepts_sound / c01_run_checked) and the attribute-wise data-flow rules of the
   algorithm's model ([iter_rules], Harness/H01.v c01_flow_check). *)
From Coq Require Import ZArith Bool List.
From PV Require Import Model.Evaluate Model.AlgSkeleton Model.AlgSteps Proofs.EvaluateProofs Proofs.AlgSkeletonProofs Proofs.AlgStepsProofs.
Open Scope Z_scope.

Section C01.
  Variable Val : Type.
  Variable Num : Type.
  Variable Ty  : Type.
  Variable decode : Ty -> Val -> Val.
  Variable encode : Ty -> Val -> Val.
  Variable F : list Val -> list Num * list Num.
  Variable C : list (Num -> Num).
  Variable nabs : Num -> Num.
  Variable nadd : Num -> Num -> Num.
  Variable nzero : Num.
  Variable niszero : Num -> bool.
  Variable types : list Ty.
  Variable val_eqb : Val -> Val -> bool.
  Variable num_eqb : Num -> Num -> bool.
  (* identity for Real/Binary/Permutation/Subset; C17's round trip for Integer (c01_roundtrip_executable) *)
  Hypothesis roundtrip : forall t v, In t types -> decode t (encode t (decode t v)) = decode t v.
  Hypothesis val_eqb_sound : forall a b, val_eqb a b = true -> a = b.
  Hypothesis num_eqb_sound : forall a b, num_eqb a b = true -> a = b.

  Notation sol := (sol Val Num).
  Notation problem_call := (problem_call Val Num Ty decode encode F C nabs nadd nzero niszero types).
  Notation evaluate_all := (evaluate_all Val Num).
  Notation ev_inplace := (ev_inplace Val Num Ty decode encode F C nabs nadd nzero niszero types).
  Notation ev_spec := (ev_spec Val Num Ty decode encode F C nabs nadd nzero niszero types).
  Notation Good := (Good Val Num Ty decode F C nabs nadd nzero niszero types).
  Notation Safe := (Safe Val Num Ty decode F C nabs nadd nzero niszero types).
  Notation decode_vars := (decode_vars Val Ty decode types).
  Notation accepts := (accepts Val Num Ty decode encode F C nabs nadd nzero niszero types val_eqb num_eqb).
  Notation safe_b := (safe_b Val Num Ty decode F C nabs nadd nzero niszero types num_eqb).

  (* (1) Problem.__call__ leaves a consistent, evaluated solution with the same identity and the same decoded variables *)
  Theorem c01_problem_call_good : forall s, Good (problem_call s).
  Proof. exact (problem_call_good Val Num Ty decode encode F C nabs nadd nzero niszero types roundtrip). Qed.

  Theorem c01_problem_call_keeps_variables : forall s,
    sid (problem_call s) = sid s /\ decode_vars (vars (problem_call s)) = decode_vars (vars s).
  Proof. exact (fun s => conj (problem_call_sid Val Num Ty decode encode F C nabs nadd nzero niszero types s)
                              (problem_call_decoded Val Num Ty decode encode F C nabs nadd nzero niszero types roundtrip s)). Qed.

  (* (2) evaluate_all, for every evaluator that returns the jobs in order, each evaluated in place or
     as an evaluated copy: position by position the solution keeps its identity and decoded variables,
     is untouched if its flag was set, and is Good if it was clear *)
  Theorem c01_evaluate_all_good : forall ev sols, ev_spec ev ->
    Forall2 (fun s s' => sid s' = sid s /\ decode_vars (vars s') = decode_vars (vars s) /\
                         (evaluated s = true -> s' = s) /\ (evaluated s = false -> Good s'))
            sols (evaluate_all ev sols).
  Proof. exact (evaluate_all_rel Val Num Ty decode encode F C nabs nadd nzero niszero types roundtrip). Qed.

  Theorem c01_evaluate_all_all_good : forall ev sols, ev_spec ev -> Forall Safe sols -> Forall Good (evaluate_all ev sols).
  Proof. exact (evaluate_all_good Val Num Ty decode encode F C nabs nadd nzero niszero types roundtrip). Qed.

  (* copying evaluators: copying the six fields back gives exactly the in-place result *)
  Theorem c01_evaluate_all_copy_irrelevant : forall ev sols, ev_spec ev -> evaluate_all ev sols = evaluate_all ev_inplace sols.
  Proof. exact (evaluate_all_copy_irrelevant Val Num Ty decode encode F C nabs nadd nzero niszero types). Qed.

  (* (4) Solution.__deepcopy__ carries objectives and flag together *)
  Theorem c01_deepcopy_good : forall k s, Good s -> Good (deepcopy Val Num k s).
  Proof. exact (deepcopy_good Val Num Ty decode F C nabs nadd nzero niszero types). Qed.

  (* (3) the skeleton invariant, one step and every step boundary of every trace *)
  Theorem c01_skeleton_invariant : forall ev exposed st, ev_spec ev ->
    Forall Good exposed -> step_ok Val Num ev exposed st -> Forall Good (s_exposed st).
  Proof. exact (skeleton_invariant Val Num Ty decode encode F C nabs nadd nzero niszero types roundtrip). Qed.

  Theorem c01_trace_invariant : forall ev t, ev_spec ev -> Forall Safe (t_init t) -> trace_ok Val Num ev t ->
    Forall (fun st => Forall Good (s_exposed st)) (t_steps t).
  Proof. exact (trace_good Val Num Ty decode encode F C nabs nadd nzero niszero types roundtrip). Qed.

  (* init: a run that starts with nothing injected *)
  Theorem c01_from_scratch : forall ev sts, ev_spec ev -> steps_ok Val Num ev nil sts ->
    Forall (fun st => Forall Good (s_exposed st)) sts.
  Proof. exact (trace_good_from_scratch Val Num Ty decode encode F C nabs nadd nzero niszero types roundtrip). Qed.

  (* the executable checker: an accepted trace is a trace of the skeleton, for every conforming evaluator *)
  Theorem c01_accepts_sound : forall ev t, ev_spec ev -> accepts t = true -> trace_ok Val Num ev t.
  Proof. exact (accepts_sound_any_ev Val Num Ty decode encode F C nabs nadd nzero niszero types val_eqb num_eqb val_eqb_sound num_eqb_sound). Qed.

  Theorem c01_accepts_good : forall t, accepts t = true -> forallb safe_b (t_init t) = true ->
    Forall (fun st => Forall Good (s_exposed st)) (t_steps t).
  Proof. exact (accepts_good Val Num Ty decode encode F C nabs nadd nzero niszero types val_eqb num_eqb roundtrip val_eqb_sound num_eqb_sound). Qed.
End C01.

(* the hypotheses hold for the executable carrier on which the traces of real runs are checked *)
Theorem c01_roundtrip_executable : forall t v, ev_wf_ty t -> ev_decode t (ev_encode t (ev_decode t v)) = ev_decode t v.
Proof. exact ev_roundtrip. Qed.

(* what one accepted trace of a real run establishes (the check run by Harness/H01.v) *)
Theorem c01_run_checked : forall types tab cs (t : trace ev_val ev_num), Forall ev_wf_ty types ->
  ev_accepts types tab cs t = true -> forallb (ev_safe_b types tab cs) (t_init t) = true ->
  Forall (fun st => Forall (ev_Good types tab cs) (s_exposed st)) (t_steps t).
Proof. exact (fun types tab cs t W => ev_accepts_good types tab cs W t). Qed.

(* ------------------------------------------------------------------------- *)
(* DESIGN item 5: the step functions of the algorithms (Model/AlgSteps.v) are instances of the skeleton.
   Each theorem is closed: its hypotheses are the contracts of the abstract components of that model
   (evaluator contract = C12; flag discipline of variators = C06; "flag of the result is clear" for the
   PSO position update / CMA-ES sampler / generator; "output ⊆ input" for survival, truncation and archive
   insertion).  With c01_skeleton_invariant: if every exposed solution is Good before such a step, every
   exposed solution is Good after it (generic form: c01_model_step_good). *)

(* GeneticAlgorithm.initialize *)
Theorem c01_ga_initialize_step_ok :
    forall (Val Num Ty : Type) (decode encode : Ty -> Val -> Val) (F : list Val -> list Num * list Num)
         (C : list (Num -> Num)) (nabs : Num -> Num) (nadd : Num -> Num -> Num) (nzero : Num) 
         (niszero : Num -> bool) (types : list Ty) (ev : list (sol Val Num) -> list (jobres Val Num)) 
         (T : Type) (vary : T -> list (sol Val Num) -> list (sol Val Num))
         (mutate move : T -> sol Val Num -> sol Val Num) (sample : T -> sol Val Num) (Gen : sol Val Num -> Prop)
         (sortf : list (sol Val Num) -> list (sol Val Num)),
       ev_spec Val Num Ty decode encode F C nabs nadd nzero niszero types ev ->
       (forall (t : T) (ps : list (sol Val Num)) (c : sol Val Num),
        In c (vary t ps) -> exists p : sol Val Num, In p ps /\ flag_discipline Val Num p c) ->
       (forall (t : T) (p : sol Val Num), flag_discipline Val Num p (mutate t p)) ->
       (forall (t : T) (p : sol Val Num), evaluated (move t p) = false) ->
       (forall t : T, evaluated (sample t) = false) ->
       (forall s : sol Val Num, Gen s -> evaluated s = false) ->
       (forall l : list (sol Val Num), incl (sortf l) l) ->
       forall injected gen : list (sol Val Num),
       generated Val Num Gen injected gen ->
       Forall (fun s : sol Val Num => evaluated s = true) injected ->
       step_ok Val Num ev injected
         {|
           s_batches := snd (ga_initialize Val Num ev sortf gen);
           s_exposed := ga_exposed Val Num (fst (ga_initialize Val Num ev sortf gen))
         |}.
Proof. exact ga_initialize_step_ok. Qed.

(* GeneticAlgorithm.iterate *)
Theorem c01_ga_step_ok :
    forall (Val Num Ty : Type) (decode encode : Ty -> Val -> Val) (F : list Val -> list Num * list Num)
         (C : list (Num -> Num)) (nabs : Num -> Num) (nadd : Num -> Num -> Num) (nzero : Num) 
         (niszero : Num -> bool) (types : list Ty) (ev : list (sol Val Num) -> list (jobres Val Num)) 
         (T : Type) (vary : T -> list (sol Val Num) -> list (sol Val Num))
         (mutate move : T -> sol Val Num -> sol Val Num) (sample : T -> sol Val Num) (Gen : sol Val Num -> Prop)
         (survive : list (sol Val Num) -> list (sol Val Num)),
       ev_spec Val Num Ty decode encode F C nabs nadd nzero niszero types ev ->
       (forall (t : T) (ps : list (sol Val Num)) (c : sol Val Num),
        In c (vary t ps) -> exists p : sol Val Num, In p ps /\ flag_discipline Val Num p c) ->
       (forall (t : T) (p : sol Val Num), flag_discipline Val Num p (mutate t p)) ->
       (forall (t : T) (p : sol Val Num), evaluated (move t p) = false) ->
       (forall t : T, evaluated (sample t) = false) ->
       (forall s : sol Val Num, Gen s -> evaluated s = false) ->
       (forall l : list (sol Val Num), incl (survive l) l) ->
       forall (tape : list (list nat * T)) (st : ga_st Val Num),
       Forall (fun s : sol Val Num => evaluated s = true) (ga_exposed Val Num st) ->
       step_ok Val Num ev (ga_exposed Val Num st)
         {|
           s_batches := snd (ga_iterate Val Num ev T vary survive tape st);
           s_exposed := ga_exposed Val Num (fst (ga_iterate Val Num ev T vary survive tape st))
         |}.
Proof. exact ga_step_ok. Qed.

(* EvolutionaryStrategy.iterate *)
Theorem c01_es_step_ok :
    forall (Val Num Ty : Type) (decode encode : Ty -> Val -> Val) (F : list Val -> list Num * list Num)
         (C : list (Num -> Num)) (nabs : Num -> Num) (nadd : Num -> Num -> Num) (nzero : Num) 
         (niszero : Num -> bool) (types : list Ty) (ev : list (sol Val Num) -> list (jobres Val Num)) 
         (T : Type) (vary : T -> list (sol Val Num) -> list (sol Val Num))
         (mutate move : T -> sol Val Num -> sol Val Num) (sample : T -> sol Val Num) (Gen : sol Val Num -> Prop)
         (survive : list (sol Val Num) -> list (sol Val Num)),
       ev_spec Val Num Ty decode encode F C nabs nadd nzero niszero types ev ->
       (forall (t : T) (ps : list (sol Val Num)) (c : sol Val Num),
        In c (vary t ps) -> exists p : sol Val Num, In p ps /\ flag_discipline Val Num p c) ->
       (forall (t : T) (p : sol Val Num), flag_discipline Val Num p (mutate t p)) ->
       (forall (t : T) (p : sol Val Num), evaluated (move t p) = false) ->
       (forall t : T, evaluated (sample t) = false) ->
       (forall s : sol Val Num, Gen s -> evaluated s = false) ->
       (forall l : list (sol Val Num), incl (survive l) l) ->
       forall (ts : list T) (pop : list (sol Val Num)),
       Forall (fun s : sol Val Num => evaluated s = true) pop ->
       step_ok Val Num ev pop
         {|
           s_batches := snd (es_iterate Val Num ev T vary survive ts pop);
           s_exposed := fst (es_iterate Val Num ev T vary survive ts pop)
         |}.
Proof. exact es_step_ok. Qed.

(* NSGAII.initialize (archive optional; also EpsMOEA / PAES / PESA2 / CMAES-style archive += population) *)
Theorem c01_nsga2_initialize_step_ok :
    forall (Val Num Ty : Type) (decode encode : Ty -> Val -> Val) (F : list Val -> list Num * list Num)
         (C : list (Num -> Num)) (nabs : Num -> Num) (nadd : Num -> Num -> Num) (nzero : Num) 
         (niszero : Num -> bool) (types : list Ty) (ev : list (sol Val Num) -> list (jobres Val Num)) 
         (T : Type) (vary : T -> list (sol Val Num) -> list (sol Val Num))
         (mutate move : T -> sol Val Num -> sol Val Num) (sample : T -> sol Val Num) (Gen : sol Val Num -> Prop)
         (arch_add : list (sol Val Num) -> sol Val Num -> list (sol Val Num)),
       ev_spec Val Num Ty decode encode F C nabs nadd nzero niszero types ev ->
       (forall (t : T) (ps : list (sol Val Num)) (c : sol Val Num),
        In c (vary t ps) -> exists p : sol Val Num, In p ps /\ flag_discipline Val Num p c) ->
       (forall (t : T) (p : sol Val Num), flag_discipline Val Num p (mutate t p)) ->
       (forall (t : T) (p : sol Val Num), evaluated (move t p) = false) ->
       (forall t : T, evaluated (sample t) = false) ->
       (forall s : sol Val Num, Gen s -> evaluated s = false) ->
       (forall (a : list (sol Val Num)) (s : sol Val Num), incl (arch_add a s) (s :: a)) ->
       forall (injected : list (sol Val Num)) (arch0 : option (list (sol Val Num))) (gen : list (sol Val Num)),
       generated Val Num Gen injected gen ->
       incl (oarch Val Num arch0) injected ->
       Forall (fun s : sol Val Num => evaluated s = true) injected ->
       step_ok Val Num ev injected
         {|
           s_batches := snd (nsga2_initialize Val Num ev arch_add arch0 gen);
           s_exposed := pa_exposed Val Num (fst (nsga2_initialize Val Num ev arch_add arch0 gen))
         |}.
Proof. exact nsga2_initialize_step_ok. Qed.

(* NSGAII.iterate (with or without archive) *)
Theorem c01_nsga2_step_ok :
    forall (Val Num Ty : Type) (decode encode : Ty -> Val -> Val) (F : list Val -> list Num * list Num)
         (C : list (Num -> Num)) (nabs : Num -> Num) (nadd : Num -> Num -> Num) (nzero : Num) 
         (niszero : Num -> bool) (types : list Ty) (ev : list (sol Val Num) -> list (jobres Val Num)) 
         (T : Type) (vary : T -> list (sol Val Num) -> list (sol Val Num))
         (mutate move : T -> sol Val Num -> sol Val Num) (sample : T -> sol Val Num) (Gen : sol Val Num -> Prop)
         (survive : list (sol Val Num) -> list (sol Val Num))
         (arch_add : list (sol Val Num) -> sol Val Num -> list (sol Val Num)),
       ev_spec Val Num Ty decode encode F C nabs nadd nzero niszero types ev ->
       (forall (t : T) (ps : list (sol Val Num)) (c : sol Val Num),
        In c (vary t ps) -> exists p : sol Val Num, In p ps /\ flag_discipline Val Num p c) ->
       (forall (t : T) (p : sol Val Num), flag_discipline Val Num p (mutate t p)) ->
       (forall (t : T) (p : sol Val Num), evaluated (move t p) = false) ->
       (forall t : T, evaluated (sample t) = false) ->
       (forall s : sol Val Num, Gen s -> evaluated s = false) ->
       (forall l : list (sol Val Num), incl (survive l) l) ->
       (forall (a : list (sol Val Num)) (s : sol Val Num), incl (arch_add a s) (s :: a)) ->
       forall (tape : list (list nat * T)) (st : pa_st Val Num),
       Forall (fun s : sol Val Num => evaluated s = true) (pa_exposed Val Num st) ->
       step_ok Val Num ev (pa_exposed Val Num st)
         {|
           s_batches := snd (nsga2_iterate Val Num ev T vary survive arch_add tape st);
           s_exposed := pa_exposed Val Num (fst (nsga2_iterate Val Num ev T vary survive arch_add tape st))
         |}.
Proof. exact nsga2_step_ok. Qed.

(* NSGAIII.iterate *)
Theorem c01_nsga3_step_ok :
    forall (Val Num Ty : Type) (decode encode : Ty -> Val -> Val) (F : list Val -> list Num * list Num)
         (C : list (Num -> Num)) (nabs : Num -> Num) (nadd : Num -> Num -> Num) (nzero : Num) 
         (niszero : Num -> bool) (types : list Ty) (ev : list (sol Val Num) -> list (jobres Val Num)) 
         (T : Type) (vary : T -> list (sol Val Num) -> list (sol Val Num))
         (mutate move : T -> sol Val Num -> sol Val Num) (sample : T -> sol Val Num) (Gen : sol Val Num -> Prop)
         (survive : list (sol Val Num) -> list (sol Val Num)),
       ev_spec Val Num Ty decode encode F C nabs nadd nzero niszero types ev ->
       (forall (t : T) (ps : list (sol Val Num)) (c : sol Val Num),
        In c (vary t ps) -> exists p : sol Val Num, In p ps /\ flag_discipline Val Num p c) ->
       (forall (t : T) (p : sol Val Num), flag_discipline Val Num p (mutate t p)) ->
       (forall (t : T) (p : sol Val Num), evaluated (move t p) = false) ->
       (forall t : T, evaluated (sample t) = false) ->
       (forall s : sol Val Num, Gen s -> evaluated s = false) ->
       (forall l : list (sol Val Num), incl (survive l) l) ->
       forall (tape : list (list nat * T)) (pop : list (sol Val Num)),
       Forall (fun s : sol Val Num => evaluated s = true) pop ->
       step_ok Val Num ev pop
         {|
           s_batches := snd (plus_iterate Val Num ev T vary survive tape pop);
           s_exposed := fst (plus_iterate Val Num ev T vary survive tape pop)
         |}.
Proof. exact nsga3_step_ok. Qed.

(* SPEA2.iterate *)
Theorem c01_spea2_step_ok :
    forall (Val Num Ty : Type) (decode encode : Ty -> Val -> Val) (F : list Val -> list Num * list Num)
         (C : list (Num -> Num)) (nabs : Num -> Num) (nadd : Num -> Num -> Num) (nzero : Num) 
         (niszero : Num -> bool) (types : list Ty) (ev : list (sol Val Num) -> list (jobres Val Num)) 
         (T : Type) (vary : T -> list (sol Val Num) -> list (sol Val Num))
         (mutate move : T -> sol Val Num -> sol Val Num) (sample : T -> sol Val Num) (Gen : sol Val Num -> Prop)
         (survive : list (sol Val Num) -> list (sol Val Num)),
       ev_spec Val Num Ty decode encode F C nabs nadd nzero niszero types ev ->
       (forall (t : T) (ps : list (sol Val Num)) (c : sol Val Num),
        In c (vary t ps) -> exists p : sol Val Num, In p ps /\ flag_discipline Val Num p c) ->
       (forall (t : T) (p : sol Val Num), flag_discipline Val Num p (mutate t p)) ->
       (forall (t : T) (p : sol Val Num), evaluated (move t p) = false) ->
       (forall t : T, evaluated (sample t) = false) ->
       (forall s : sol Val Num, Gen s -> evaluated s = false) ->
       (forall l : list (sol Val Num), incl (survive l) l) ->
       forall (tape : list (list nat * T)) (pop : list (sol Val Num)),
       Forall (fun s : sol Val Num => evaluated s = true) pop ->
       step_ok Val Num ev pop
         {|
           s_batches := snd (plus_iterate Val Num ev T vary survive tape pop);
           s_exposed := fst (plus_iterate Val Num ev T vary survive tape pop)
         |}.
Proof. exact spea2_step_ok. Qed.

(* EpsNSGAII: NSGAII.iterate followed, in the same step, by an optional restart *)
Theorem c01_epsnsga2_step_ok :
    forall (Val Num Ty : Type) (decode encode : Ty -> Val -> Val) (F : list Val -> list Num * list Num)
         (C : list (Num -> Num)) (nabs : Num -> Num) (nadd : Num -> Num -> Num) (nzero : Num) 
         (niszero : Num -> bool) (types : list Ty) (ev : list (sol Val Num) -> list (jobres Val Num)) 
         (T : Type) (vary : T -> list (sol Val Num) -> list (sol Val Num))
         (mutate move : T -> sol Val Num -> sol Val Num) (sample : T -> sol Val Num) (Gen : sol Val Num -> Prop)
         (survive : list (sol Val Num) -> list (sol Val Num))
         (arch_add : list (sol Val Num) -> sol Val Num -> list (sol Val Num)),
       ev_spec Val Num Ty decode encode F C nabs nadd nzero niszero types ev ->
       (forall (t : T) (ps : list (sol Val Num)) (c : sol Val Num),
        In c (vary t ps) -> exists p : sol Val Num, In p ps /\ flag_discipline Val Num p c) ->
       (forall (t : T) (p : sol Val Num), flag_discipline Val Num p (mutate t p)) ->
       (forall (t : T) (p : sol Val Num), evaluated (move t p) = false) ->
       (forall t : T, evaluated (sample t) = false) ->
       (forall s : sol Val Num, Gen s -> evaluated s = false) ->
       (forall l : list (sol Val Num), incl (survive l) l) ->
       (forall (a : list (sol Val Num)) (s : sol Val Num), incl (arch_add a s) (s :: a)) ->
       forall (tape : list (list nat * T)) (rt : option (list (list nat * T))) (st : pa_st Val Num),
       Forall (fun s : sol Val Num => evaluated s = true) (pa_exposed Val Num st) ->
       step_ok Val Num ev (pa_exposed Val Num st)
         {|
           s_batches := snd (epsnsga2_step Val Num ev T vary survive arch_add tape rt st);
           s_exposed := pa_exposed Val Num (fst (epsnsga2_step Val Num ev T vary survive arch_add tape rt st))
         |}.
Proof. exact epsnsga2_step_ok. Qed.

(* AdaptiveTimeContinuationExtension.restart *)
Theorem c01_restart_step_ok :
    forall (Val Num Ty : Type) (decode encode : Ty -> Val -> Val) (F : list Val -> list Num * list Num)
         (C : list (Num -> Num)) (nabs : Num -> Num) (nadd : Num -> Num -> Num) (nzero : Num) 
         (niszero : Num -> bool) (types : list Ty) (ev : list (sol Val Num) -> list (jobres Val Num)) 
         (T : Type) (vary : T -> list (sol Val Num) -> list (sol Val Num))
         (mutate move : T -> sol Val Num -> sol Val Num) (sample : T -> sol Val Num) (Gen : sol Val Num -> Prop)
         (arch_add : list (sol Val Num) -> sol Val Num -> list (sol Val Num)),
       ev_spec Val Num Ty decode encode F C nabs nadd nzero niszero types ev ->
       (forall (t : T) (ps : list (sol Val Num)) (c : sol Val Num),
        In c (vary t ps) -> exists p : sol Val Num, In p ps /\ flag_discipline Val Num p c) ->
       (forall (t : T) (p : sol Val Num), flag_discipline Val Num p (mutate t p)) ->
       (forall (t : T) (p : sol Val Num), evaluated (move t p) = false) ->
       (forall t : T, evaluated (sample t) = false) ->
       (forall s : sol Val Num, Gen s -> evaluated s = false) ->
       (forall (a : list (sol Val Num)) (s : sol Val Num), incl (arch_add a s) (s :: a)) ->
       forall (rt : list (list nat * T)) (st : pa_st Val Num),
       Forall (fun s : sol Val Num => evaluated s = true) (pa_exposed Val Num st) ->
       step_ok Val Num ev (pa_exposed Val Num st)
         {|
           s_batches := snd (restart Val Num ev T vary arch_add rt st);
           s_exposed := pa_exposed Val Num (fst (restart Val Num ev T vary arch_add rt st))
         |}.
Proof. exact restart_step_ok. Qed.

(* EpsMOEA.iterate (steady state) *)
Theorem c01_epsmoea_step_ok :
    forall (Val Num Ty : Type) (decode encode : Ty -> Val -> Val) (F : list Val -> list Num * list Num)
         (C : list (Num -> Num)) (nabs : Num -> Num) (nadd : Num -> Num -> Num) (nzero : Num) 
         (niszero : Num -> bool) (types : list Ty) (ev : list (sol Val Num) -> list (jobres Val Num)) 
         (T : Type) (vary : T -> list (sol Val Num) -> list (sol Val Num))
         (mutate move : T -> sol Val Num -> sol Val Num) (sample : T -> sol Val Num) (Gen : sol Val Num -> Prop)
         (cmp : sol Val Num -> sol Val Num -> Z) (arch_add : list (sol Val Num) -> sol Val Num -> list (sol Val Num)),
       ev_spec Val Num Ty decode encode F C nabs nadd nzero niszero types ev ->
       (forall (t : T) (ps : list (sol Val Num)) (c : sol Val Num),
        In c (vary t ps) -> exists p : sol Val Num, In p ps /\ flag_discipline Val Num p c) ->
       (forall (t : T) (p : sol Val Num), flag_discipline Val Num p (mutate t p)) ->
       (forall (t : T) (p : sol Val Num), evaluated (move t p) = false) ->
       (forall t : T, evaluated (sample t) = false) ->
       (forall s : sol Val Num, Gen s -> evaluated s = false) ->
       (forall (a : list (sol Val Num)) (s : sol Val Num), incl (arch_add a s) (s :: a)) ->
       forall (tp : eps_tape T) (st : pa_st Val Num),
       Forall (fun s : sol Val Num => evaluated s = true) (pa_exposed Val Num st) ->
       step_ok Val Num ev (pa_exposed Val Num st)
         {|
           s_batches := snd (epsmoea_iterate Val Num ev T vary cmp arch_add tp st);
           s_exposed := pa_exposed Val Num (fst (epsmoea_iterate Val Num ev T vary cmp arch_add tp st))
         |}.
Proof. exact epsmoea_step_ok. Qed.

(* GDE3.iterate *)
Theorem c01_gde3_step_ok :
    forall (Val Num Ty : Type) (decode encode : Ty -> Val -> Val) (F : list Val -> list Num * list Num)
         (C : list (Num -> Num)) (nabs : Num -> Num) (nadd : Num -> Num -> Num) (nzero : Num) 
         (niszero : Num -> bool) (types : list Ty) (ev : list (sol Val Num) -> list (jobres Val Num)) 
         (T : Type) (vary : T -> list (sol Val Num) -> list (sol Val Num))
         (mutate move : T -> sol Val Num -> sol Val Num) (sample : T -> sol Val Num) (Gen : sol Val Num -> Prop)
         (cmp : sol Val Num -> sol Val Num -> Z) (survive : list (sol Val Num) -> list (sol Val Num)),
       ev_spec Val Num Ty decode encode F C nabs nadd nzero niszero types ev ->
       (forall (t : T) (ps : list (sol Val Num)) (c : sol Val Num),
        In c (vary t ps) -> exists p : sol Val Num, In p ps /\ flag_discipline Val Num p c) ->
       (forall (t : T) (p : sol Val Num), flag_discipline Val Num p (mutate t p)) ->
       (forall (t : T) (p : sol Val Num), evaluated (move t p) = false) ->
       (forall t : T, evaluated (sample t) = false) ->
       (forall s : sol Val Num, Gen s -> evaluated s = false) ->
       (forall l : list (sol Val Num), incl (survive l) l) ->
       forall (tape : list (list nat * T)) (pop : list (sol Val Num)),
       Forall (fun s : sol Val Num => evaluated s = true) pop ->
       step_ok Val Num ev pop
         {|
           s_batches := snd (gde3_iterate Val Num ev T vary cmp survive tape pop);
           s_exposed := fst (gde3_iterate Val Num ev T vary cmp survive tape pop)
         |}.
Proof. exact gde3_step_ok. Qed.

(* IBEA.iterate (removal loop) *)
Theorem c01_ibea_step_ok :
    forall (Val Num Ty : Type) (decode encode : Ty -> Val -> Val) (F : list Val -> list Num * list Num)
         (C : list (Num -> Num)) (nabs : Num -> Num) (nadd : Num -> Num -> Num) (nzero : Num) 
         (niszero : Num -> bool) (types : list Ty) (ev : list (sol Val Num) -> list (jobres Val Num)) 
         (T : Type) (vary : T -> list (sol Val Num) -> list (sol Val Num))
         (mutate move : T -> sol Val Num -> sol Val Num) (sample : T -> sol Val Num) (Gen : sol Val Num -> Prop)
         (worst : list (sol Val Num) -> nat),
       ev_spec Val Num Ty decode encode F C nabs nadd nzero niszero types ev ->
       (forall (t : T) (ps : list (sol Val Num)) (c : sol Val Num),
        In c (vary t ps) -> exists p : sol Val Num, In p ps /\ flag_discipline Val Num p c) ->
       (forall (t : T) (p : sol Val Num), flag_discipline Val Num p (mutate t p)) ->
       (forall (t : T) (p : sol Val Num), evaluated (move t p) = false) ->
       (forall t : T, evaluated (sample t) = false) ->
       (forall s : sol Val Num, Gen s -> evaluated s = false) ->
       forall (size : nat) (tape : list (list nat * T)) (pop : list (sol Val Num)),
       Forall (fun s : sol Val Num => evaluated s = true) pop ->
       step_ok Val Num ev pop
         {|
           s_batches := snd (ibea_iterate Val Num ev T vary worst size tape pop);
           s_exposed := fst (ibea_iterate Val Num ev T vary worst size tape pop)
         |}.
Proof. exact ibea_step_ok. Qed.

(* PAES.iterate *)
Theorem c01_paes_step_ok :
    forall (Val Num Ty : Type) (decode encode : Ty -> Val -> Val) (F : list Val -> list Num * list Num)
         (C : list (Num -> Num)) (nabs : Num -> Num) (nadd : Num -> Num -> Num) (nzero : Num) 
         (niszero : Num -> bool) (types : list Ty) (ev : list (sol Val Num) -> list (jobres Val Num)) 
         (T : Type) (vary : T -> list (sol Val Num) -> list (sol Val Num))
         (mutate move : T -> sol Val Num -> sol Val Num) (sample : T -> sol Val Num) (Gen : sol Val Num -> Prop)
         (cmp : sol Val Num -> sol Val Num -> Z) (test : list (sol Val Num) -> sol Val Num -> sol Val Num -> bool)
         (arch_add : list (sol Val Num) -> sol Val Num -> list (sol Val Num))
         (arch_added : list (sol Val Num) -> sol Val Num -> bool),
       ev_spec Val Num Ty decode encode F C nabs nadd nzero niszero types ev ->
       (forall (t : T) (ps : list (sol Val Num)) (c : sol Val Num),
        In c (vary t ps) -> exists p : sol Val Num, In p ps /\ flag_discipline Val Num p c) ->
       (forall (t : T) (p : sol Val Num), flag_discipline Val Num p (mutate t p)) ->
       (forall (t : T) (p : sol Val Num), evaluated (move t p) = false) ->
       (forall t : T, evaluated (sample t) = false) ->
       (forall s : sol Val Num, Gen s -> evaluated s = false) ->
       (forall (a : list (sol Val Num)) (s : sol Val Num), incl (arch_add a s) (s :: a)) ->
       forall (t : T) (st : pa_st Val Num),
       Forall (fun s : sol Val Num => evaluated s = true) (pa_exposed Val Num st) ->
       step_ok Val Num ev (pa_exposed Val Num st)
         {|
           s_batches := snd (paes_iterate Val Num ev T vary cmp test arch_add arch_added t st);
           s_exposed := pa_exposed Val Num (fst (paes_iterate Val Num ev T vary cmp test arch_add arch_added t st))
         |}.
Proof. exact paes_step_ok. Qed.

(* PESA2.iterate *)
Theorem c01_pesa2_step_ok :
    forall (Val Num Ty : Type) (decode encode : Ty -> Val -> Val) (F : list Val -> list Num * list Num)
         (C : list (Num -> Num)) (nabs : Num -> Num) (nadd : Num -> Num -> Num) (nzero : Num) 
         (niszero : Num -> bool) (types : list Ty) (ev : list (sol Val Num) -> list (jobres Val Num)) 
         (T : Type) (vary : T -> list (sol Val Num) -> list (sol Val Num))
         (mutate move : T -> sol Val Num -> sol Val Num) (sample : T -> sol Val Num) (Gen : sol Val Num -> Prop)
         (arch_add : list (sol Val Num) -> sol Val Num -> list (sol Val Num)),
       ev_spec Val Num Ty decode encode F C nabs nadd nzero niszero types ev ->
       (forall (t : T) (ps : list (sol Val Num)) (c : sol Val Num),
        In c (vary t ps) -> exists p : sol Val Num, In p ps /\ flag_discipline Val Num p c) ->
       (forall (t : T) (p : sol Val Num), flag_discipline Val Num p (mutate t p)) ->
       (forall (t : T) (p : sol Val Num), evaluated (move t p) = false) ->
       (forall t : T, evaluated (sample t) = false) ->
       (forall s : sol Val Num, Gen s -> evaluated s = false) ->
       (forall (a : list (sol Val Num)) (s : sol Val Num), incl (arch_add a s) (s :: a)) ->
       forall (tape : list (list nat * T)) (st : pa_st Val Num),
       Forall (fun s : sol Val Num => evaluated s = true) (pa_exposed Val Num st) ->
       step_ok Val Num ev (pa_exposed Val Num st)
         {|
           s_batches := snd (pesa2_iterate Val Num ev T vary arch_add tape st);
           s_exposed := pa_exposed Val Num (fst (pesa2_iterate Val Num ev T vary arch_add tape st))
         |}.
Proof. exact pesa2_step_ok. Qed.

(* ParticleSwarm.initialize (OMOPSO: with archive) *)
Theorem c01_pso_initialize_step_ok :
    forall (Val Num Ty : Type) (decode encode : Ty -> Val -> Val) (F : list Val -> list Num * list Num)
         (C : list (Num -> Num)) (nabs : Num -> Num) (nadd : Num -> Num -> Num) (nzero : Num) 
         (niszero : Num -> bool) (types : list Ty) (ev : list (sol Val Num) -> list (jobres Val Num)) 
         (T : Type) (vary : T -> list (sol Val Num) -> list (sol Val Num))
         (mutate move : T -> sol Val Num -> sol Val Num) (sample : T -> sol Val Num) (Gen : sol Val Num -> Prop)
         (trunc : list (sol Val Num) -> list (sol Val Num))
         (arch_add lead_add : list (sol Val Num) -> sol Val Num -> list (sol Val Num)),
       ev_spec Val Num Ty decode encode F C nabs nadd nzero niszero types ev ->
       (forall (t : T) (ps : list (sol Val Num)) (c : sol Val Num),
        In c (vary t ps) -> exists p : sol Val Num, In p ps /\ flag_discipline Val Num p c) ->
       (forall (t : T) (p : sol Val Num), flag_discipline Val Num p (mutate t p)) ->
       (forall (t : T) (p : sol Val Num), evaluated (move t p) = false) ->
       (forall t : T, evaluated (sample t) = false) ->
       (forall s : sol Val Num, Gen s -> evaluated s = false) ->
       (forall l : list (sol Val Num), incl (trunc l) l) ->
       (forall (a : list (sol Val Num)) (s : sol Val Num), incl (arch_add a s) (s :: a)) ->
       (forall (a : list (sol Val Num)) (s : sol Val Num), incl (lead_add a s) (s :: a)) ->
       forall (injected : list (sol Val Num)) (arch0 : option (list (sol Val Num))) (gen : list (sol Val Num)),
       generated Val Num Gen injected gen ->
       incl (oarch Val Num arch0) injected ->
       Forall (fun s : sol Val Num => evaluated s = true) injected ->
       step_ok Val Num ev injected
         {|
           s_batches := snd (pso_initialize Val Num ev trunc arch_add lead_add arch0 gen);
           s_exposed := pso_exposed Val Num (fst (pso_initialize Val Num ev trunc arch_add lead_add arch0 gen))
         |}.
Proof. exact pso_initialize_step_ok. Qed.

(* ParticleSwarm.iterate (OMOPSO with archive, SMPSO without) *)
Theorem c01_pso_step_ok :
    forall (Val Num Ty : Type) (decode encode : Ty -> Val -> Val) (F : list Val -> list Num * list Num)
         (C : list (Num -> Num)) (nabs : Num -> Num) (nadd : Num -> Num -> Num) (nzero : Num) 
         (niszero : Num -> bool) (types : list Ty) (ev : list (sol Val Num) -> list (jobres Val Num)) 
         (T : Type) (vary : T -> list (sol Val Num) -> list (sol Val Num))
         (mutate move : T -> sol Val Num -> sol Val Num) (sample : T -> sol Val Num) (Gen : sol Val Num -> Prop)
         (cmp : sol Val Num -> sol Val Num -> Z) (trunc : list (sol Val Num) -> list (sol Val Num))
         (arch_add lead_add : list (sol Val Num) -> sol Val Num -> list (sol Val Num)),
       ev_spec Val Num Ty decode encode F C nabs nadd nzero niszero types ev ->
       (forall (t : T) (ps : list (sol Val Num)) (c : sol Val Num),
        In c (vary t ps) -> exists p : sol Val Num, In p ps /\ flag_discipline Val Num p c) ->
       (forall (t : T) (p : sol Val Num), flag_discipline Val Num p (mutate t p)) ->
       (forall (t : T) (p : sol Val Num), evaluated (move t p) = false) ->
       (forall t : T, evaluated (sample t) = false) ->
       (forall s : sol Val Num, Gen s -> evaluated s = false) ->
       (forall l : list (sol Val Num), incl (trunc l) l) ->
       (forall (a : list (sol Val Num)) (s : sol Val Num), incl (arch_add a s) (s :: a)) ->
       (forall (a : list (sol Val Num)) (s : sol Val Num), incl (lead_add a s) (s :: a)) ->
       forall (tape : list (T * option T)) (st : pso_st Val Num),
       Forall (fun s : sol Val Num => evaluated s = true) (pso_exposed Val Num st) ->
       step_ok Val Num ev (pso_exposed Val Num st)
         {|
           s_batches := snd (pso_iterate Val Num ev T mutate move cmp trunc arch_add lead_add tape st);
           s_exposed :=
             pso_exposed Val Num (fst (pso_iterate Val Num ev T mutate move cmp trunc arch_add lead_add tape st))
         |}.
Proof. exact pso_step_ok. Qed.

(* CMAES.iterate (= step; initialize ends with iterate) *)
Theorem c01_cmaes_step_ok :
    forall (Val Num Ty : Type) (decode encode : Ty -> Val -> Val) (F : list Val -> list Num * list Num)
         (C : list (Num -> Num)) (nabs : Num -> Num) (nadd : Num -> Num -> Num) (nzero : Num) 
         (niszero : Num -> bool) (types : list Ty) (ev : list (sol Val Num) -> list (jobres Val Num)) 
         (T : Type) (vary : T -> list (sol Val Num) -> list (sol Val Num))
         (mutate move : T -> sol Val Num -> sol Val Num) (sample : T -> sol Val Num) (Gen : sol Val Num -> Prop)
         (sortf : list (sol Val Num) -> list (sol Val Num))
         (arch_add : list (sol Val Num) -> sol Val Num -> list (sol Val Num)),
       ev_spec Val Num Ty decode encode F C nabs nadd nzero niszero types ev ->
       (forall (t : T) (ps : list (sol Val Num)) (c : sol Val Num),
        In c (vary t ps) -> exists p : sol Val Num, In p ps /\ flag_discipline Val Num p c) ->
       (forall (t : T) (p : sol Val Num), flag_discipline Val Num p (mutate t p)) ->
       (forall (t : T) (p : sol Val Num), evaluated (move t p) = false) ->
       (forall t : T, evaluated (sample t) = false) ->
       (forall s : sol Val Num, Gen s -> evaluated s = false) ->
       (forall l : list (sol Val Num), incl (sortf l) l) ->
       (forall (a : list (sol Val Num)) (s : sol Val Num), incl (arch_add a s) (s :: a)) ->
       forall (ts : list T) (st : pa_st Val Num),
       Forall (fun s : sol Val Num => evaluated s = true) (pa_exposed Val Num st) ->
       step_ok Val Num ev (pa_exposed Val Num st)
         {|
           s_batches := snd (cmaes_iterate Val Num ev T sample sortf arch_add ts st);
           s_exposed := pa_exposed Val Num (fst (cmaes_iterate Val Num ev T sample sortf arch_add ts st))
         |}.
Proof. exact cmaes_step_ok. Qed.

(* MOEAD.iterate (one evaluate_all per subproblem, in-place replacement) *)
Theorem c01_moead_step_ok :
    forall (Val Num Ty : Type) (decode encode : Ty -> Val -> Val) (F : list Val -> list Num * list Num)
         (C : list (Num -> Num)) (nabs : Num -> Num) (nadd : Num -> Num -> Num) (nzero : Num) 
         (niszero : Num -> bool) (types : list Ty) (ev : list (sol Val Num) -> list (jobres Val Num)) 
         (T : Type) (vary : T -> list (sol Val Num) -> list (sol Val Num))
         (mutate move : T -> sol Val Num -> sol Val Num) (sample : T -> sol Val Num) (Gen : sol Val Num -> Prop)
         (better : sol Val Num -> sol Val Num -> nat -> bool),
       ev_spec Val Num Ty decode encode F C nabs nadd nzero niszero types ev ->
       (forall (t : T) (ps : list (sol Val Num)) (c : sol Val Num),
        In c (vary t ps) -> exists p : sol Val Num, In p ps /\ flag_discipline Val Num p c) ->
       (forall (t : T) (p : sol Val Num), flag_discipline Val Num p (mutate t p)) ->
       (forall (t : T) (p : sol Val Num), evaluated (move t p) = false) ->
       (forall t : T, evaluated (sample t) = false) ->
       (forall s : sol Val Num, Gen s -> evaluated s = false) ->
       forall (arity eta : nat) (items : list (moead_item T)) (pop : list (sol Val Num)),
       Forall (fun s : sol Val Num => evaluated s = true) pop ->
       step_ok Val Num ev pop
         {|
           s_batches := snd (moead_iterate Val Num ev T vary better arity eta items pop);
           s_exposed := fst (moead_iterate Val Num ev T vary better arity eta items pop)
         |}.
Proof. exact moead_step_ok. Qed.

(* generic form: any model step whose data flow is ok (flow_ok: everything submitted is derived from the pool by
   copy / variation / position update / sampling / generation, everything exposed comes from the pool or the
   evaluated batches) keeps every exposed solution Good *)
Theorem c01_model_step_good :
    forall (Val Num Ty : Type) (decode encode : Ty -> Val -> Val) (F : list Val -> list Num * list Num)
         (C : list (Num -> Num)) (nabs : Num -> Num) (nadd : Num -> Num -> Num) (nzero : Num) 
         (niszero : Num -> bool) (types : list Ty) (ev : list (sol Val Num) -> list (jobres Val Num)) 
         (T : Type) (vary : T -> list (sol Val Num) -> list (sol Val Num))
         (mutate move : T -> sol Val Num -> sol Val Num) (sample : T -> sol Val Num) (Gen : sol Val Num -> Prop),
       (forall (t : Ty) (v : Val), In t types -> decode t (encode t (decode t v)) = decode t v) ->
       ev_spec Val Num Ty decode encode F C nabs nadd nzero niszero types ev ->
       (forall (t : T) (ps : list (sol Val Num)) (c : sol Val Num),
        In c (vary t ps) -> exists p : sol Val Num, In p ps /\ flag_discipline Val Num p c) ->
       (forall (t : T) (p : sol Val Num), flag_discipline Val Num p (mutate t p)) ->
       (forall (t : T) (p : sol Val Num), evaluated (move t p) = false) ->
       (forall t : T, evaluated (sample t) = false) ->
       (forall s : sol Val Num, Gen s -> evaluated s = false) ->
       forall (pool : list (sol Val Num)) (bs : list (batch Val Num)) (exposed' : list (sol Val Num)),
       Forall (Good Val Num Ty decode F C nabs nadd nzero niszero types) pool ->
       flow_ok Val Num ev T vary mutate move sample Gen pool bs exposed' ->
       Forall (Good Val Num Ty decode F C nabs nadd nzero niszero types) exposed'.
Proof. exact flow_good. Qed.
