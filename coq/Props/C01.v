(* C01 — every exposed solution carries the objectives of its own decision variables.
   Only statements; every proof is [exact lemma].

   Reading guide.  A solution is a record {sid; vars (encoded); objs; cons; cv; feasible; evaluated}.
     Good s  :=  evaluated s = true  /\  objs s = fst (F (decode (vars s)))  /\  cons s = snd (F (decode (vars s)))
                 /\  cv s = viol C (cons s)  /\  feasible s = (cv s == 0)
   for the user's function F (ANY function: a Section variable) and the declared constraint
   functions C (ANY list of functions).  Safe s := evaluated s = true -> Good s.
   Theorems 1-4 of DESIGN.md section 6/C01; theorem 2 of the design (per-operator flag discipline)
   is a premise of the skeleton ([P_vary]) that the trace checker tests on every submitted
   solution ([produced_b]); per-operator proofs belong to C06.  Theorem 5 (each algorithm's
   step is an instance of the skeleton) is NOT proved: it is validated on every traced run
   by [accepts] (c01_accepts_sound / c01_run_checked below). *)
From Coq Require Import ZArith Bool List.
From PV Require Import Model.Evaluate Model.AlgSkeleton Proofs.EvaluateProofs Proofs.AlgSkeletonProofs.
Open Scope Z_scope.

Section C01.
  Variable Val : Type.
  Variable Num : Type.
  Variable Ty  : Type.
  Variable decode : Ty -> Val -> Val.
  Variable encode : Ty -> Val -> Val.
  Variable F : list Val -> list Num * list Num.
  Variable C : list (Num -> Num).
  Variable nabs : Num -> Num.
  Variable nadd : Num -> Num -> Num.
  Variable nzero : Num.
  Variable niszero : Num -> bool.
  Variable types : list Ty.
  Variable val_eqb : Val -> Val -> bool.
  Variable num_eqb : Num -> Num -> bool.
  (* identity for Real/Binary/Permutation/Subset; C17's round trip for Integer (c01_roundtrip_executable) *)
  Hypothesis roundtrip : forall t v, In t types -> decode t (encode t (decode t v)) = decode t v.
  Hypothesis val_eqb_sound : forall a b, val_eqb a b = true -> a = b.
  Hypothesis num_eqb_sound : forall a b, num_eqb a b = true -> a = b.

  Notation sol := (sol Val Num).
  Notation problem_call := (problem_call Val Num Ty decode encode F C nabs nadd nzero niszero types).
  Notation evaluate_all := (evaluate_all Val Num).
  Notation ev_inplace := (ev_inplace Val Num Ty decode encode F C nabs nadd nzero niszero types).
  Notation ev_spec := (ev_spec Val Num Ty decode encode F C nabs nadd nzero niszero types).
  Notation Good := (Good Val Num Ty decode F C nabs nadd nzero niszero types).
  Notation Safe := (Safe Val Num Ty decode F C nabs nadd nzero niszero types).
  Notation decode_vars := (decode_vars Val Ty decode types).
  Notation accepts := (accepts Val Num Ty decode encode F C nabs nadd nzero niszero types val_eqb num_eqb).
  Notation safe_b := (safe_b Val Num Ty decode F C nabs nadd nzero niszero types num_eqb).

  (* (1) Problem.__call__ leaves a consistent, evaluated solution with the same identity and the same decoded variables *)
  Theorem c01_problem_call_good : forall s, Good (problem_call s).
  Proof. exact (problem_call_good Val Num Ty decode encode F C nabs nadd nzero niszero types roundtrip). Qed.

  Theorem c01_problem_call_keeps_variables : forall s,
    sid (problem_call s) = sid s /\ decode_vars (vars (problem_call s)) = decode_vars (vars s).
  Proof. exact (fun s => conj (problem_call_sid Val Num Ty decode encode F C nabs nadd nzero niszero types s)
                              (problem_call_decoded Val Num Ty decode encode F C nabs nadd nzero niszero types roundtrip s)). Qed.

  (* (2) evaluate_all, for every evaluator that returns the jobs in order, each evaluated in place or
     as an evaluated copy: position by position the solution keeps its identity and decoded variables,
     is untouched if its flag was set, and is Good if it was clear *)
  Theorem c01_evaluate_all_good : forall ev sols, ev_spec ev ->
    Forall2 (fun s s' => sid s' = sid s /\ decode_vars (vars s') = decode_vars (vars s) /\
                         (evaluated s = true -> s' = s) /\ (evaluated s = false -> Good s'))
            sols (evaluate_all ev sols).
  Proof. exact (evaluate_all_rel Val Num Ty decode encode F C nabs nadd nzero niszero types roundtrip). Qed.

  Theorem c01_evaluate_all_all_good : forall ev sols, ev_spec ev -> Forall Safe sols -> Forall Good (evaluate_all ev sols).
  Proof. exact (evaluate_all_good Val Num Ty decode encode F C nabs nadd nzero niszero types roundtrip). Qed.

  (* copying evaluators: copying the six fields back gives exactly the in-place result *)
  Theorem c01_evaluate_all_copy_irrelevant : forall ev sols, ev_spec ev -> evaluate_all ev sols = evaluate_all ev_inplace sols.
  Proof. exact (evaluate_all_copy_irrelevant Val Num Ty decode encode F C nabs nadd nzero niszero types). Qed.

  (* (4) Solution.__deepcopy__ carries objectives and flag together *)
  Theorem c01_deepcopy_good : forall k s, Good s -> Good (deepcopy Val Num k s).
  Proof. exact (deepcopy_good Val Num Ty decode F C nabs nadd nzero niszero types). Qed.

  (* (3) the skeleton invariant, one step and every step boundary of every trace *)
  Theorem c01_skeleton_invariant : forall ev exposed st, ev_spec ev ->
    Forall Good exposed -> step_ok Val Num ev exposed st -> Forall Good (s_exposed st).
  Proof. exact (skeleton_invariant Val Num Ty decode encode F C nabs nadd nzero niszero types roundtrip). Qed.

  Theorem c01_trace_invariant : forall ev t, ev_spec ev -> Forall Safe (t_init t) -> trace_ok Val Num ev t ->
    Forall (fun st => Forall Good (s_exposed st)) (t_steps t).
  Proof. exact (trace_good Val Num Ty decode encode F C nabs nadd nzero niszero types roundtrip). Qed.

  (* init: a run that starts with nothing injected *)
  Theorem c01_from_scratch : forall ev sts, ev_spec ev -> steps_ok Val Num ev nil sts ->
    Forall (fun st => Forall Good (s_exposed st)) sts.
  Proof. exact (trace_good_from_scratch Val Num Ty decode encode F C nabs nadd nzero niszero types roundtrip). Qed.

  (* the executable checker: an accepted trace is a trace of the skeleton, for every conforming evaluator *)
  Theorem c01_accepts_sound : forall ev t, ev_spec ev -> accepts t = true -> trace_ok Val Num ev t.
  Proof. exact (accepts_sound_any_ev Val Num Ty decode encode F C nabs nadd nzero niszero types val_eqb num_eqb val_eqb_sound num_eqb_sound). Qed.

  Theorem c01_accepts_good : forall t, accepts t = true -> forallb safe_b (t_init t) = true ->
    Forall (fun st => Forall Good (s_exposed st)) (t_steps t).
  Proof. exact (accepts_good Val Num Ty decode encode F C nabs nadd nzero niszero types val_eqb num_eqb roundtrip val_eqb_sound num_eqb_sound). Qed.
End C01.

(* the hypotheses hold for the executable carrier on which the traces of real runs are checked *)
Theorem c01_roundtrip_executable : forall t v, ev_wf_ty t -> ev_decode t (ev_encode t (ev_decode t v)) = ev_decode t v.
Proof. exact ev_roundtrip. Qed.

(* what one accepted trace of a real run establishes (the check run by Harness/H01.v) *)
Theorem c01_run_checked : forall types tab cs (t : trace ev_val ev_num), Forall ev_wf_ty types ->
  ev_accepts types tab cs t = true -> forallb (ev_safe_b types tab cs) (t_init t) = true ->
  Forall (fun st => Forall (ev_Good types tab cs) (s_exposed st)) (t_steps t).
Proof. exact (fun types tab cs t W => ev_accepts_good types tab cs W t). Qed.
