(* C11 — a constraint expression is violated exactly when its relation is false.
   Only statements; every proof is [exact lemma].
   Arithmetic statements are about EXACT rational arithmetic (Q): x is the constraint
   value, y the threshold, delta0 the exact value of the double 0.0001; float rounding
   of  x - y  and  + delta  is not modelled (zero-ness and sign are exact in floats, the
   correspondence checks them on arbitrary floats and the magnitude where it is exact).
   Strings are lists of characters below U+0100; float(token) is a section variable. *)
From Coq Require Import ZArith QArith Qabs Bool List Ascii.
Import ListNotations.
From PV Require Import Base.Num Base.Order Model.Dominance Proofs.DominanceProofs
                       Model.Constraint Proofs.ConstraintProofs.
Open Scope Q_scope.

(* ---- the six operators ---- *)
(* zero violation exactly when the relation holds ... *)
Theorem c11_viol_zero_iff : forall op x y, op_fun op x y == 0 <-> holds op x y.
Proof. exact viol_zero_iff. Qed.

(* ... strictly positive otherwise (and never negative) *)
Theorem c11_viol_pos : forall op x y, ~ holds op x y -> 0 < op_fun op x y.
Proof. exact viol_pos. Qed.

Theorem c11_viol_nonneg : forall op x y, 0 <= op_fun op x y.
Proof. exact viol_nonneg. Qed.

(* strict operators: a value on the infeasible side (incl. the threshold itself) is violated by >= delta *)
Theorem c11_viol_strict_at_least_delta : forall x y,
  (~ x < y -> delta0 <= op_fun OpLt x y) /\ (~ y < x -> delta0 <= op_fun OpGt x y).
Proof. exact viol_strict_at_least_delta. Qed.

(* ==, <=, >=, <, > : moving x further from the feasible side never decreases the violation *)
Theorem c11_viol_monotone : forall op x x' y, further op y x x' -> op_fun op x y <= op_fun op x' y.
Proof. exact viol_monotone. Qed.

(* the same zero-iff on extended values (constraint value -inf / +inf, float comparisons) *)
Theorem c11_x_viol_zero_iff : forall op x y, x_is_zero (x_op_fun op x y) = x_holds op x y.
Proof. exact x_viol_zero_iff. Qed.

(* the executable xq layer used by the correspondence IS the Q layer on finite values *)
Theorem c11_x_call_fin : forall c q, x_call c (Fin q) = Some (Fin (call c q)).
Proof. exact x_call_fin. Qed.

Theorem c11_x_total_fin : forall cs xs, x_total cs (map Fin xs) = Some (Fin (total_viol cs xs)).
Proof. exact x_total_fin. Qed.

(* ---- aggregation in Problem.__call__ ---- *)
(* total violation = sum of the absolute violations *)
Theorem c11_total_viol_sum : forall cs xs, total_viol cs xs == qsum (abs_viols cs xs).
Proof. exact total_viol_sum. Qed.

Theorem c11_total_viol_cons : forall c cs x xs,
  total_viol (c :: cs) (x :: xs) == Qabs (call c x) + total_viol cs xs.
Proof. exact total_viol_cons. Qed.

Theorem c11_total_viol_nonneg : forall cs xs, 0 <= total_viol cs xs.
Proof. exact total_viol_nonneg. Qed.

(* feasible exactly when that sum is zero, i.e. exactly when every relation holds *)
Theorem c11_total_zero_iff : forall cs xs,
  total_viol cs xs == 0 <-> Forall (fun p => sat (fst p) (snd p)) (combine cs xs).
Proof. exact total_zero_iff. Qed.

Theorem c11_feasible_iff_all_hold : forall cs xs,
  feasible cs xs = true <-> Forall (fun p => sat (fst p) (snd p)) (combine cs xs).
Proof. exact feasible_iff_all_hold. Qed.

(* a feasible solution always beats an infeasible one, whatever the objectives
   (C02's model of ParetoDominance.compare with constrained = true, via compare_spec) *)
Theorem c11_feasible_beats_infeasible : forall dirs cs o1 xs1 o2 xs2,
  length o1 = length dirs -> length o2 = length dirs ->
  feasible cs xs1 = true -> feasible cs xs2 = false ->
  x_pareto_compare true dirs (sol_of o1 cs xs1) (sol_of o2 cs xs2) = (-1)%Z /\
  x_pareto_compare true dirs (sol_of o2 cs xs2) (sol_of o1 cs xs1) = 1%Z.
Proof. exact feasible_beats_infeasible. Qed.

(* ---- declaration: the regex, the operator table, the constructor ---- *)
(* operator, any whitespace run (also empty), well-formed token *)
Theorem c11_parse_ok : forall op ws tok, all_of is_space ws -> well_formed_token tok ->
  parse_tokens (op_string op ++ ws ++ tok) = Some (op, tok).
Proof. exact parse_ok. Qed.

(* faithful to Python's "$": one final newline is tolerated *)
Theorem c11_parse_ok_trailing_newline : forall op ws tok, all_of is_space ws -> well_formed_token tok ->
  parse_tokens (op_string op ++ ws ++ tok ++ ["010"%char]) = Some (op, tok).
Proof. exact parse_ok_trailing_newline. Qed.

(* nothing else is accepted *)
Theorem c11_parse_sound : forall s op tok, parse_tokens s = Some (op, tok) ->
  well_formed_token tok /\
  exists ws, all_of is_space ws /\
    (s = op_string op ++ ws ++ tok \/ s = op_string op ++ ws ++ tok ++ ["010"%char]).
Proof. exact parse_sound. Qed.

Theorem c11_parse_empty : parse_tokens [] = None.
Proof. exact parse_empty. Qed.

Theorem c11_parse_missing_operator : forall c s, is_opch c = false -> parse_tokens (c :: s) = None.
Proof. exact parse_missing_operator. Qed.

Theorem c11_parse_missing_value : forall o ws, all_of is_opch o -> all_of is_space ws ->
  parse_tokens (o ++ ws) = None.
Proof. exact parse_missing_value. Qed.

Theorem c11_parse_unknown_operator : forall o ws tok,
  o <> [] -> all_of is_opch o -> lookup_op o = None -> all_of is_space ws -> well_formed_token tok ->
  parse_tokens (o ++ ws ++ tok) = None.
Proof. exact parse_unknown_operator. Qed.

Theorem c11_parse_trailing_rejected : forall op ws tok c rest,
  all_of is_space ws -> well_formed_token tok -> is_tokch c = false -> c :: rest <> ["010"%char] ->
  parse_tokens (op_string op ++ ws ++ tok ++ c :: rest) = None.
Proof. exact parse_trailing_rejected. Qed.

Section C11Ctor.
  (* Python's float(str) *)
  Variable parse_float : list ascii -> option Q.

  Theorem c11_construct_string_ok : forall op ws tok y,
    all_of is_space ws -> well_formed_token tok -> parse_float tok = Some y ->
    construct parse_float (AStr (op_string op ++ ws ++ tok)) = Some (CPartial op y).
  Proof. exact (construct_string_ok parse_float). Qed.

  Theorem c11_construct_string_bad_number : forall op ws tok,
    all_of is_space ws -> well_formed_token tok -> parse_float tok = None ->
    construct parse_float (AStr (op_string op ++ ws ++ tok)) = None.
  Proof. exact (construct_string_bad_number parse_float). Qed.

  Theorem c11_construct_string_rejected : forall s, parse_tokens s = None ->
    construct parse_float (AStr s) = None.
  Proof. exact (construct_string_rejected parse_float). Qed.

  (* the two-argument form, and its .op string  op + str(value) *)
  Theorem c11_construct_pair_ok : forall op v,
    construct parse_float (APair (op_string op) v) = Some (CPartial op v).
  Proof. exact (construct_pair_ok parse_float). Qed.

  Theorem c11_construct_pair_unknown : forall o v, lookup_op o = None ->
    construct parse_float (APair o v) = None.
  Proof. exact (construct_pair_unknown parse_float). Qed.

  Theorem c11_pair_op_string_reparses : forall op strv, well_formed_token strv ->
    parse_tokens (pair_op_string (op_string op) strv) = Some (op, strv).
  Proof. exact pair_op_string_reparses. Qed.

  Theorem c11_construct_copy : forall c, construct parse_float (ACopy c) = Some c.
  Proof. exact (construct_copy parse_float). Qed.

  Theorem c11_construct_callable : forall f, construct parse_float (ACallable f) = Some (CFun f).
  Proof. exact (construct_callable parse_float). Qed.

  (* the predefined constants EQUALS_ZERO, LEQ_ZERO, GEQ_ZERO, LESS_THAN_ZERO, GREATER_THAN_ZERO *)
  Theorem c11_constants_parse :
    parse_tokens EQUALS_ZERO = Some (OpEq, ["0"%char]) /\ parse_tokens LEQ_ZERO = Some (OpLeq, ["0"%char]) /\
    parse_tokens GEQ_ZERO = Some (OpGeq, ["0"%char]) /\ parse_tokens LESS_THAN_ZERO = Some (OpLt, ["0"%char]) /\
    parse_tokens GREATER_THAN_ZERO = Some (OpGt, ["0"%char]).
  Proof. exact constants_parse. Qed.

  (* end to end: declared as a string, violated exactly when the relation is false *)
  Theorem c11_declared_string_zero_iff : forall op ws tok y c x,
    all_of is_space ws -> well_formed_token tok -> parse_float tok = Some y ->
    construct parse_float (AStr (op_string op ++ ws ++ tok)) = Some c ->
    (call c x == 0 <-> holds op x y).
  Proof. exact (declared_string_zero_iff parse_float). Qed.
End C11Ctor.
