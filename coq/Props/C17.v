(* C17 — Integer variables round-trip through Gray-coded bits and never leave range.
   Only statements; every proof is [exact lemma].  All statements are for EVERY
   range min < max and EVERY width (Z is unbounded: no 2^32 bound in the model) and
   EVERY bit string (list bool, MSB first).  [Some _] = the Python call returns,
   [None] = it raises / does not terminate.
   The one thing the model replaces is the float expression int(math.log(w,2))+1
   by Z.log2 w + 1 (nbits_of); that is tied to the code by the correspondence. *)
From Coq Require Import ZArith Bool List.
Import ListNotations.
From PV Require Import Model.Gray Proofs.GrayProofs.
Open Scope Z_scope.

(* integer -> binary -> integer, with the requested length *)
Theorem c17_bin2int_int2bin : forall n k, 0 <= n < 2 ^ Z.of_nat k ->
  exists b, int2bin n k = Some b /\ length b = k /\ bin2int b = n.
Proof. exact bin2int_int2bin. Qed.

(* binary -> integer -> binary, for every length (incl. 0 and leading zeros) *)
Theorem c17_int2bin_bin2int : forall b, int2bin (bin2int b) (length b) = Some b.
Proof. exact int2bin_bin2int. Qed.

Theorem c17_bin2int_bound : forall b, 0 <= bin2int b < 2 ^ Z.of_nat (length b).
Proof. exact bin2int_bound. Qed.

(* binary <-> Gray are mutually inverse for every length >= 1
   (gray2bin [] raises IndexError in the code: c17_gray2bin_empty_raises) *)
Theorem c17_gray2bin_bin2gray : forall b, b <> [] -> gray2bin (bin2gray b) = Some b.
Proof. exact gray2bin_bin2gray. Qed.

Theorem c17_bin2gray_gray2bin : forall g, g <> [] ->
  exists b, gray2bin g = Some b /\ length b = length g /\ bin2gray b = g.
Proof. exact bin2gray_gray2bin. Qed.

Theorem c17_bin2gray_length : forall b, length (bin2gray b) = length b.
Proof. exact bin2gray_length. Qed.

Theorem c17_gray2bin_empty_raises : gray2bin [] = None.
Proof. exact gray2bin_nil. Qed.

(* the constructor: accepted exactly for min < max; the bit count is the minimal one *)
Theorem c17_init_rejects_empty_range : forall mn mx, mx <= mn -> integer_init mn mx = None.
Proof. exact integer_init_rejects. Qed.

Theorem c17_nbits_minimal : forall mn mx t, integer_init mn mx = Some t ->
  i_min t = mn /\ i_max t = mx /\ (1 <= i_nbits t)%nat /\
  2 ^ (Z.of_nat (i_nbits t) - 1) <= mx - mn < 2 ^ Z.of_nat (i_nbits t).
Proof. exact nbits_minimal. Qed.

(* EVERY bit string of the variable's length decodes, and into [min,max] *)
Theorem c17_decode_in_range : forall mn mx t bits, integer_init mn mx = Some t ->
  length bits = i_nbits t -> exists v, decode t bits = Some v /\ mn <= v <= mx.
Proof. exact decode_in_range. Qed.

(* encode then decode is the identity on [min,max]; encodings have the variable's length *)
Theorem c17_decode_encode : forall mn mx t v, integer_init mn mx = Some t -> mn <= v <= mx ->
  exists bits, encode t v = Some bits /\ length bits = i_nbits t /\ decode t bits = Some v.
Proof. exact decode_encode. Qed.

(* every value of the range is produced by at least one bit string *)
Theorem c17_decode_surjective : forall mn mx t v, integer_init mn mx = Some t -> mn <= v <= mx ->
  exists bits, length bits = i_nbits t /\ decode t bits = Some v.
Proof. exact decode_surjective. Qed.

(* consecutive integers have encodings that differ in exactly one bit *)
Theorem c17_gray_adjacent : forall mn mx t v, integer_init mn mx = Some t -> mn <= v < mx ->
  exists b1 b2, encode t v = Some b1 /\ encode t (v + 1) = Some b2 /\ hamming b1 b2 = 1%nat.
Proof. exact gray_adjacent. Qed.
