(* C09 — elitist algorithms never lose their best solutions.
   Only statements; every proof is [exact lemma].

   Everything is about the literal step models of Model/Survival.v (built on the finished models of
   ParetoDominance.compare, Archive.add, nondominated_sort / truncate / split / prune, EpsilonDominance and
   EpsilonBoxArchive.add).  Vocabulary:
     U = offspring ++ population     the merged population, in the code's order (offspring first)
     F0 cmp U                        the non-dominated front of U = C03's filter: members no member dominates
     sol_wf dirs x                   x has one objective per direction and violation >= 0
     NoDup (map sid U)               no object is listed twice (offspring are fresh objects)
   Clauses proved for NSGA-II, eps-NSGA-II, GDE3, NSGA-III, SPEA2:
     exactly min(n, |U|) survive (GDE3: exactly n), they are members of U,
     |F0 U| <= n -> every member of F0 U survives,     |F0 U| > n -> every survivor is in F0 U.

   Part 1  NSGA-II, eps-NSGA-II, NSGA-II with a Pareto archive, GDE3, NSGA-III (executable carrier xq; exact
           rational crowding distance)
   Part 2  SPEA2 (any comparator obeying the Dominance contract; squared distances)
   Part 3  archives only improve: Pareto archives (C03's contract, any carrier), epsilon archives (C05)
   Part 4  GA / ES: the best solution held never gets worse (any comparator that is a strict weak order;
           ParetoDominance on one objective is one)

   Nothing is left partial.  Axioms: none, except in the three statements c09_spea2_fitness_*_is_real / _never_one, which speak
   about real numbers (standard-library real-number axioms).  What the statements do NOT say (see META.level_note of the driver): IEEE rounding in
   crowding distances / epsilon boxes / SPEA2 distances is not modelled; SPEA2's fitness raw + 1/(d_k + 2) is
   represented by the pair (raw, d_k^2), which orders identically in real arithmetic; NSGA-III's reference-point
   arithmetic is abstracted to "some sequence of picks from the cut front" and the theorem holds for ALL of them. *)
From Coq Require Import ZArith QArith Bool List Permutation Reals Qreals.
Import ListNotations.
From PV Require Import Base.Num Base.Order Base.StableSort Model.Dominance Proofs.DominanceProofs
     Model.Archive Proofs.ArchiveProofs Model.NDSort Proofs.NDSortProofs Model.Truncate Proofs.TruncateProofs
     Model.Epsilon Proofs.EpsilonProofs Model.Survival Proofs.SurvivalProofs.
Open Scope nat_scope.

(* ------------------------------------------------------------------ Part 1 *)
(* F0 is C03's characterisation of the archive of U *)
Theorem c09_front_is_archive : forall c dirs (U : list xsol), Forall (sol_wf xq xltb xzero dirs) U ->
  F0 (x_sol_cmp c dirs) U = x_archive c dirs U.
Proof. exact front_is_archive. Qed.

Theorem c09_front_members : forall T (cmp : T -> T -> Z) l x,
  In x (F0 cmp l) <-> In x l /\ forall y, In y l -> dom T cmp y x = false.
Proof. exact (@F0_In). Qed.

Theorem c09_nsga2_elitist : forall c dirs (offspring population : list xsol) n surv,
  Forall (sol_wf xq xltb xzero dirs) (offspring ++ population) -> NoDup (map sid (offspring ++ population)) ->
  nsga2_survive c dirs offspring population n = Some surv ->
  length surv = min n (length (offspring ++ population)) /\ NoDup surv /\ incl surv (offspring ++ population) /\
  (length (F0 (x_sol_cmp c dirs) (offspring ++ population)) <= n ->
     incl (F0 (x_sol_cmp c dirs) (offspring ++ population)) surv) /\
  (n < length (F0 (x_sol_cmp c dirs) (offspring ++ population)) ->
     incl surv (F0 (x_sol_cmp c dirs) (offspring ++ population))).
Proof. exact nsga2_elitist. Qed.

(* the step never fails on finite objective values *)
Theorem c09_nsga2_total : forall c dirs (offspring population : list xsol) n,
  Forall (sol_wf xq xltb xzero dirs) (offspring ++ population) -> NoDup (map sid (offspring ++ population)) ->
  (forall x, In x (offspring ++ population) -> finite_objs x) ->
  exists surv, nsga2_survive c dirs offspring population n = Some surv.
Proof. exact nsga2_total. Qed.

(* eps-NSGA-II = NSGA-II's survival, then the survivors are offered to the EpsilonBoxArchive one by one *)
Theorem c09_epsnsga2_elitist : forall cfg (offspring population : list xsol) n st pop' st',
  Forall (sol_wf xq xltb xzero (e_dirs cfg)) (offspring ++ population) -> NoDup (map sid (offspring ++ population)) ->
  nsga2_iterate_eps cfg offspring population n st = Some (pop', st') ->
  (length pop' = min n (length (offspring ++ population)) /\ NoDup pop' /\ incl pop' (offspring ++ population) /\
   (length (F0 (x_sol_cmp (e_con cfg) (e_dirs cfg)) (offspring ++ population)) <= n ->
      incl (F0 (x_sol_cmp (e_con cfg) (e_dirs cfg)) (offspring ++ population)) pop') /\
   (n < length (F0 (x_sol_cmp (e_con cfg) (e_dirs cfg)) (offspring ++ population)) ->
      incl pop' (F0 (x_sol_cmp (e_con cfg) (e_dirs cfg)) (offspring ++ population)))) /\
  eps_offer cfg st pop' = Some st'.
Proof. exact epsnsga2_elitist. Qed.

(* NSGAII(archive=Archive()): the archive is extended with the SURVIVORS (the post-truncation population) *)
Theorem c09_nsga2_archive_elitist : forall c dirs (offspring population : list xsol) n arch pop' arch',
  Forall (sol_wf xq xltb xzero dirs) (offspring ++ population) -> NoDup (map sid (offspring ++ population)) ->
  nsga2_iterate_pareto c dirs offspring population n arch = Some (pop', arch') ->
  (length pop' = min n (length (offspring ++ population)) /\ NoDup pop' /\ incl pop' (offspring ++ population) /\
   (length (F0 (x_sol_cmp c dirs) (offspring ++ population)) <= n ->
      incl (F0 (x_sol_cmp c dirs) (offspring ++ population)) pop') /\
   (n < length (F0 (x_sol_cmp c dirs) (offspring ++ population)) ->
      incl pop' (F0 (x_sol_cmp c dirs) (offspring ++ population)))) /\
  arch' = fold_left (fun a s => fst (add xsol (x_sol_cmp c dirs) a s)) pop' arch.
Proof. exact nsga2_archive_elitist. Qed.

(* the archive updates of the step models are insertion histories of C05's archive models *)
Theorem c09_eps_offer_is_history : forall cfg l es st, esols_of l = Some es ->
  eps_offer cfg st l = eps_box_run_from cfg st es.
Proof. exact eps_offer_is_run. Qed.

Theorem c09_plain_offer_is_history : forall cfg l es a, esols_of l = Some es ->
  plain_offer cfg a l = eps_plain_run_from cfg a es.
Proof. exact plain_offer_is_run. Qed.

(* GDE3: |offspring| = |population| = n; the pairwise stage discards a solution only when its partner
   dominates it, so the front of the selected list is the front of U; then sort + prune *)
Theorem c09_gde3_elitist : forall c dirs (offspring population : list xsol) n surv,
  Forall (sol_wf xq xltb xzero dirs) (offspring ++ population) -> NoDup (map sid (offspring ++ population)) ->
  length offspring = n -> length population = n ->
  gde3_survival c dirs offspring population n = Some surv ->
  length surv = n /\ NoDup surv /\ incl surv (offspring ++ population) /\
  (length (F0 (x_sol_cmp c dirs) (offspring ++ population)) <= n ->
     incl (F0 (x_sol_cmp c dirs) (offspring ++ population)) surv) /\
  (n < length (F0 (x_sol_cmp c dirs) (offspring ++ population)) ->
     incl surv (F0 (x_sol_cmp c dirs) (offspring ++ population))).
Proof. exact gde3_elitist. Qed.

Theorem c09_gde3_pairwise_keeps_or_dominated : forall T (cmp : T -> T -> Z) (P : T -> Prop),
  (forall x y, (cmp x y = -1 \/ cmp x y = 0 \/ cmp x y = 1)%Z) ->
  (forall x y, P x -> P y -> (cmp y x = - cmp x y)%Z) ->
  forall n off pop next, gde3_select cmp n off pop = Some next ->
  Forall P (firstn n off) -> Forall P (firstn n pop) ->
  forall y, In y (firstn n off ++ firstn n pop) -> In y next \/ exists z, In z next /\ dom T cmp z y = true.
Proof. exact gde3_select_keeps. Qed.

Theorem c09_gde3_front_preserved : forall T (cmp : T -> T -> Z) (P : T -> Prop),
  (forall x y, (cmp x y = -1 \/ cmp x y = 0 \/ cmp x y = 1)%Z) ->
  (forall x y, P x -> P y -> (cmp y x = - cmp x y)%Z) ->
  (forall x y z, P x -> P y -> P z -> dom T cmp x y = true -> dom T cmp y z = true -> dom T cmp x z = true) ->
  forall n off pop next, gde3_select cmp n off pop = Some next ->
  length off = n -> length pop = n -> Forall P (off ++ pop) ->
  forall x, In x (F0 cmp next) <-> In x (F0 cmp (off ++ pop)).
Proof. exact gde3_front_same. Qed.

(* NSGA-III: for EVERY sequence of picks the niche filling may make (the model rejects sequences that are not
   distinct members of the cut front or do not stop exactly at n) *)
Theorem c09_nsga3_elitist : forall c dirs (offspring population : list xsol) n picks surv,
  Forall (sol_wf xq xltb xzero dirs) (offspring ++ population) -> NoDup (map sid (offspring ++ population)) ->
  nsga3_survive c dirs offspring population n picks = Some surv ->
  length surv = min n (length (offspring ++ population)) /\ NoDup surv /\ incl surv (offspring ++ population) /\
  (length (F0 (x_sol_cmp c dirs) (offspring ++ population)) <= n ->
     incl (F0 (x_sol_cmp c dirs) (offspring ++ population)) surv) /\
  (n < length (F0 (x_sol_cmp c dirs) (offspring ++ population)) ->
     incl surv (F0 (x_sol_cmp c dirs) (offspring ++ population))).
Proof. exact nsga3_elitist. Qed.

(* the filling loop: the result is [result] followed by distinct members of [remaining], exactly n long *)
Theorem c09_nsga3_fill_frame : forall size picks res rem out,
  nsga3_fill res rem size picks = Some out -> length res <= size ->
  exists added rest, out = res ++ added /\ Permutation (added ++ rest) rem /\ length out = size.
Proof. exact nsga3_fill_spec. Qed.

(* ------------------------------------------------------------------ Part 2 *)
Section C09_spea2.
  Variable T : Type.
  Variable cmp : T -> T -> Z.          (* SPEA2(dominance=...) *)
  Variable P : T -> Prop.
  Variable dist2 : T -> T -> option Q. (* squared distance; may raise *)
  Hypothesis cmp_range : forall x y, (cmp x y = -1 \/ cmp x y = 0 \/ cmp x y = 1)%Z.
  Hypothesis cmp_antisym : forall x y, P x -> P y -> (cmp y x = - cmp x y)%Z.
  Hypothesis dom_irrefl : forall x, P x -> dom T cmp x x = false.

  (* strength = number of members dominated; raw fitness = sum of the strengths of the dominators *)
  Theorem c09_spea2_strength : forall l k,
    nth k (strengths cmp l) 0 = length (filter (s_hit k) (flagged cmp l)).
  Proof. exact (strengths_spec T cmp dist2). Qed.

  Theorem c09_spea2_raw : forall l k,
    nth k (raws cmp l) 0 = sum_list (map (r_term (strengths cmp l) k) (flagged cmp l)).
  Proof. exact (raws_spec T cmp dist2). Qed.

  (* fitness < 1  <=>  raw fitness 0  <=>  non-dominated *)
  Theorem c09_spea2_fitness_lt1_iff_nondominated : forall l k x, Forall P l -> nth_error l k = Some x ->
    (nth k (raws cmp l) 0 = 0 <-> forall y, In y l -> dom T cmp y x = false).
  Proof. exact (raw_zero_iff T cmp P dist2 cmp_range cmp_antisym dom_irrefl). Qed.

  Theorem c09_spea2_elitist : forall k offspring population n surv,
    Forall P (offspring ++ population) ->
    spea2_survive cmp dist2 k offspring population n = Ok surv ->
    length surv = min n (length (offspring ++ population)) /\
    (exists dropped, Permutation (surv ++ dropped) (offspring ++ population)) /\
    (length (F0 cmp (offspring ++ population)) <= n -> incl (F0 cmp (offspring ++ population)) surv) /\
    (n < length (F0 cmp (offspring ++ population)) -> incl surv (F0 cmp (offspring ++ population))).
  Proof. exact (spea2_elitist T cmp P dist2 cmp_range cmp_antisym dom_irrefl). Qed.

  (* the thinning loop removes one member per pass and never runs out of fuel *)
  Theorem c09_spea2_fuel_suffices : forall k offspring population n,
    spea2_survive cmp dist2 k offspring population n <> OutOfFuel.
  Proof. exact (spea2_fuel_suffices T cmp dist2). Qed.
End C09_spea2.

(* why the float fitness  raw + 1/(sqrt(d2) + 2)  may be represented by the pair (raw, d2): in REAL arithmetic the
   model's two comparisons are exactly  a.fitness < b.fitness  and  a.fitness < 1.0
   (these two theorems use the real-number axioms of the standard library, listed in ALLOWED_AXIOMS) *)
Theorem c09_spea2_fitness_order_is_real : forall a b : fit, (0 <= f_dk2 a)%Q -> (0 <= f_dk2 b)%Q ->
  (fit_lt a b = true <-> (fitR (f_raw a) (Q2R (f_dk2 a)) < fitR (f_raw b) (Q2R (f_dk2 b)))%R).
Proof. exact fit_lt_is_real_order. Qed.

Theorem c09_spea2_fitness_lt1_is_real : forall a : fit, (0 <= f_dk2 a)%Q ->
  (fit_lt1 a = true <-> (fitR (f_raw a) (Q2R (f_dk2 a)) < 1)%R).
Proof. exact fit_lt1_is_real. Qed.

(* the fitness is never exactly 1 (so "<= 1.0" would be the same test as "< 1.0") *)
Theorem c09_spea2_fitness_never_one : forall r d, (0 <= d)%R -> ((fitR r d <= 1)%R <-> r = 0%nat).
Proof. exact fitR_le1_iff. Qed.

Theorem c09_x_spea2_elitist : forall c dirs k (offspring population : list xsol) n surv,
  Forall (sol_wf xq xltb xzero dirs) (offspring ++ population) ->
  x_spea2_survive c dirs k offspring population n = Ok surv ->
  length surv = min n (length (offspring ++ population)) /\
  (exists dropped, Permutation (surv ++ dropped) (offspring ++ population)) /\
  (length (F0 (x_sol_cmp c dirs) (offspring ++ population)) <= n ->
     incl (F0 (x_sol_cmp c dirs) (offspring ++ population)) surv) /\
  (n < length (F0 (x_sol_cmp c dirs) (offspring ++ population)) ->
     incl surv (F0 (x_sol_cmp c dirs) (offspring ++ population))).
Proof. exact x_spea2_elitist. Qed.

(* ------------------------------------------------------------------ Part 3 *)
(* [covered cmp a m] = m is a member of a, or some member of a dominates m *)
Section C09_archive.
  Variable T : Type.
  Variable cmp : T -> T -> Z.
  Variable P : T -> Prop.
  Hypothesis cmp_range : forall x y, (cmp x y = -1 \/ cmp x y = 0 \/ cmp x y = 1)%Z.
  Hypothesis cmp_antisym : forall x y, P x -> P y -> (cmp y x = - cmp x y)%Z.
  Hypothesis dom_trans : forall x y z, P x -> P y -> P z ->
    dom T cmp x y = true -> dom T cmp y z = true -> dom T cmp x z = true.
  Hypothesis dom_irrefl : forall x, P x -> dom T cmp x x = false.

  Theorem c09_archive_step : forall a s m, Forall P a -> P s -> In m a ->
    In m (fst (add T cmp a s)) \/ (dom T cmp s m = true /\ In s (fst (add T cmp a s))).
  Proof. exact (add_keeps_or_dominates T cmp P cmp_range). Qed.

  Theorem c09_archive_monotone : forall h1 h2, Forall P (h1 ++ h2) ->
    (forall m, In m (archive T cmp h1) ->
       In m (archive T cmp (h1 ++ h2)) \/ exists m', In m' (archive T cmp (h1 ++ h2)) /\ dom T cmp m' m = true) /\
    (forall x y, In x (archive T cmp (h1 ++ h2)) -> In y (archive T cmp (h1 ++ h2)) -> cmp x y = 0%Z).
  Proof. exact (archive_monotone T cmp P cmp_range cmp_antisym dom_trans dom_irrefl). Qed.

  (* the same over histories of add / append / extend / += *)
  Theorem c09_history_monotone : forall ops1 ops2, Forall P (offered T (ops1 ++ ops2)) ->
    (forall m, In m (run_ops T cmp ops1 []) ->
       In m (run_ops T cmp (ops1 ++ ops2) []) \/
       exists m', In m' (run_ops T cmp (ops1 ++ ops2) []) /\ dom T cmp m' m = true) /\
    (forall x y, In x (run_ops T cmp (ops1 ++ ops2) []) -> In y (run_ops T cmp (ops1 ++ ops2) []) -> cmp x y = 0%Z).
  Proof. exact (history_monotone T cmp P cmp_range cmp_antisym dom_trans dom_irrefl). Qed.
End C09_archive.

Section C09_pareto_archive.
  Variable V : Type.
  Variable ltb : V -> V -> bool.
  Variable neg : V -> V.
  Variable zero : V.
  Hypothesis L : OrdLaws V ltb neg.
  Variable c : bool.
  Variable dirs : list bool.
  Notation S := (sol V).
  Notation scmp := (sol_cmp V ltb neg zero c dirs).

  Theorem c09_pareto_archive_monotone : forall h1 h2, Forall (sol_wf V ltb zero dirs) (h1 ++ h2) ->
    (forall m, In m (archive S scmp h1) ->
       In m (archive S scmp (h1 ++ h2)) \/ exists m', In m' (archive S scmp (h1 ++ h2)) /\ dom S scmp m' m = true) /\
    (forall x y, In x (archive S scmp (h1 ++ h2)) -> In y (archive S scmp (h1 ++ h2)) -> scmp x y = 0%Z).
  Proof. exact (pareto_archive_monotone V ltb neg zero L c dirs). Qed.
End C09_pareto_archive.

(* EpsilonBoxArchive (eps-MOEA, eps-NSGA-II): [edom c m' m] = m' epsilon-dominates m
   = the archive's comparator answers -1 (c09_edom_is_compare) *)
Theorem c09_eps_archive_monotone : forall c h1 h2, wf_cfg c -> Forall (wf_sol c) (h1 ++ h2) ->
  exists a1 i1 a2 i2,
    eps_box_run c h1 = Some (a1, i1) /\ eps_box_run c (h1 ++ h2) = Some (a2, i2) /\
    (forall m, In m a1 -> In m a2 \/ exists m', In m' a2 /\ edom c m' m) /\
    (forall m m', In m a2 -> In m' a2 -> ~ edom c m m').
Proof. exact eps_archive_monotone. Qed.

(* Archive(EpsilonDominance(eps)) (OMOPSO, CMAES) *)
Theorem c09_eps_plain_archive_monotone : forall c h1 h2, wf_cfg c -> Forall (wf_sol c) (h1 ++ h2) ->
  exists a1 a2,
    eps_plain_run c h1 = Some a1 /\ eps_plain_run c (h1 ++ h2) = Some a2 /\
    (forall m, In m a1 -> In m a2 \/ exists m', In m' a2 /\ edom c m' m) /\
    (forall m m', In m a2 -> In m' a2 -> ~ edom c m m').
Proof. exact eps_plain_archive_monotone. Qed.

Theorem c09_edom_is_compare : forall c a b, wf_cfg c -> wf_sol c a -> wf_sol c b ->
  (edom c a b <-> eps_compare c a b = Some (-1)%Z).
Proof. exact edom_is_compare. Qed.

(* ------------------------------------------------------------------ Part 4 *)
(* [cmp_key_lt cmp a b] = compare(a, b) < 0 = "a sorts strictly before b" under cmp_to_key *)
Section C09_single_objective.
  Variable T : Type.
  Variable cmp : T -> T -> Z.
  Variable P : T -> Prop.
  Notation lt := (cmp_key_lt cmp).
  Hypothesis lt_irrefl : forall x, P x -> lt x x = false.
  Hypothesis lt_trans : forall x y z, P x -> P y -> P z -> lt x y = true -> lt y z = true -> lt x z = true.
  Hypothesis lt_cotrans : forall x y z, P x -> P y -> P z -> lt x y = true -> lt x z = true \/ lt z y = true.

  (* one generation of GA: the old fittest does not beat the new fittest, which is a best member of
     offspring + [old fittest] and of the new population *)
  Theorem c09_ga_best_monotone : forall offspring fittest n pop f',
    Forall P (offspring ++ [fittest]) -> ga_iterate cmp offspring fittest n = Some (pop, f') ->
    lt fittest f' = false /\ (forall y, In y offspring -> lt y f' = false) /\
    (forall y, In y pop -> lt y f' = false) /\ In f' pop /\ In f' (offspring ++ [fittest]) /\ length pop <= n.
  Proof. exact (ga_best_monotone T cmp P lt_irrefl lt_trans lt_cotrans). Qed.

  (* any number of generations *)
  Theorem c09_ga_run_best_monotone : forall gens pop f n pop' f',
    P f -> Forall (Forall P) gens -> ga_run T cmp gens (pop, f) n = Some (pop', f') ->
    P f' /\ lt f f' = false.
  Proof. exact (ga_run_best_monotone T cmp P lt_irrefl lt_trans lt_cotrans). Qed.

  (* one generation of ES: no parent and no offspring beats the head of the new population *)
  Theorem c09_es_best_monotone : forall offspring population n h r,
    Forall P (offspring ++ population) -> es_iterate cmp offspring population n = h :: r ->
    (forall p, In p population -> lt p h = false) /\ (forall y, In y offspring -> lt y h = false) /\
    (forall y, In y (h :: r) -> lt y h = false) /\ In h (offspring ++ population).
  Proof. exact (es_best_monotone T cmp P lt_irrefl lt_trans lt_cotrans). Qed.

  (* any number of generations: a best member b of the population is never beaten by the later best *)
  Theorem c09_es_run_best_monotone : forall gens pop n b,
    1 <= n -> Forall P pop -> Forall (Forall P) gens -> is_best T cmp pop b ->
    exists b', is_best T cmp (es_run T cmp gens pop n) b' /\ P b' /\ lt b b' = false /\
               Forall P (es_run T cmp gens pop n).
  Proof. exact (es_run_best_monotone T cmp P lt_irrefl lt_trans lt_cotrans). Qed.
End C09_single_objective.

(* ParetoDominance on ONE objective (any direction, with or without constraints) satisfies the three laws *)
Section C09_single_objective_pareto.
  Variable V : Type.
  Variable ltb : V -> V -> bool.
  Variable neg : V -> V.
  Variable zero : V.
  Hypothesis L : OrdLaws V ltb neg.
  Variable c : bool.
  Variable mx : bool.
  Notation scmp := (sol_cmp V ltb neg zero c [mx]).
  Notation wfs := (sol_wf V ltb zero [mx]).

  Theorem c09_so_irrefl : forall x, wfs x -> cmp_key_lt scmp x x = false.
  Proof. exact (so_irrefl V ltb neg zero L c mx). Qed.

  Theorem c09_so_trans : forall x y z, wfs x -> wfs y -> wfs z ->
    cmp_key_lt scmp x y = true -> cmp_key_lt scmp y z = true -> cmp_key_lt scmp x z = true.
  Proof. exact (so_trans V ltb neg zero L c mx). Qed.

  Theorem c09_so_cotrans : forall x y z, wfs x -> wfs y -> wfs z ->
    cmp_key_lt scmp x y = true -> cmp_key_lt scmp x z = true \/ cmp_key_lt scmp z y = true.
  Proof. exact (so_cotrans V ltb neg zero L c mx). Qed.

  (* "sorts before" = violation first (constrained problems), then the objective in its direction *)
  Theorem c09_so_order : forall x y, wfs x -> wfs y ->
    cmp_key_lt scmp x y = better V ltb neg c [mx] (dsol_of x) (dsol_of y).
  Proof. exact (so_lt_better V ltb neg zero L c mx). Qed.
End C09_single_objective_pareto.

(* the executable carrier *)
Theorem c09_x_ga_best_monotone : forall c mx (offspring : list xsol) fittest n pop f',
  Forall (sol_wf xq xltb xzero [mx]) (offspring ++ [fittest]) ->
  x_ga_iterate c [mx] offspring fittest n = Some (pop, f') ->
  (x_sol_cmp c [mx] fittest f' <? 0)%Z = false /\
  (forall y, In y pop -> (x_sol_cmp c [mx] y f' <? 0)%Z = false) /\ In f' pop /\ In f' (offspring ++ [fittest]).
Proof. exact x_ga_best_monotone. Qed.

Theorem c09_x_es_best_monotone : forall c mx (offspring population : list xsol) n h r,
  Forall (sol_wf xq xltb xzero [mx]) (offspring ++ population) ->
  x_es_iterate c [mx] offspring population n = h :: r ->
  (forall p, In p population -> (x_sol_cmp c [mx] p h <? 0)%Z = false) /\
  (forall y, In y (h :: r) -> (x_sol_cmp c [mx] y h <? 0)%Z = false).
Proof. exact x_es_best_monotone. Qed.
