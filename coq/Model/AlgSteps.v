(* Model/AlgSteps.v — the step functions of the shipped algorithms as data flow over solutions:
   which solutions are selected, copied, varied, handed to evaluate_all, and which are exposed
   afterwards.  Executable definitions and one inductive relation only (proofs: Proofs/AlgStepsProofs.v).

   What is literal: the order of the statements of each initialize()/iterate(), where evaluate_all is
   called and on what, what is appended / replaced / deleted in population, archive, particles,
   local_best, leaders, and what the algorithm exposes at the step boundary.
   What is abstract (Section variables; the theorems hold for EVERY instantiation that meets the stated
   contracts):
     - randomness: each random decision is read from a tape argument (selection indices, the shuffled
       mating list, the draw [T] consumed by one operator call, the index deleted from the population);
       the number of iterations of a `while len(offspring) < n` loop is the length of the tape;
     - variation operators [vary] / [mutate] (contract: flag discipline, C06), the PSO position update
       [move] and the CMA-ES sampler [sample] (contract: the flag of the result is clear);
     - dominance comparisons [cmp], MOEA/D's replacement test [better], PAES's [test], IBEA's [worst];
     - survival / truncation functions [survive] [sortf] [trunc] and archive insertion [arch_add]
       [lead_add] (contract: output ⊆ input, resp. ⊆ archive ∪ {newcomer}).  The literal models of these
       functions are Model/Survival.v, Truncate.v, Archive.v, Epsilon.v, GridArchive.v; their
       "output ⊆ input" lemmas (e.g. gde3_select_incl, F0_incl) discharge the contracts.

   Code mirrored (platypus/algorithms.py unless noted):
     AbstractGeneticAlgorithm.initialize 103-106     GeneticAlgorithm 186-208      EvolutionaryStrategy 243-260
     NSGAII 302-336 (archive optional)               EpsMOEA 377-424               GDE3 454-490
     SPEA2 584-602      MOEAD 644-668, 686-721, 779-794       NSGAIII 984-1001    ParticleSwarm 1054-1147
     OMOPSO 1205-1226   SMPSO 1269-1309    CMAES 1356-1362, 1472-1529, 1580-1591   IBEA 1630-1659
     PAES 1694-1735     PESA2 1808-1834    EpsNSGAII 1886-1901
     AdaptiveTimeContinuationExtension.restart  extensions.py:205-233 *)
From Coq Require Import ZArith Bool List.
Import ListNotations.
From PV Require Import Model.Evaluate Model.AlgSkeleton.
Open Scope Z_scope.

(* del l[k] *)
Fixpoint rm_nth {A} (k : nat) (l : list A) : list A :=
  match l, k with
  | [], _ => []
  | _ :: r, O => r
  | a :: r, S k' => a :: rm_nth k' r
  end.
(* l[k] = x *)
Fixpoint set_nth {A} (k : nat) (x : A) (l : list A) : list A :=
  match l, k with
  | [], _ => []
  | _ :: r, O => x :: r
  | a :: r, S k' => a :: set_nth k' x r
  end.
(* [l[i] for i in idx]  (an index out of range is an IndexError: the element is skipped here,
   which keeps "selected ⊆ source" unconditional) *)
Definition pick {A} (idx : list nat) (l : list A) : list A :=
  flat_map (fun i => match nth_error l i with Some s => [s] | None => [] end) idx.

Section AlgSteps.
  Variable Val : Type.
  Variable Num : Type.
  Notation sol := (sol Val Num).
  Notation batch := (batch Val Num).
  Variable ev : list sol -> list (jobres Val Num).          (* self.evaluator *)
  Notation evaluate_all := (evaluate_all Val Num ev).

  Variable T : Type.                                          (* the draws of one operator call *)
  Variable vary : T -> list sol -> list sol.                  (* variator.evolve(parents) *)
  Variable mutate : T -> sol -> sol.                          (* Mutation.mutate(parent) *)
  Variable move : T -> sol -> sol.                            (* one particle of ParticleSwarm._update_positions *)
  Variable sample : T -> sol.                                 (* one solution of CMAES.sample *)
  Variable Gen : sol -> Prop.                                 (* "is an output of RandomGenerator.generate" *)
  Variable cmp : sol -> sol -> Z.                             (* a Dominance.compare *)
  Variable better : sol -> sol -> nat -> bool.                (* MOEAD._update_solution's replace decision for subproblem i *)
  Variable test : list sol -> sol -> sol -> bool.             (* PAES.test: true = keep the offspring *)
  Variable worst : list sol -> nat.                           (* IBEA._find_worst *)
  Variable survive : list sol -> list sol.                    (* sorted(...)[:n], nondominated_truncate, _truncate, prune, _reference_point_truncate *)
  Variable sortf : list sol -> list sol.                      (* sorted(...) *)
  Variable trunc : list sol -> list sol.                      (* FitnessArchive.truncate(size) *)
  Variable arch_add : list sol -> sol -> list sol.            (* contents after archive.add(s) *)
  Variable arch_added : list sol -> sol -> bool.              (* what archive.add(s) returned *)
  Variable lead_add : list sol -> sol -> list sol.            (* contents after leaders.add(s) (FitnessArchive) *)

  (* what an algorithm can hand to evaluate_all, given what it holds *)
  Inductive derived (pool : list sol) : sol -> Prop :=
  | D_member : forall s, In s pool -> derived pool s
  | D_vary : forall t ps c, Forall (derived pool) ps -> In c (vary t ps) -> derived pool c
  | D_mutate : forall t p, derived pool p -> derived pool (mutate t p)
  | D_move : forall t p, derived pool p -> derived pool (move t p)
  | D_sample : forall t, derived pool (sample t)
  | D_gen : forall s, Gen s -> derived pool s.

  Definition mkb (before : list sol) : batch := mkBatch before [] (evaluate_all before).
  (* archive += solutions / archive.extend(solutions) *)
  Definition arch_extend (a : list sol) (l : list sol) : list sol := fold_left arch_add l a.
  Definition lead_extend (a : list sol) (l : list sol) : list sol := fold_left lead_add l a.
  Definition oarch (a : option (list sol)) : list sol := match a with Some l => l | None => [] end.

  (* while len(offspring) < n: parents = selector.select(arity, source); offspring.extend(variator.evolve(parents))
     — one tape entry (selected indices, operator draw) per iteration *)
  Definition mate (tape : list (list nat * T)) (src : list sol) : list sol :=
    flat_map (fun e => vary (snd e) (pick (fst e) src)) tape.

  (* ---- AbstractGeneticAlgorithm.initialize: [generate() for _ in range(n)]; evaluate_all(population).
     [gen] is what the generator returned (RandomGenerator: new solutions; InjectedPopulation: also the injected ones) *)
  Definition init_population (gen : list sol) : list sol * list batch := (evaluate_all gen, [mkb gen]).

  (* ---- GeneticAlgorithm ---- *)
  Record ga_st := mkGa { ga_pop : list sol; ga_fittest : list sol (* [] before initialize, else [fittest] *) }.
  Definition ga_exposed (st : ga_st) : list sol := ga_pop st ++ ga_fittest st.          (* result = population; fittest *)
  Definition ga_initialize (gen : list sol) : ga_st * list batch :=
    let pop := sortf (fst (init_population gen)) in                                      (* :192 *)
    (mkGa pop (firstn 1 pop), snd (init_population gen)).                                (* :193 *)
  Definition ga_iterate (tape : list (list nat * T)) (st : ga_st) : ga_st * list batch :=
    let offspring := mate tape (ga_pop st) in                                            (* :196-200 *)
    let after := evaluate_all offspring in                                               (* :202 *)
    let pop := survive (after ++ ga_fittest st) in                                       (* :204-207 *)
    (mkGa pop (firstn 1 pop), [mkb offspring]).                                          (* :208 *)

  (* ---- EvolutionaryStrategy: parents = [population[i % len(population)]] ---- *)
  Definition es_mate (ts : list T) (pop : list sol) : list sol :=
    flat_map (fun it => vary (snd it) (pick [Nat.modulo (fst it) (length pop)] pop)) (combine (seq 0 (length ts)) ts).
  Definition es_iterate (ts : list T) (pop : list sol) : list sol * list batch :=
    let offspring := es_mate ts pop in                                                   (* :250-254 *)
    let after := evaluate_all offspring in                                               (* :256 *)
    (survive (after ++ pop), [mkb offspring]).                                           (* :258-260 *)

  (* ---- NSGAII (archive optional), NSGAIII, SPEA2: (mu + lambda) with selection from the population ---- *)
  Record pa_st := mkPa { pa_pop : list sol; pa_arch : option (list sol) }.
  Definition pa_exposed (st : pa_st) : list sol := pa_pop st ++ oarch (pa_arch st).      (* result = archive or population *)
  Definition nsga2_initialize (arch0 : option (list sol)) (gen : list sol) : pa_st * list batch :=
    let pop := fst (init_population gen) in
    (mkPa pop (option_map (fun a => arch_extend a pop) arch0), snd (init_population gen)).     (* :316-317 archive += population *)
  Definition nsga2_iterate (tape : list (list nat * T)) (st : pa_st) : pa_st * list batch :=
    let offspring := mate tape (pa_pop st) in                                            (* :325-327 *)
    let after := evaluate_all offspring in                                               (* :329 *)
    let pop := survive (after ++ pa_pop st) in                                           (* :331-333 *)
    (mkPa pop (option_map (fun a => arch_extend a pop) (pa_arch st)), [mkb offspring]). (* :335-336 archive.extend(population) *)
  Definition plus_iterate (tape : list (list nat * T)) (pop : list sol) : list sol * list batch :=
    let offspring := mate tape pop in
    let after := evaluate_all offspring in
    (survive (after ++ pop), [mkb offspring]).
  Definition nsga3_iterate := plus_iterate.        (* :990-1001 *)
  Definition spea2_iterate := plus_iterate.        (* :591-602 *)

  (* ---- AdaptiveTimeContinuationExtension.restart (extensions.py:205-233), run in post_step ---- *)
  Definition restart (rt : list (list nat * T)) (st : pa_st) : pa_st * list batch :=
    let archive := oarch (pa_arch st) in
    let offspring := mate rt archive in                                                  (* :222-224 parents drawn from the archive *)
    let after := evaluate_all offspring in                                               (* :226 *)
    (mkPa (archive ++ after)                                                             (* :208, :228 *)
          (option_map (fun a => arch_extend a after) (pa_arch st)),                      (* :229 *)
     [mkb offspring]).
  (* EpsNSGAII = NSGAII with an EpsilonBoxArchive + the extension: one step = iterate, then possibly a restart *)
  Definition epsnsga2_step (tape : list (list nat * T)) (rt : option (list (list nat * T))) (st : pa_st) : pa_st * list batch :=
    let r := nsga2_iterate tape st in
    match rt with
    | None => r
    | Some rt => let r2 := restart rt (fst r) in (fst r2, snd r ++ snd r2)
    end.

  (* ---- EpsMOEA (steady state) ---- *)
  Record eps_tape := mkEpsTape { e_pop_idx : list nat; e_arch_idx : list nat; e_shuffle : list nat; e_draw : T;
                                 e_del : list nat (* per child: the random.choice made by _add_to_population *) }.
  Definition indices_where (f : sol -> bool) (l : list sol) : list nat :=
    map fst (filter (fun p => f (snd p)) (combine (seq 0 (length l)) l)).
  (* _add_to_population :407-424 *)
  Definition add_to_population (k : nat) (s : sol) (pop : list sol) : list sol :=
    let dominates := indices_where (fun p => cmp s p <? 0) pop in
    let dominated := existsb (fun p => cmp s p >? 0) pop in
    match dominates with
    | _ :: _ => rm_nth (nth k dominates O) pop ++ [s]            (* del population[choice(dominates)]; append *)
    | [] => if dominated then pop else rm_nth k pop ++ [s]       (* population.remove(choice(population)); append *)
    end.
  Fixpoint eps_insert (ks : list nat) (children : list sol) (pa : list sol * list sol) : list sol * list sol :=
    match children with
    | [] => pa
    | c :: r => eps_insert (tl ks) r (add_to_population (hd O ks) c (fst pa), arch_add (snd pa) c)    (* :403-405 *)
    end.
  Definition epsmoea_iterate (tp : eps_tape) (st : pa_st) : pa_st * list batch :=
    let arch := oarch (pa_arch st) in
    let parents := if Nat.leb (length arch) 1 then pick (e_pop_idx tp) (pa_pop st)                  (* :393-396 *)
                   else pick (e_pop_idx tp) (pa_pop st) ++ pick (e_arch_idx tp) arch in
    let children := vary (e_draw tp) (pick (e_shuffle tp) parents) in                               (* :398-400 *)
    let after := evaluate_all children in                                                           (* :401 *)
    let r := eps_insert (e_del tp) after (pa_pop st, arch) in
    (mkPa (fst r) (Some (snd r)), [mkb children]).

  (* ---- GDE3 ---- *)
  Definition gde3_mate (tape : list (list nat * T)) (pop : list sol) : list sol :=
    flat_map (fun it => vary (snd (snd it)) (pick (fst it :: fst (snd it)) pop)) (combine (seq 0 (length tape)) tape).   (* select(i, arity) :454-459 *)
  Fixpoint gde3_pairs (off pop : list sol) : list sol :=                                             (* survival :464-471 *)
    match off, pop with
    | o :: off', p :: pop' =>
        (if cmp o p <=? 0 then [o] else []) ++ (if cmp o p >=? 0 then [p] else []) ++ gde3_pairs off' pop'
    | _, _ => []
    end.
  Definition gde3_iterate (tape : list (list nat * T)) (pop : list sol) : list sol * list batch :=
    let offspring := gde3_mate tape pop in
    let after := evaluate_all offspring in                                                           (* :489 *)
    (survive (gde3_pairs after pop), [mkb offspring]).                                               (* :473-474, :490 *)

  (* ---- MOEAD: one evaluate_all per subproblem; _update_solution writes into the population ---- *)
  Record moead_item := mkItem { m_index : nat; m_mating : list nat (* after random.shuffle *); m_draw : T }.
  Variable arity : nat.
  Variable eta : nat.
  Fixpoint update_solution (child : sol) (mating : list nat) (c : nat) (pop : list sol) : list sol :=   (* :644-668 *)
    match mating with
    | [] => pop
    | i :: r =>
        let replace := match nth_error pop i with Some cand => better child cand i | None => false end in
        let pop1 := if replace then set_nth i child pop else pop in
        let c1 := if replace then S c else c in
        if Nat.leb eta c1 then pop1 else update_solution child r c1 pop1
    end.
  Fixpoint moead_iterate (items : list moead_item) (pop : list sol) : list sol * list batch :=           (* :779-789 *)
    match items with
    | [] => (pop, [])
    | it :: r =>
        let parents := pick (m_index it :: firstn (arity - 1) (m_mating it)) pop in
        let offspring := vary (m_draw it) parents in
        let after := evaluate_all offspring in
        let pop1 := fold_left (fun p child => update_solution child (m_mating it) O p) after pop in
        let rest := moead_iterate r pop1 in
        (fst rest, mkb offspring :: snd rest)
    end.

  (* ---- IBEA: extend, then delete the worst until the size fits ---- *)
  Fixpoint ibea_trim (fuel size : nat) (pop : list sol) : list sol :=                                    (* :1649-1650 *)
    if Nat.leb (length pop) size then pop
    else match fuel with O => pop | S f => ibea_trim f size (rm_nth (worst pop) pop) end.
  Definition ibea_iterate (size : nat) (tape : list (list nat * T)) (pop : list sol) : list sol * list batch :=
    let offspring := mate tape pop in                                                                (* :1640-1642 *)
    let after := evaluate_all offspring in                                                           (* :1644 *)
    let all := pop ++ after in                                                                       (* :1646 *)
    (ibea_trim (length all) size all, [mkb offspring]).

  (* ---- PAES (1+1) ---- *)
  Definition paes_iterate (t : T) (st : pa_st) : pa_st * list batch :=
    let arch := oarch (pa_arch st) in
    match pa_pop st with
    | [] => (st, [])
    | parent :: _ =>
        let children := firstn 1 (vary t [parent]) in                                                (* :1711 evolve([parent])[0] *)
        let after := evaluate_all children in                                                        (* :1713 *)
        match after with
        | [] => (st, [mkb children])
        | offspring :: _ =>
            let flag := cmp parent offspring in                                                      (* :1715 *)
            let st' :=
              if flag =? 1 then mkPa [offspring] (Some (arch_add arch offspring))                    (* :1717-1719 *)
              else if flag =? 0 then
                     if arch_added arch offspring                                                    (* :1721 *)
                     then mkPa [if test (arch_add arch offspring) parent offspring then offspring else parent]
                               (Some (arch_add arch offspring))                                      (* :1722 *)
                     else mkPa (pa_pop st) (Some (arch_add arch offspring))
                   else st in
            (st', [mkb children])
        end
    end.

  (* ---- PESA2: the population is rebuilt from the archive ---- *)
  Definition pesa2_iterate (tape : list (list nat * T)) (st : pa_st) : pa_st * list batch :=
    let arch := oarch (pa_arch st) in
    let offspring := mate tape arch in                                                               (* :1824-1831 selector draws from the archive *)
    let after := evaluate_all offspring in                                                           (* :1833 *)
    (mkPa after (Some (arch_extend arch after)), [mkb offspring]).                                   (* :1834 *)

  (* ---- ParticleSwarm / OMOPSO (archive) / SMPSO ---- *)
  Record pso_st := mkPso { ps_particles : list sol; ps_local : list sol; ps_leaders : list sol; ps_arch : option (list sol) }.
  Definition pso_exposed (st : pso_st) : list sol :=
    ps_particles st ++ ps_local st ++ ps_leaders st ++ oarch (ps_arch st).                           (* result = leaders / archive *)
  Definition pso_initialize (arch0 : option (list sol)) (gen : list sol) : pso_st * list batch :=
    let particles := evaluate_all gen in                                                             (* :1063-1064 *)
    (mkPso particles particles                                                                       (* :1066 *)
           (trunc (lead_extend [] particles))                                                        (* :1068-1072 *)
           (option_map (fun a => arch_extend a particles) arch0),                                    (* OMOPSO :1215 *)
     [mkb gen]).
  (* per particle: the draw of the position update and, when the particle is mutated (i % 3, i % 6, or always), of the mutation *)
  Definition pso_move (tape : list (T * option T)) (particles : list sol) : list sol :=
    ev_map2 (fun tt p => let m := move (fst tt) p in                                                 (* :1117-1135 *)
                         match snd tt with Some t => mutate t m | None => m end)                    (* :1144-1147, 1221-1226, 1305-1308 *)
            tape particles.
  Definition pso_iterate (tape : list (T * option T)) (st : pso_st) : pso_st * list batch :=
    let moved := pso_move tape (ps_particles st) in                                                  (* :1077-1079 *)
    let after := evaluate_all moved in                                                               (* :1080 *)
    let local := ev_map2 (fun p lb => if cmp p lb <=? 0 then p else lb) after (ps_local st) in      (* :1137-1142 *)
    (mkPso after local
           (trunc (lead_extend (ps_leaders st) after))                                               (* :1083-1084 *)
           (option_map (fun a => arch_extend a after) (ps_arch st)),                                 (* :1219 *)
     [mkb moved]).

  (* ---- CMAES: population = sample(); evaluate_all; archive += population ---- *)
  Definition cmaes_iterate (ts : list T) (st : pa_st) : pa_st * list batch :=
    let samples := map sample ts in                                                                  (* :1581 *)
    let after := evaluate_all samples in                                                             (* :1582 *)
    (mkPa (sortf after)                                                                              (* :1537-1542 update_distribution sorts *)
          (Some (arch_extend (oarch (pa_arch st)) after)),                                           (* :1590 *)
     [mkb samples]).
End AlgSteps.

Arguments ga_pop {Val Num} _.
Arguments ga_fittest {Val Num} _.
Arguments mkGa {Val Num} _ _.
Arguments pa_pop {Val Num} _.
Arguments pa_arch {Val Num} _.
Arguments mkPa {Val Num} _ _.
Arguments ps_particles {Val Num} _.
Arguments ps_local {Val Num} _.
Arguments ps_leaders {Val Num} _.
Arguments ps_arch {Val Num} _.
Arguments mkPso {Val Num} _ _ _ _.
Arguments e_pop_idx {T} _.
Arguments e_arch_idx {T} _.
Arguments e_shuffle {T} _.
Arguments e_draw {T} _.
Arguments e_del {T} _.
Arguments mkEpsTape {T} _ _ _ _ _.
Arguments m_index {T} _.
Arguments m_mating {T} _.
Arguments m_draw {T} _.
Arguments mkItem {T} _ _ _.

(* ------------------------------------------------------------------------- *)
(* Part 2: the data flow of one LOGGED step, attribute by attribute           *)
(* ------------------------------------------------------------------------- *)
(* The driver logs, at every step boundary, what each exposed attribute holds.  For every algorithm the
   inclusions that its model above satisfies (population' ⊆ population ∪ batch, archive' ⊆ archive ∪
   population', particles' = the evaluated batch, local_best'[i] ∈ {local_best[i], particles'[i]}, ...)
   are written as rules and decided on the logged step.  [alg_rules] is the table; each line cites the
   model function and the lemma of Proofs/AlgStepsProofs.v that states the same inclusion for the model. *)
Close Scope Z_scope.
Inductive attr := A_result | A_population | A_archive | A_particles | A_leaders | A_local_best | A_fittest.
Definition attr_eqb (a b : attr) : bool :=
  match a, b with
  | A_result, A_result | A_population, A_population | A_archive, A_archive | A_particles, A_particles
  | A_leaders, A_leaders | A_local_best, A_local_best | A_fittest, A_fittest => true
  | _, _ => false
  end.
Inductive src := Old (a : attr) | New (a : attr) | After (k : nat) | AllAfter.
Inductive rule :=
| Sub (a : attr) (srcs : list src)          (* new a ⊆ union of the sources *)
| SameAs (a : attr) (s : src)               (* new a lists exactly the solutions of the source, in order *)
| Pointwise (a : attr) (s1 s2 : src)        (* new a[i] is s1[i] or s2[i] *)
| SameLen (a : attr)                        (* len(new a) = len(old a) *)
| Fresh (a : attr)                          (* no object of new a was exposed (through any attribute) at the previous boundary:
                                               the step made NEW objects (copy.deepcopy / Solution(problem)), it did not move old ones in place *)
| NBatches (lo : nat) (hi : option nat).    (* how many evaluate_all calls the step made *)

Inductive algid := AGA | AES | ANSGAII | ANSGAIII | AEpsMOEA | AEpsNSGAII | AGDE3 | ASPEA2 | AMOEAD | AIBEA
                 | APAES | APESA2 | AOMOPSO | ASMPSO | ACMAES.

Section Shape.
  Variable S : Type.
  Variable eqb : S -> S -> bool.
  Variable ident : S -> nat.                  (* object identity *)
  Definition amap := list (attr * list S).
  Fixpoint lookup (a : attr) (m : amap) : list S :=
    match m with [] => [] | (b, l) :: r => if attr_eqb a b then l else lookup a r end.
  Definition src_sols (old new : amap) (afters : list (list S)) (s : src) : list S :=
    match s with
    | Old a => lookup a old
    | New a => lookup a new
    | After k => nth k afters []
    | AllAfter => concat afters
    end.
  Definition smem (x : S) (l : list S) : bool := existsb (eqb x) l.
  Fixpoint pointwise_b (l a b : list S) : bool :=
    match l, a, b with
    | [], [], [] => true
    | x :: l', y :: a', z :: b' => (eqb x y || eqb x z) && pointwise_b l' a' b'
    | _, _, _ => false
    end.
  Definition rule_ok (old new : amap) (afters : list (list S)) (r : rule) : bool :=
    match r with
    | Sub a srcs => forallb (fun x => existsb (fun s => smem x (src_sols old new afters s)) srcs) (lookup a new)
    | SameAs a s => list_eqb eqb (lookup a new) (src_sols old new afters s)
    | Pointwise a s1 s2 => pointwise_b (lookup a new) (src_sols old new afters s1) (src_sols old new afters s2)
    | SameLen a => Nat.eqb (length (lookup a new)) (length (lookup a old))
    | Fresh a => forallb (fun x => negb (existsb (fun y => Nat.eqb (ident x) (ident y)) (flat_map snd old))) (lookup a new)
    | NBatches lo hi => Nat.leb lo (length afters) && match hi with Some h => Nat.leb (length afters) h | None => true end
    end.
  (* a step conforms when one of the alternatives of its algorithm holds *)
  Definition shape_ok (alts : list (list rule)) (old new : amap) (afters : list (list S)) : bool :=
    existsb (fun rules => forallb (rule_ok old new afters) rules) alts.
End Shape.

Definition result_rule : rule := Sub A_result [New A_population; New A_archive; New A_leaders].
(* first step: initialize() *)
Definition init_rules (a : algid) : list (list rule) :=
  match a with
  | AOMOPSO | ASMPSO =>                                                       (* pso_initialize / pso_initialize_flow *)
      [[NBatches 1 (Some 1); SameAs A_particles (After 0); SameAs A_local_best (New A_particles);
        Sub A_leaders [New A_particles]; Sub A_archive [New A_particles]; result_rule]]
  | ACMAES =>                                                                 (* initialize ends with iterate(): cmaes_iterate *)
      [[NBatches 1 (Some 1); Sub A_population [After 0]; Sub A_archive [After 0]; result_rule]]
  | AGA =>                                                                    (* ga_initialize *)
      [[NBatches 1 (Some 1); Sub A_population [After 0]; Sub A_fittest [New A_population]; result_rule]]
  | _ =>                                                                      (* init_population, nsga2_initialize *)
      [[NBatches 1 (Some 1); Sub A_population [After 0]; Sub A_archive [New A_population]; result_rule]]
  end.
(* every later step: iterate() (+ extensions) *)
Definition iter_rules (a : algid) : list (list rule) :=
  match a with
  | AGA =>                                                                    (* ga_iterate / ga_iterate_flow *)
      [[NBatches 1 (Some 1); Sub A_population [After 0; Old A_fittest]; Sub A_fittest [New A_population]; result_rule]]
  | AES | ANSGAIII | ASPEA2 | AGDE3 | AIBEA =>                               (* es_iterate, plus_iterate, gde3_iterate, ibea_iterate *)
      [[NBatches 1 (Some 1); Sub A_population [After 0; Old A_population]; result_rule]]
  | ANSGAII | AEpsNSGAII =>
      [ (* nsga2_iterate / nsga2_iterate_flow *)
        [NBatches 1 (Some 1); Sub A_population [After 0; Old A_population];
         Sub A_archive [Old A_archive; New A_population]; result_rule];
        (* epsnsga2_step with a restart / epsnsga2_step_flow *)
        [NBatches 2 (Some 2); Sub A_population [Old A_archive; After 0; Old A_population; After 1];
         Sub A_archive [Old A_archive; After 0; Old A_population; After 1]; result_rule] ]
  | AEpsMOEA =>                                                               (* epsmoea_iterate / eps_insert_incl *)
      [[NBatches 1 (Some 1); Sub A_population [Old A_population; After 0]; SameLen A_population;
        Sub A_archive [Old A_archive; After 0]; result_rule]]
  | AMOEAD =>                                                                 (* moead_iterate / moead_flow *)
      [[NBatches 1 None; Sub A_population [Old A_population; AllAfter]; SameLen A_population; result_rule]]
  | APAES =>                                                                  (* paes_iterate / paes_iterate_flow *)
      [[NBatches 1 (Some 1); Sub A_population [Old A_population; After 0]; SameLen A_population;
        Sub A_archive [Old A_archive; After 0]; result_rule]]
  | APESA2 =>                                                                 (* pesa2_iterate *)
      [[NBatches 1 (Some 1); SameAs A_population (After 0); Fresh A_population; Sub A_archive [Old A_archive; After 0]; result_rule]]
  | AOMOPSO | ASMPSO =>                                                       (* pso_iterate / pso_iterate_flow; pso_move: D_move = a deep copy *)
      [[NBatches 1 (Some 1); SameAs A_particles (After 0); Fresh A_particles; Pointwise A_local_best (New A_particles) (Old A_local_best);
        Sub A_leaders [Old A_leaders; New A_particles]; Sub A_archive [Old A_archive; New A_particles]; result_rule]]
  | ACMAES =>                                                                 (* cmaes_iterate *)
      [[NBatches 1 (Some 1); Sub A_population [After 0]; SameLen A_population; Fresh A_population;
        Sub A_archive [Old A_archive; After 0]; result_rule]]
  end.
