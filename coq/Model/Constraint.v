(* Model/Constraint.v — literal model of platypus/core.py
     _constraint_eq/leq/geq/neq/lt/gt               (core.py:437-453)
     Constraint.OPERATORS, predefined constants      (core.py:482-495)
     Constraint.__init__ : (op, value) form, copy form, callable form,
                           string form with the regex (core.py:497-523)
     Problem.__call__ aggregation                    (core.py:194-195)
   Arithmetic is over exact Q (rounding of  x - y  and  + delta  is NOT modelled);
   [delta0] is the exact rational value of the double 0.0001.  A second layer
   (x_...) runs the same branch structure on xq = Q + {-inf,+inf} so that the
   correspondence can feed infinite constraint values; on finite values it is the
   Q layer (ConstraintProofs.x_call_fin, x_total_fin).
   Strings are [list ascii] (code points < 256).  Python exceptions are [None].
   Executable definitions only. *)
From Coq Require Import ZArith NArith QArith Qabs Bool List Ascii.
Import ListNotations.
From PV Require Import Base.Num.
Open Scope Q_scope.

(* ------------------------------------------------------------------ *)
(* the six violation functions (core.py:437-453)                       *)
(* ------------------------------------------------------------------ *)
Inductive cop := OpEq | OpLeq | OpGeq | OpNeq | OpLt | OpGt.

(* float.as_integer_ratio(0.0001) = (7378697629483821, 73786976294838206464) *)
Definition delta0 : Q := 7378697629483821 # 73786976294838206464.

(* def _constraint_eq(x, y): return abs(x - y) *)
Definition c_eq (x y : Q) : Q := Qabs (x - y).
(* def _constraint_leq(x, y): return 0 if x <= y else abs(x - y) *)
Definition c_leq (x y : Q) : Q := if Qle_bool x y then 0 else Qabs (x - y).
(* def _constraint_geq(x, y): return 0 if x >= y else abs(x - y) *)
Definition c_geq (x y : Q) : Q := if Qle_bool y x then 0 else Qabs (x - y).
(* def _constraint_neq(x, y): return 0 if x != y else 1 *)
Definition c_neq (x y : Q) : Q := if negb (Qeq_bool x y) then 0 else 1.
(* def _constraint_lt(x, y, delta=0.0001): return 0 if x < y else abs(x - y) + delta *)
Definition c_lt (delta x y : Q) : Q := if Qltb x y then 0 else Qabs (x - y) + delta.
(* def _constraint_gt(x, y, delta=0.0001): return 0 if x > y else abs(x - y) + delta *)
Definition c_gt (delta x y : Q) : Q := if Qltb y x then 0 else Qabs (x - y) + delta.

Definition op_fun (op : cop) (x y : Q) : Q :=
  match op with
  | OpEq => c_eq x y | OpLeq => c_leq x y | OpGeq => c_geq x y
  | OpNeq => c_neq x y | OpLt => c_lt delta0 x y | OpGt => c_gt delta0 x y
  end.

(* ------------------------------------------------------------------ *)
(* Constraint objects                                                   *)
(* ------------------------------------------------------------------ *)
(* self.function is functools.partial(OPERATORS[op], y=float(value)) or a user callable *)
Inductive constr :=
| CPartial (op : cop) (y : Q)
| CFun (f : Q -> Q).

(* Constraint.__call__(value) = self.function(value) *)
Definition call (c : constr) (x : Q) : Q :=
  match c with
  | CPartial op y => op_fun op x y
  | CFun f => f x
  end.

(* Problem.__call__ (core.py:194-195):
     solution.constraint_violation = sum([abs(f(x)) for (f, x) in zip(problem.constraints, solution.constraints)])
     solution.feasible = solution.constraint_violation == 0.0
   sum starts at 0 and adds left to right; zip stops at the shorter list *)
Definition abs_viols (cs : list constr) (xs : list Q) : list Q :=
  map (fun p => Qabs (call (fst p) (snd p))) (combine cs xs).
Definition total_viol (cs : list constr) (xs : list Q) : Q := fold_left Qplus (abs_viols cs xs) 0.
Definition feasible (cs : list constr) (xs : list Q) : bool := Qeq_bool (total_viol cs xs) 0.

(* ------------------------------------------------------------------ *)
(* the same on xq: constraint VALUES may be +-inf (thresholds stay finite) *)
(* ------------------------------------------------------------------ *)
(* abs(x - y) for x in xq, y finite: inf - y = inf, -inf - y = -inf, abs -> +inf *)
Definition x_abs_sub (x : xq) (y : Q) : xq :=
  match x with Fin q => Fin (Qabs (q - y)) | _ => PInf end.
Definition x_plus (a : xq) (d : Q) : xq :=
  match a with Fin q => Fin (q + d) | PInf => PInf | NInf => NInf end.
Definition x_abs (a : xq) : xq :=
  match a with Fin q => Fin (Qabs q) | _ => PInf end.
(* x != y on floats *)
Definition x_neqb (a b : xq) : bool :=
  match a, b with
  | Fin p, Fin q => negb (Qeq_bool p q)
  | NInf, NInf | PInf, PInf => false
  | _, _ => true
  end.
(* x <= y on floats *)
Definition x_leb (a b : xq) : bool :=
  match a, b with
  | Fin p, Fin q => Qle_bool p q
  | _, _ => xleb a b
  end.

Definition x_op_fun (op : cop) (x : xq) (y : Q) : xq :=
  match op with
  | OpEq => x_abs_sub x y
  | OpLeq => if x_leb x (Fin y) then Fin 0 else x_abs_sub x y
  | OpGeq => if x_leb (Fin y) x then Fin 0 else x_abs_sub x y
  | OpNeq => if x_neqb x (Fin y) then Fin 0 else Fin 1
  | OpLt => if xltb x (Fin y) then Fin 0 else x_plus (x_abs_sub x y) delta0
  | OpGt => if xltb (Fin y) x then Fin 0 else x_plus (x_abs_sub x y) delta0
  end.

(* a user callable is only modelled on finite arguments *)
Definition x_call (c : constr) (x : xq) : option xq :=
  match c with
  | CPartial op y => Some (x_op_fun op x y)
  | CFun f => match x with Fin q => Some (Fin (f q)) | _ => None end
  end.

Definition x_sum_step (acc : option xq) (v : option xq) : option xq :=
  match acc, v with
  | Some a, Some b => xadd a (x_abs b)
  | _, _ => None
  end.
Definition x_total (cs : list constr) (xs : list xq) : option xq :=
  fold_left x_sum_step (map (fun p => x_call (fst p) (snd p)) (combine cs xs)) (Some (Fin 0)).
(* constraint_violation == 0.0 *)
Definition x_is_zero (t : xq) : bool := negb (x_neqb t (Fin 0)).

(* ------------------------------------------------------------------ *)
(* the string form (core.py:515-523)                                    *)
(*   match = re.match(r"^([<>=!]+)\s*([^\s<>=!]+)$", op)                 *)
(* ------------------------------------------------------------------ *)
Definition is_opch (c : ascii) : bool :=
  (Ascii.eqb c "<" || Ascii.eqb c ">" || Ascii.eqb c "=" || Ascii.eqb c "!")%char.

(* \s on a str pattern = the characters with str.isspace(); below U+0100 these are
   \t \n \v \f \r (9-13), FS GS RS US (28-31), space (32), NEL (133), NBSP (160) *)
Definition is_space (c : ascii) : bool :=
  let n := N_of_ascii c in
  ((9 <=? n) && (n <=? 13) || (28 <=? n) && (n <=? 32) || (n =? 133) || (n =? 160))%N.

(* [^\s<>=!] *)
Definition is_tokch (c : ascii) : bool := negb (is_space c) && negb (is_opch c).

(* longest prefix of characters satisfying p, and the rest *)
Fixpoint span (p : ascii -> bool) (s : list ascii) : list ascii * list ascii :=
  match s with
  | [] => ([], [])
  | c :: r => if p c then let (a, b) := span p r in (c :: a, b) else ([], s)
  end.

(* The three classes are pairwise disjoint, so the greedy leftmost match of the regex
   is the only candidate: maximal operator run (non-empty), maximal whitespace run,
   maximal token run (non-empty), then "$" = end of string, or just before a final
   newline (Python's "$" without re.MULTILINE). *)
Definition re_match (s : list ascii) : option (list ascii * list ascii) :=
  let (op, r1) := span is_opch s in
  match op with
  | [] => None
  | _ =>
    let (_, r2) := span is_space r1 in
    let (tok, r3) := span is_tokch r2 in
    match tok with
    | [] => None
    | _ => match r3 with
           | [] => Some (op, tok)
           | ["010"%char] => Some (op, tok)
           | _ => None
           end
    end
  end.

Fixpoint str_eqb (a b : list ascii) : bool :=
  match a, b with
  | [], [] => true
  | x :: a', y :: b' => Ascii.eqb x y && str_eqb a' b'
  | _, _ => false
  end.

(* Constraint.OPERATORS (core.py:482-489) *)
Definition OPERATORS : list (list ascii * cop) :=
  [ (["="; "="], OpEq); (["<"; "="], OpLeq); ([">"; "="], OpGeq);
    (["!"; "="], OpNeq); (["<"], OpLt); ([">"], OpGt) ]%char.

(* OPERATORS[key]; KeyError = None *)
Definition lookup_op (key : list ascii) : option cop :=
  match find (fun e => str_eqb (fst e) key) OPERATORS with
  | Some e => Some (snd e)
  | None => None
  end.

(* regex + table lookup; the numeric conversion of the token is separate *)
Definition parse_tokens (s : list ascii) : option (cop * list ascii) :=
  match re_match s with
  | None => None                                  (* PlatypusError: unable to parse expression *)
  | Some (o, tok) =>
      match lookup_op o with
      | None => None                              (* KeyError -> PlatypusError *)
      | Some op => Some (op, tok)
      end
  end.

(* Constraint.EQUALS_ZERO ... GREATER_THAN_ZERO (core.py:491-495) are plain strings *)
Definition EQUALS_ZERO : list ascii := ["="; "="; "0"]%char.
Definition LEQ_ZERO : list ascii := ["<"; "="; "0"]%char.
Definition GEQ_ZERO : list ascii := [">"; "="; "0"]%char.
Definition LESS_THAN_ZERO : list ascii := ["<"; "0"]%char.
Definition GREATER_THAN_ZERO : list ascii := [">"; "0"]%char.

Section Ctor.
  (* Python's float(str): the numeric conversion of the token is delegated *)
  Variable parse_float : list ascii -> option Q.

  (* the four shapes of Constraint.__init__'s arguments, in the order the code tests them *)
  Inductive ctor_arg :=
  | APair (op : list ascii) (value : Q)     (* Constraint(op, value), value is not None; y = float(value) *)
  | ACopy (c : constr)                      (* Constraint(constraint_object) *)
  | ACallable (f : Q -> Q)                  (* Constraint(callable) *)
  | AStr (s : list ascii).                  (* Constraint("<=5") *)

  Definition construct (a : ctor_arg) : option constr :=
    match a with
    | APair o value =>
        match lookup_op o with                    (* Constraint.OPERATORS[op]: KeyError *)
        | Some op => Some (CPartial op value)
        | None => None
        end
    | ACopy c => Some c                           (* self.function = op.function *)
    | ACallable f => Some (CFun f)
    | AStr s =>
        match parse_tokens s with
        | None => None
        | Some (op, tok) =>
            match parse_float tok with
            | None => None                        (* ValueError -> PlatypusError *)
            | Some y => Some (CPartial op y)
            end
        end
    end.

  (* self.op of the two-argument form: op + str(value) *)
  Definition pair_op_string (o strvalue : list ascii) : list ascii := o ++ strvalue.
End Ctor.
