(* Model/LSolve.v — literal model of platypus/_math.py lsolve (_math.py:76-119):
   Gaussian elimination with partial pivoting, SingularError on a tiny pivot,
   back substitution.  Executable definitions only.

   The function is written ONCE over an abstract carrier (T, + - * / abs, >, <=,
   ==0) so that the very same Gallina code is
     * instantiated at exact Q   (lsolveQ, below)      -> theorems in Proofs/LSolveProofs.v
     * instantiated at binary64  (lsolveF, EigFloat.v) -> bit-exact correspondence with CPython.
   Matrices are lists of rows.  Python exceptions are explicit results:
     SingularError      -> Singular
     ZeroDivisionError  -> DivZero   (float / 0.0 raises in Python; unreachable when 0 <= eps, proved)
   Reads use a default (zero / []) outside the list; with well-formed input
   (N rows of length N, N = len(b)) every index of the code is in range. *)
From Coq Require Import ZArith QArith Qabs List Bool.
Import ListNotations.

(* l[i] = v *)
Fixpoint upd {X : Type} (l : list X) (i : nat) (v : X) : list X :=
  match l, i with
  | [], _ => []
  | _ :: t, O => v :: t
  | h :: t, S k => h :: upd t k v
  end.

(* l[p], l[m] = l[m], l[p]   (right-hand tuple is evaluated first, then l[p], then l[m] is stored) *)
Definition swap {X : Type} (d : X) (l : list X) (p m : nat) : list X :=
  let vm := nth m l d in
  let vp := nth p l d in
  upd (upd l p vm) m vp.

Section LSolve.
  Variable T : Type.
  Variable zero : T.
  Variables add sub mul div : T -> T -> T.
  Variable abs : T -> T.
  Variable gtb : T -> T -> bool.     (* a > b  *)
  Variable leb : T -> T -> bool.     (* a <= b *)
  Variable eq0 : T -> bool.          (* divisor == 0 : Python raises ZeroDivisionError *)

  Inductive lres := Singular | DivZero | Solved (x : list T).
  Inductive eres := ESingular | EDivZero | Elim (A : list (list T)) (b : list T).

  Definition get (l : list T) (i : nat) : T := nth i l zero.
  Definition row (A : list (list T)) (i : nat) : list T := nth i A [].

  (* _math.py:87-91   max = p; for i in range(p+1, N): if abs(A[i][p]) > abs(A[max][p]): max = i *)
  Definition pivot (A : list (list T)) (N p : nat) : nat :=
    fold_left (fun mx i => if gtb (abs (get (row A i) p)) (abs (get (row A mx) p)) then i else mx)
              (seq (S p) (N - S p)) p.

  (* _math.py:105-106  for j in range(p, N): A[i][j] -= alpha * A[p][j] *)
  Definition row_elim (N p : nat) (alpha : T) (ri rp : list T) : list T :=
    fold_left (fun r j => upd r j (sub (get r j) (mul alpha (get rp j)))) (seq p (N - p)) ri.

  (* _math.py:101-106  for i in range(p+1, N): alpha = A[i][p] / A[p][p]; b[i] -= alpha*b[p]; row update.
     None = ZeroDivisionError raised by the division *)
  Definition elim_rows (N p : nat) (A : list (list T)) (b : list T) : option (list (list T) * list T) :=
    fold_left (fun st i =>
                 match st with
                 | None => None
                 | Some (A, b) =>
                     let app := get (row A p) p in
                     if eq0 app then None
                     else
                       let alpha := div (get (row A i) p) app in
                       let b' := upd b i (sub (get b i) (mul alpha (get b p))) in
                       let A' := upd A i (row_elim N p alpha (row A i) (row A p)) in
                       Some (A', b')
                 end)
              (seq (S p) (N - S p)) (Some (A, b)).

  (* _math.py:85-106  one iteration of  for p in range(N) *)
  Definition step (eps : T) (N : nat) (st : eres) (p : nat) : eres :=
    match st with
    | Elim A b =>
        let mx := pivot A N p in
        let A1 := swap [] A p mx in               (* :93 *)
        let b1 := swap zero b p mx in             (* :94 *)
        if leb (abs (get (row A1 p) p)) eps then ESingular      (* :97-98 *)
        else match elim_rows N p A1 b1 with
             | None => EDivZero
             | Some (A2, b2) => Elim A2 b2
             end
    | e => e
    end.

  (* _math.py:83-106 *)
  Definition eliminate (eps : T) (A : list (list T)) (b : list T) : eres :=
    let N := length b in
    fold_left (step eps N) (seq 0 N) (Elim A b).

  (* _math.py:112-115  sum = 0.0; for j in range(i+1, N): sum += A[i][j] * x[j] *)
  Definition back_sum (N i : nat) (ri x : list T) : T :=
    fold_left (fun s j => add s (mul (get ri j) (get x j))) (seq (S i) (N - S i)) zero.

  (* one iteration of  for i in range(N-1, -1, -1)  (_math.py:111-117) *)
  Definition back_step (N : nat) (A : list (list T)) (b : list T) (st : option (list T)) (i : nat)
    : option (list T) :=
    match st with
    | None => None
    | Some x =>
        let s := back_sum N i (row A i) x in
        let aii := get (row A i) i in
        if eq0 aii then None
        else Some (upd x i (div (sub (get b i) s) aii))
    end.

  (* the loop started from an arbitrary vector x0 and row m-1 (the code: x0 = [0.0]*N, m = N) *)
  Definition backsub_from (N : nat) (A : list (list T)) (b : list T) (x0 : list T) (m : nat) : option (list T) :=
    fold_left (back_step N A b) (rev (seq 0 m)) (Some x0).

  (* _math.py:108-119 *)
  Definition backsub (A : list (list T)) (b : list T) : option (list T) :=
    let N := length b in
    backsub_from N A b (repeat zero N) N.

  Definition lsolve (eps : T) (A : list (list T)) (b : list T) : lres :=
    match eliminate eps A b with
    | ESingular => Singular
    | EDivZero => DivZero
    | Elim U c => match backsub U c with
                  | None => DivZero
                  | Some x => Solved x
                  end
    end.
End LSolve.

Arguments Singular {T}.
Arguments DivZero {T}.
Arguments Solved {T} _.
Arguments ESingular {T}.
Arguments EDivZero {T}.
Arguments Elim {T} _ _.

(* ---- exact instance ---- *)
Definition Qgtb (a b : Q) : bool := negb (Qle_bool a b).
Definition Qeq0 (a : Q) : bool := Qeq_bool a 0.

Definition pivotQ := pivot Q 0%Q Qabs Qgtb.
Definition row_elimQ := row_elim Q 0%Q Qminus Qmult.
Definition elim_rowsQ := elim_rows Q 0%Q Qminus Qmult Qdiv Qeq0.
Definition stepQ := step Q 0%Q Qminus Qmult Qdiv Qabs Qgtb Qle_bool Qeq0.
Definition eliminateQ := eliminate Q 0%Q Qminus Qmult Qdiv Qabs Qgtb Qle_bool Qeq0.
Definition back_sumQ := back_sum Q 0%Q Qplus Qmult.
Definition back_stepQ := back_step Q 0%Q Qplus Qminus Qmult Qdiv Qeq0.
Definition backsub_fromQ := backsub_from Q 0%Q Qplus Qminus Qmult Qdiv Qeq0.
Definition backsubQ := backsub Q 0%Q Qplus Qminus Qmult Qdiv Qeq0.
Definition lsolveQ := lsolve Q 0%Q Qplus Qminus Qmult Qdiv Qabs Qgtb Qle_bool Qeq0.

(* the code's threshold: EPSILON = sys.float_info.epsilon = 2^-52 *)
Definition EPSILON_Q : Q := 1 # (2 ^ 52).
