(* Model/MPI.v — executable transition system for platypus/mpipool.py
   MPIPool.map (124-240) on the master (rank 0) and MPIPool.wait (74-122) on the
   workers (ranks 1..size; worker index w here = rank w+1).  Definitions only.

   Messages.  Every message is (src, dst, tag, payload).  All traffic is between
   the master and one worker, so the in-flight messages are kept per ordered
   pair: [w_in]  = messages master -> worker w, in the order they were sent,
         [w_out] = messages worker w -> master, in the order they were sent.
   MPI non-overtaking: of two messages on the same (src,dst) pair that both
   match a receive, the one sent first is received first.
     * worker:  comm.recv(source=0, tag=ANY_TAG)        (91)  matches everything
       the master sent it, so it always gets the HEAD of w_in;
     * master, static branch:  comm.recv(source=worker, tag=i)  (188) gets the
       FIRST message of w_out carrying tag i ([take_tag]);
     * master, load-balanced branch:  comm.recv(ANY_SOURCE, ANY_TAG)  (217) gets
       the HEAD of w_out of SOME worker — which one is the schedule's choice.
   Which process moves next is also the schedule's choice.  Sends are buffered
   (isend / send complete locally; MPI standard mode permits this; waitall
   (164, 180) is then no event).  A purely synchronous MPI is not modelled.

   Functions are numbered; 0 is _error_function (275).  [fn g t] is the value of
   function g on task t.  Tasks that raise (113-118, 189-193) are outside the
   model: fn is total.

   Master program, as counters (same fields for both branches):
     m_bc     wrappers _function_wrapper(function) sent so far (158-160); set to
              size at once when `function is self.function` (149)
     m_sent   static: tasks isent so far (173-178);
              load-balanced: ntasks_dispatched (205-212, 231-238)
     m_recvd  results received so far (184-198 / 214-225)
     m_acc    static: results (appended, 198)
     m_slots  load-balanced: results = [None]*ntask, results[tag] = result (213, 225)
     m_pend   load-balanced: Some w = a result was just received from w and the
              next task is about to be isent to w (231-238)
     m_done   map has returned (200 / 240)
   Worker program: WWait = blocked in recv (91); WRun tag t = between that recv
   and the send of the answer (114-122), the task runs here. *)
From Coq Require Import List Bool Arith PeanoNat.
Import ListNotations.

Section MPI.
  Variables (T R : Type).
  Variable fn : nat -> T -> R.

  Inductive wmsg := MFun (g : nat) | MTask (tag : nat) (t : T).
  Inductive wstate := WWait | WRun (tag : nat) (t : T).
  Record worker := Wk { w_fun : nat; w_st : wstate; w_in : list wmsg; w_out : list (nat * R) }.
  Record master := Ms { m_bc : nat; m_sent : nat; m_recvd : nat; m_acc : list R;
                        m_slots : list (option R); m_pend : option nat; m_done : bool }.
  Record state := St { st_m : master; st_w : list worker }.
  (* one map call on a pool: size, function number, tasks, self.loadbalance *)
  Record config := Cfg { c_W : nat; c_g : nat; c_tasks : list T; c_lb : bool }.

  (* the schedule: one entry per event, labelled with what the event is observed to be *)
  Inductive ev :=
  | EMSendFun (dst : nat)              (* master: isend(F, dest=dst+1)                       159 *)
  | EMSend (dst tag : nat)             (* master: isend(task, dest=dst+1, tag=tag)      177/210/237 *)
  | EMRecv (src tag : nat)             (* master: recv returns the message (src+1, tag)  188/217 *)
  | EMRet                              (* master: return results                         200/240 *)
  | EWRecv (w : nat) (k : option nat)  (* worker w: recv returns; None = a function wrapper,
                                          Some tag = a task with that tag                     91 *)
  | EWSend (w tag : nat).              (* worker w: task done, send(result, dest=0, tag)     122 *)

  Fixpoint upd {A : Type} (l : list A) (i : nat) (x : A) : list A :=
    match l, i with
    | [], _ => []
    | _ :: r, O => x :: r
    | a :: r, S i' => a :: upd r i' x
    end.

  (* first message with the given tag, and the queue without it *)
  Fixpoint take_tag (tag : nat) (q : list (nat * R)) : option (R * list (nat * R)) :=
    match q with
    | [] => None
    | (t, r) :: q' =>
        if Nat.eqb t tag then Some (r, q')
        else match take_tag tag q' with
             | Some (r', q'') => Some (r', (t, r) :: q'')
             | None => None
             end
    end.

  (* (not self.loadbalance) or (ntask <= self.size) is the static branch (166) *)
  Definition use_lb (cfg : config) : bool := c_lb cfg && (c_W cfg <? length (c_tasks cfg)).

  Definition push_in (ws : list worker) (d : nat) (m : wmsg) : option (list worker) :=
    match nth_error ws d with
    | None => None
    | Some wk => Some (upd ws d (Wk (w_fun wk) (w_st wk) (w_in wk ++ [m]) (w_out wk)))
    end.

  Definition is_none {A : Type} (o : option A) : bool := match o with None => true | Some _ => false end.

  Definition step (cfg : config) (st : state) (e : ev) : option state :=
    let m := st_m st in
    let ws := st_w st in
    let W := c_W cfg in
    let n := length (c_tasks cfg) in
    match e with
    | EMSendFun d =>
        if negb (m_done m) && (m_bc m <? W) && (d =? m_bc m) then
          match push_in ws d (MFun (c_g cfg)) with
          | Some ws' => Some (St (Ms (S (m_bc m)) (m_sent m) (m_recvd m) (m_acc m) (m_slots m) (m_pend m) (m_done m)) ws')
          | None => None
          end
        else None
    | EMSend d tag =>
        if negb (m_done m) && (m_bc m =? W) && (tag =? m_sent m) && (m_sent m <? n) &&
           (if use_lb cfg
            then match m_pend m with
                 | Some w => d =? w                                    (* 237: to the worker that answered *)
                 | None => (m_sent m <? W) && (d =? m_sent m)          (* 205-210: task i to worker i+1 *)
                 end
            else d =? m_sent m mod W)                                  (* 174: worker = i % size + 1 *)
        then
          match nth_error (c_tasks cfg) tag with
          | Some t =>
              match push_in ws d (MTask tag t) with
              | Some ws' => Some (St (Ms (m_bc m) (S (m_sent m)) (m_recvd m) (m_acc m) (m_slots m) None (m_done m)) ws')
              | None => None
              end
          | None => None
          end
        else None
    | EMRecv src tag =>
        if negb (m_done m) && (m_bc m =? W) && (m_recvd m <? n) then
          match nth_error ws src with
          | None => None
          | Some wk =>
              if use_lb cfg then
                if (W <=? m_sent m) && is_none (m_pend m) then
                  match w_out wk with
                  | (tg, r) :: q =>
                      if (tg =? tag) && (tag <? length (m_slots m)) then
                        Some (St (Ms (m_bc m) (m_sent m) (S (m_recvd m)) (m_acc m)
                                     (upd (m_slots m) tag (Some r))
                                     (if m_sent m <? n then Some src else None) (m_done m))
                                 (upd ws src (Wk (w_fun wk) (w_st wk) (w_in wk) q)))
                      else None
                  | [] => None
                  end
                else None
              else
                if (m_sent m =? n) && (tag =? m_recvd m) && (src =? m_recvd m mod W) then
                  match take_tag tag (w_out wk) with
                  | Some (r, q) =>
                      Some (St (Ms (m_bc m) (m_sent m) (S (m_recvd m)) (m_acc m ++ [r]) (m_slots m) (m_pend m) (m_done m))
                               (upd ws src (Wk (w_fun wk) (w_st wk) (w_in wk) q)))
                  | None => None
                  end
                else None
          end
        else None
    | EMRet =>
        if negb (m_done m) && (m_bc m =? W) && (m_recvd m =? n) && is_none (m_pend m) &&
           (if use_lb cfg then W <=? m_sent m else m_sent m =? n)
        then Some (St (Ms (m_bc m) (m_sent m) (m_recvd m) (m_acc m) (m_slots m) (m_pend m) true) ws)
        else None
    | EWRecv w k =>
        match nth_error ws w with
        | None => None
        | Some wk =>
            match w_st wk, w_in wk, k with
            | WWait, MFun g' :: q, None => Some (St m (upd ws w (Wk g' WWait q (w_out wk))))                    (* 104-109 *)
            | WWait, MTask tag t :: q, Some tag' =>
                if tag =? tag' then Some (St m (upd ws w (Wk (w_fun wk) (WRun tag t) q (w_out wk)))) else None
            | _, _, _ => None
            end
        end
    | EWSend w tag =>
        match nth_error ws w with
        | None => None
        | Some wk =>
            match w_st wk with
            | WRun tg t =>
                if tg =? tag
                then Some (St m (upd ws w (Wk (w_fun wk) WWait (w_in wk) (w_out wk ++ [(tg, fn (w_fun wk) t)]))))   (* 114, 122 *)
                else None
            | WWait => None
            end
        end
    end.

  Fixpoint run_schedule (cfg : config) (st : state) (evs : list ev) : option state :=
    match evs with
    | [] => Some st
    | e :: r => match step cfg st e with
                | None => None
                | Some st' => run_schedule cfg st' r
                end
    end.

  (* entry of map: mf = the master's self.function, ws = the workers as the
     previous batch (or the pool constructor) left them *)
  Definition init (cfg : config) (mf : nat) (ws : list worker) : state :=
    St (Ms (if c_g cfg =? mf then c_W cfg else 0) 0 0 [] (repeat None (length (c_tasks cfg))) None false) ws.

  Definition fresh_workers (W : nat) : list worker := repeat (Wk 0 WWait [] []) W.

  (* the list map returns *)
  Definition result (cfg : config) (st : state) : list (option R) :=
    if use_lb cfg then m_slots (st_m st) else map Some (m_acc (st_m st)).

  (* accepts: the event trace is a run of the transition system from the entry
     state and ends with map having returned; gives the returned list and the
     workers as they are left for the next batch *)
  Definition accepts_run (cfg : config) (mf : nat) (ws : list worker) (evs : list ev)
    : option (list (option R) * list worker) :=
    match run_schedule cfg (init cfg mf ws) evs with
    | Some st => if m_done (st_m st) then Some (result cfg st, st_w st) else None
    | None => None
    end.

  (* consecutive map calls on ONE pool: batch = (function number, tasks, event trace);
     self.function after a map is that map's function (153), the workers carry over *)
  Fixpoint run_session (W : nat) (lbflag : bool) (mf : nat) (ws : list worker)
           (bs : list (nat * list T * list ev)) : option (list (list (option R))) :=
    match bs with
    | [] => Some []
    | (gb, tb, eb) :: r =>
        match accepts_run (Cfg W gb tb lbflag) mf ws eb with
        | Some (res, ws') => option_map (cons res) (run_session W lbflag gb ws' r)
        | None => None
        end
    end.

  (* all events that could possibly be enabled in a state (used to search for an enabled one) *)
  Definition candidates (cfg : config) (st : state) : list ev :=
    let m := st_m st in
    let W := c_W cfg in
    [EMSendFun (m_bc m); EMRet] ++
    map (fun d => EMSend d (m_sent m)) (seq 0 W) ++
    flat_map (fun w => match nth_error (st_w st) w with
                       | Some wk =>
                           map (fun tr => EMRecv w (fst tr)) (w_out wk) ++
                           match w_st wk with WRun tg _ => [EWSend w tg] | WWait => [] end ++
                           match w_in wk with
                           | MFun _ :: _ => [EWRecv w None]
                           | MTask tag _ :: _ => [EWRecv w (Some tag)]
                           | [] => []
                           end
                       | None => []
                       end) (seq 0 W).

  Definition enabled (cfg : config) (st : state) : list ev :=
    filter (fun e => match step cfg st e with Some _ => true | None => false end) (candidates cfg st).
End MPI.

Arguments MFun {T} _.
Arguments MTask {T} _ _.
Arguments WWait {T}.
Arguments WRun {T} _ _.
Arguments Wk {T R} _ _ _ _.
Arguments w_fun {T R} _.
Arguments w_st {T R} _.
Arguments w_in {T R} _.
Arguments w_out {T R} _.
Arguments Ms {R} _ _ _ _ _ _ _.
Arguments m_bc {R} _.
Arguments m_sent {R} _.
Arguments m_recvd {R} _.
Arguments m_acc {R} _.
Arguments m_slots {R} _.
Arguments m_pend {R} _.
Arguments m_done {R} _.
Arguments St {T R} _ _.
Arguments st_m {T R} _.
Arguments st_w {T R} _.
Arguments Cfg {T} _ _ _ _.
Arguments c_W {T} _.
Arguments c_g {T} _.
Arguments c_tasks {T} _.
Arguments c_lb {T} _.
Arguments take_tag {R} _ _.
Arguments use_lb {T} _.
Arguments push_in {T R} _ _ _.
Arguments step {T R} _ _ _ _.
Arguments run_schedule {T R} _ _ _ _.
Arguments init {T R} _ _ _.
Arguments fresh_workers {T R} _.
Arguments result {T R} _ _.
Arguments accepts_run {T R} _ _ _ _ _.
Arguments run_session {T R} _ _ _ _ _ _.
Arguments candidates {T R} _ _.
Arguments enabled {T R} _ _ _.
