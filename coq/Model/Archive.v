(* Model/Archive.v — literal model of platypus/core.py class Archive (core.py:1022-1129)
   and of nondominated() (core.py:1369-1383).  Executable definitions only.

   The archive is modelled generically over the element type [T] and the comparator
   [cmp : T -> T -> Z] (the archive's [self._dominance.compare]); the executable
   instance [x_*] uses solutions over the carrier xq and C02's [pareto_compare].

   Reusable exports (later properties import these):
     sol, sid, s_objs, s_cv, dsol_of, sol_cmp          solutions with identity + Pareto comparator on them
     dom, add, append, extend, iadd_list, iadd_one      the five entry points of Archive
     archive, nondominated, nd                          fold of add over an offered list / the stand-alone filter / "no offered y dominates x"
     op, step, run_ops, offered                         operation sequences
     xsol, x_sol_cmp, x_archive, x_nondominated ...     the executable instance *)
From Coq Require Import ZArith Bool List.
Import ListNotations.
From PV Require Import Base.Num Model.Dominance.
Open Scope Z_scope.

(* itertools.compress(data, selectors) *)
Fixpoint compress {A} (data : list A) (sel : list bool) : list A :=
  match data, sel with
  | d :: data', b :: sel' => if b then d :: compress data' sel' else compress data' sel'
  | _, _ => []
  end.

Section Archive.
  Variable T : Type.
  Variable cmp : T -> T -> Z.   (* -1: first dominates, 1: second dominates, 0: neither *)

  (* "x dominates y" *)
  Definition dom (x y : T) : bool := (cmp x y =? -1).

  (* Archive.add, core.py:1040-1069.  The archive state is [self._contents]. *)
  Definition add (a : list T) (s : T) : list T * bool :=
    let flags := map (fun m => cmp s m) a in              (* [compare(solution, s) for s in self._contents] *)
    let dominates := map (fun x => x >? 0) flags in       (* [x > 0 for x in flags]  *)
    let nondominated := map (fun x => x =? 0) flags in    (* [x == 0 for x in flags] *)
    if existsb (fun b : bool => b) dominates              (* if any(dominates): return False *)
    then (a, false)
    else (compress a nondominated ++ [s], true).          (* compress(contents, nondominated) + [solution]; return True *)

  (* Archive.append, core.py:1071-1081: self.add(solution), result dropped *)
  Definition append (a : list T) (s : T) : list T := fst (add a s).

  (* Archive.extend, core.py:1083-1092: for solution in solutions: self.append(solution) *)
  Definition extend (a : list T) (l : list T) : list T := fold_left append l a.

  (* Archive.__iadd__ with an iterable, core.py:1119-1122: for o in other: self.add(o) *)
  Definition iadd_list (a : list T) (l : list T) : list T := fold_left (fun a o => fst (add a o)) l a.

  (* Archive.__iadd__ with a single solution (no __iter__), core.py:1123-1124: self.add(other) *)
  Definition iadd_one (a : list T) (s : T) : list T := fst (add a s).

  (* the archive obtained by offering the list l to an empty archive, one add at a time *)
  Definition archive (l : list T) : list T := fold_left (fun a s => fst (add a s)) l [].

  (* nondominated(solutions), core.py:1369-1383: archive = Archive(); archive += solutions; return archive._contents *)
  Definition nondominated (l : list T) : list T := iadd_list [] l.

  (* specification side: x is dominated by no member of l *)
  Definition nd (l : list T) (x : T) : bool := negb (existsb (fun y => dom y x) l).

  (* operation sequences over the five entry points *)
  Inductive op :=
  | OAdd (s : T)            (* r = archive.add(s)     *)
  | OAppend (s : T)         (* archive.append(s)      *)
  | OExtend (l : list T)    (* archive.extend(l)      *)
  | OIaddList (l : list T)  (* archive += l           *)
  | OIaddOne (s : T).       (* archive += s           *)

  (* new contents and the value returned to the caller (only add returns one) *)
  Definition step (a : list T) (o : op) : list T * option bool :=
    match o with
    | OAdd s => let r := add a s in (fst r, Some (snd r))
    | OAppend s => (append a s, None)
    | OExtend l => (extend a l, None)
    | OIaddList l => (iadd_list a l, None)
    | OIaddOne s => (iadd_one a s, None)
    end.

  Definition run_ops (ops : list op) (a : list T) : list T := fold_left (fun a o => fst (step a o)) ops a.

  (* everything the history offered, in order *)
  Definition offered_op (o : op) : list T :=
    match o with
    | OAdd s | OAppend s | OIaddOne s => [s]
    | OExtend l | OIaddList l => l
    end.
  Definition offered (ops : list op) : list T := flat_map offered_op ops.

  (* the observable trace of a history: after every operation (returned value, contents) *)
  Fixpoint trace (ops : list op) (a : list T) : list (option bool * list T) :=
    match ops with
    | [] => []
    | o :: r => let st := step a o in (snd st, fst st) :: trace r (fst st)
    end.
End Archive.

Arguments OAdd {T} _.
Arguments OAppend {T} _.
Arguments OExtend {T} _.
Arguments OIaddList {T} _.
Arguments OIaddOne {T} _.

(* ---------- solutions with identity ---------- *)
(* sid = object identity (two entries with the same sid are the same Python object and
   therefore have the same fields; twins = different sid, equal fields) *)
Record sol (V : Type) := { sid : nat; s_objs : list V; s_cv : V }.
Arguments sid {V} _.
Arguments s_objs {V} _.
Arguments s_cv {V} _.
Arguments Build_sol {V} _ _ _.

Definition dsol_of {V} (x : sol V) : dsol V := Build_dsol (s_objs x) (s_cv x).

(* ParetoDominance.compare on solutions: [c] = problem.nconstrs > 0, [dirs] = problem.directions *)
Definition sol_cmp (V : Type) (ltb : V -> V -> bool) (neg : V -> V) (zero : V)
           (c : bool) (dirs : list bool) (x y : sol V) : Z :=
  pareto_compare V ltb neg zero c dirs (dsol_of x) (dsol_of y).

(* "x in l" for Solution objects (no __eq__ defined: identity) *)
Definition mem_sid {V} (x : sol V) (l : list (sol V)) : bool := existsb (fun y => Nat.eqb (sid y) (sid x)) l.

(* ---------- executable instance ---------- *)
Definition xsol := sol xq.
Definition x_sol_cmp : bool -> list bool -> xsol -> xsol -> Z := sol_cmp xq xltb xneg xzero.
Definition x_add (c : bool) (dirs : list bool) := add xsol (x_sol_cmp c dirs).
Definition x_archive (c : bool) (dirs : list bool) := archive xsol (x_sol_cmp c dirs).
Definition x_nondominated (c : bool) (dirs : list bool) := nondominated xsol (x_sol_cmp c dirs).
Definition x_step (c : bool) (dirs : list bool) := step xsol (x_sol_cmp c dirs).
Definition x_trace (c : bool) (dirs : list bool) := trace xsol (x_sol_cmp c dirs).
Definition x_run_ops (c : bool) (dirs : list bool) := run_ops xsol (x_sol_cmp c dirs).
