(* Model/EigFloat.v — binary64 transliteration of platypus/_math.py
     tred2 (:133-235), tql2 (:237-335), hypot (:337-346) and of lsolve (:76-119, the generic
     function of Model/LSolve.v instantiated at float),
   over Coq's primitive floats.  EXECUTABLE ONLY: no theorem depends on this file (so no
   float axiom is used anywhere); it is evaluated by vm_compute and compared BIT FOR BIT with
   what CPython computed.  + - * / sqrt abs and the comparisons are correctly rounded IEEE-754
   operations both in CPython and in Coq's PrimFloat, python never fuses a*b+c, so the two agree
   exactly.  The one exception is `d[k]**2` (:160): float.__pow__ calls libm pow, which is NOT
   correctly rounded (x**2 differs from x*x for about 0.2% of the arguments); the model therefore
   takes the squaring function as a PARAMETER [sq] (the correspondence supplies the values libm
   returned at the arguments actually used, captured by tracing the real run; default x*x).

   Python exceptions are explicit: IndexError (every subscript is checked), ZeroDivisionError
   (float / 0.0), ValueError (math.sqrt of a negative number), UnboundLocalError (hypot(0,0)
   leaves r unassigned), and OutOfFuel for the unbounded `while True` of the QL iteration. *)
From Coq Require Import ZArith List Bool FloatClass PrimFloat Uint63 FloatOps SpecFloat.
Import ListNotations.
From PV Require Import Model.LSolve Model.EigSort.
Open Scope float_scope.

(* ---------------------------------------------------------------------- *)
(* exact literals and exact read-back                                      *)
(* ---------------------------------------------------------------------- *)
(* m * 2^e for |m| < 2^53 (exact: of_uint63 is exact below 2^53, ldexp is a single correctly
   rounded scaling and the harness only ships representable m*2^e) *)
Definition fl (m e : Z) : float :=
  if (m <? 0)%Z then - (Z.ldexp (of_uint63 (Uint63.of_Z (- m))) e)
  else Z.ldexp (of_uint63 (Uint63.of_Z m)) e.
Definition fnz : float := neg_zero.       (* -0.0 *)
Definition fpinf : float := infinity.
Definition fninf : float := neg_infinity.
Definition fnan : float := nan.

(* same bits (all NaNs identified; +0 and -0 distinguished) *)
Definition class_eqb (a b : float_class) : bool :=
  match a, b with
  | PNormal, PNormal | NNormal, NNormal | PSubn, PSubn | NSubn, NSubn
  | PZero, PZero | NZero, NZero | FloatClass.PInf, FloatClass.PInf | FloatClass.NInf, FloatClass.NInf
  | NaN, NaN => true
  | _, _ => false
  end.
Definition fsame (a b : float) : bool :=
  match classify a, classify b with
  | NaN, NaN => true
  | ca, cb => class_eqb ca cb && (a =? b)
  end.
Fixpoint vsame (u v : list float) : bool :=
  match u, v with
  | [], [] => true
  | a :: u', b :: v' => fsame a b && vsame u' v'
  | _, _ => false
  end.
Fixpoint msame (A B : list (list float)) : bool :=
  match A, B with
  | [], [] => true
  | a :: A', b :: B' => vsame a b && msame A' B'
  | _, _ => false
  end.

(* exact value of a finite float as (mantissa, exponent): value = m * 2^e ; None for inf/nan *)
Definition fexact (f : float) : option (Z * Z) :=
  match Prim2SF f with
  | S754_zero _ => Some (0, 0)%Z
  | S754_finite s m e => Some ((if s then Z.neg m else Z.pos m), e)
  | _ => None
  end.

(* ---------------------------------------------------------------------- *)
(* error monad                                                             *)
(* ---------------------------------------------------------------------- *)
Inductive perr := IndexError | ZeroDivisionError | ValueError | UnboundLocalError | OutOfFuel.
Inductive res (A : Type) := Ok (a : A) | Err (e : perr).
Arguments Ok {A} _.
Arguments Err {A} _.

Definition bind {A B} (x : res A) (f : A -> res B) : res B :=
  match x with Ok a => f a | Err e => Err e end.
Notation "x <- a ;; b" := (bind a (fun x => b)) (at level 61, a at next level, right associativity).
Notation "' p <- a ;; b" := (bind a (fun p => b)) (at level 61, p pattern, a at next level, right associativity).

Definition vec := list float.
Definition mtx := list (list float).

(* l[i] *)
Definition rd (l : vec) (i : nat) : res float :=
  match nth_error l i with Some v => Ok v | None => Err IndexError end.
(* l[i] = v *)
Definition wr (l : vec) (i : nat) (v : float) : res vec :=
  if Nat.ltb i (length l) then Ok (upd l i v) else Err IndexError.
(* V[i][j] *)
Definition rd2 (V : mtx) (i j : nat) : res float :=
  match nth_error V i with Some r => rd r j | None => Err IndexError end.
(* V[i][j] = v *)
Definition wr2 (V : mtx) (i j : nat) (v : float) : res mtx :=
  match nth_error V i with
  | Some r => r' <- wr r j v ;; Ok (upd V i r')
  | None => Err IndexError
  end.

(* a / b *)
Definition fdiv (a b : float) : res float :=
  if b =? 0 then Err ZeroDivisionError else Ok (a / b).
(* math.sqrt(a) *)
Definition fsqrt (a : float) : res float :=
  if a <? 0 then Err ValueError else Ok (PrimFloat.sqrt a).
(* Python's max(a, b): a unless b > a *)
Definition pymax (a b : float) : float := if a <? b then b else a.

(* for i in l: st = body i st *)
Fixpoint forM {S} (l : list nat) (st : S) (body : nat -> S -> res S) : res S :=
  match l with
  | [] => Ok st
  | i :: l' => st' <- body i st ;; forM l' st' body
  end.
(* range(a, b) and range(hi-1, lo-1, -1) *)
Definition range (a b : nat) : list nat := seq a (b - a).
Definition range_down (hi lo : nat) : list nat := rev (seq lo (hi - lo)).

Definition one := 1%float.
Definition two := 2%float.
Definition fzero := 0%float.

(* ---------------------------------------------------------------------- *)
(* hypot  (_math.py:337-346)                                               *)
(* ---------------------------------------------------------------------- *)
Definition hypot (a b : float) : res float :=
  if abs b <? abs a then                                   (* abs(a) > abs(b) *)
    r <- fdiv b a ;;
    s <- fsqrt (one + r * r) ;;
    Ok (abs a * s)
  else if negb (b =? 0) then                               (* elif b != 0.0 *)
    r <- fdiv a b ;;
    s <- fsqrt (one + r * r) ;;
    Ok (abs b * s)
  else Err UnboundLocalError.                              (* return r  with r never assigned *)

(* ---------------------------------------------------------------------- *)
(* tred2  (_math.py:133-235)                                               *)
(* ---------------------------------------------------------------------- *)
Section Tred2.
  Variable sq : float -> float.      (* d[k]**2 : libm pow(x, 2.0) *)
  Variable n : nat.

  (* :147-207  body of  for i in range(n-1, 0, -1) ; state (V, d, e) *)
  Definition tred2_outer (i : nat) (st : mtx * vec * vec) : res (mtx * vec * vec) :=
    let '(V, d, e) := st in
    (* :147-148 *)
    scale <- forM (range 0 i) fzero (fun k scale => dk <- rd d k ;; Ok (scale + abs dk)) ;;
    if scale =? 0 then
      (* :151-155 *)
      di1 <- rd d (i - 1) ;;
      e <- wr e i di1 ;;
      '(V, d) <- forM (range 0 i) (V, d) (fun j '(V, d) =>
          v <- rd2 V (i - 1) j ;;
          d <- wr d j v ;;
          V <- wr2 V i j fzero ;;
          V <- wr2 V j i fzero ;;
          Ok (V, d)) ;;
      (* :207  d[i] = h  with h = 0.0 *)
      d <- wr d i fzero ;;
      Ok (V, d, e)
    else
      (* :158-160 *)
      '(d, h) <- forM (range 0 i) (d, fzero) (fun k '(d, h) =>
          dk <- rd d k ;;
          q <- fdiv dk scale ;;
          d <- wr d k q ;;
          dk <- rd d k ;;
          Ok (d, h + sq dk)) ;;
      (* :162-170 *)
      f <- rd d (i - 1) ;;
      g <- fsqrt h ;;
      let g := if 0 <? f then - g else g in
      e <- wr e i (scale * g) ;;
      let h := h - f * g in
      d <- wr d (i - 1) (f - g) ;;
      (* :172-173 *)
      e <- forM (range 0 i) e (fun j e => wr e j fzero) ;;
      (* :175-184 *)
      '(V, e) <- forM (range 0 i) (V, e) (fun j '(V, e) =>
          f <- rd d j ;;
          V <- wr2 V j i f ;;
          ej <- rd e j ;;
          vjj <- rd2 V j j ;;
          let g := ej + vjj * f in
          '(e, g) <- forM (range (j + 1) i) (e, g) (fun k '(e, g) =>
              vkj <- rd2 V k j ;;
              dk <- rd d k ;;
              let g := g + vkj * dk in
              ek <- rd e k ;;
              e <- wr e k (ek + vkj * f) ;;
              Ok (e, g)) ;;
          e <- wr e j g ;;
          Ok (V, e)) ;;
      (* :186-190 *)
      '(e, f) <- forM (range 0 i) (e, fzero) (fun j '(e, f) =>
          ej <- rd e j ;;
          q <- fdiv ej h ;;
          e <- wr e j q ;;
          ej <- rd e j ;;
          dj <- rd d j ;;
          Ok (e, f + ej * dj)) ;;
      (* :192 *)
      hh <- fdiv f (two * h) ;;
      (* :194-195 *)
      e <- forM (range 0 i) e (fun j e =>
          ej <- rd e j ;;
          dj <- rd d j ;;
          wr e j (ej - hh * dj)) ;;
      (* :197-205 *)
      '(V, d) <- forM (range 0 i) (V, d) (fun j '(V, d) =>
          f <- rd d j ;;
          g <- rd e j ;;
          V <- forM (range j i) V (fun k V =>
              vkj <- rd2 V k j ;;
              ek <- rd e k ;;
              dk <- rd d k ;;
              wr2 V k j (vkj - (f * ek + g * dk))) ;;
          v <- rd2 V (i - 1) j ;;
          d <- wr d j v ;;
          V <- wr2 V i j fzero ;;
          Ok (V, d)) ;;
      (* :207 *)
      d <- wr d i h ;;
      Ok (V, d, e).

  (* :209-228  body of  for i in range(n-1) ; state (V, d) *)
  Definition tred2_accum (i : nat) (st : mtx * vec) : res (mtx * vec) :=
    let '(V, d) := st in
    vii <- rd2 V i i ;;
    V <- wr2 V (n - 1) i vii ;;
    V <- wr2 V i i one ;;
    h <- rd d (i + 1) ;;
    '(V, d) <-
      (if negb (h =? 0) then
         d <- forM (range 0 (i + 1)) d (fun k d =>
             v <- rd2 V k (i + 1) ;;
             q <- fdiv v h ;;
             wr d k q) ;;
         V <- forM (range 0 (i + 1)) V (fun j V =>
             g <- forM (range 0 (i + 1)) fzero (fun k g =>
                 a <- rd2 V k (i + 1) ;;
                 b <- rd2 V k j ;;
                 Ok (g + a * b)) ;;
             forM (range 0 (i + 1)) V (fun k V =>
                 vkj <- rd2 V k j ;;
                 dk <- rd d k ;;
                 wr2 V k j (vkj - g * dk))) ;;
         Ok (V, d)
       else Ok (V, d)) ;;
    V <- forM (range 0 (i + 1)) V (fun k V => wr2 V k (i + 1) fzero) ;;
    Ok (V, d).

  Definition tred2 (V : mtx) (d e : vec) : res (mtx * vec * vec) :=
    (* :140-141 *)
    d <- forM (range 0 n) d (fun j d => v <- rd2 V (n - 1) j ;; wr d j v) ;;
    (* :143-207 *)
    '(V, d, e) <- forM (range_down n 1) (V, d, e) tred2_outer ;;
    (* :209-228 *)
    '(V, d) <- forM (range 0 (n - 1)) (V, d) tred2_accum ;;
    (* :230-232 *)
    '(V, d) <- forM (range 0 n) (V, d) (fun j '(V, d) =>
        v <- rd2 V (n - 1) j ;;
        d <- wr d j v ;;
        V <- wr2 V (n - 1) j fzero ;;
        Ok (V, d)) ;;
    (* :234-235 *)
    V <- wr2 V (n - 1) (n - 1) one ;;
    e <- wr e 0 fzero ;;
    Ok (V, d, e).
End Tred2.

(* ---------------------------------------------------------------------- *)
(* tql2  (_math.py:237-335)                                                *)
(* ---------------------------------------------------------------------- *)
Definition eps52 : float := Eval vm_compute in fl 1 (-52).     (* math.pow(2.0, -52.0) *)

Section Tql2.
  Variable start : nat -> nat.   (* :255  m = l   (the repaired code: fun l => l ;
                                    the code before fix 9b609a5 : fun _ => 1) *)
  Variable fuel : nat.           (* bound on the iterations of each `while True` (:265) *)
  Variable n : nat.

  (* :257-260  while m < n: if abs(e[m]) <= eps*tst1: break ; m += 1 *)
  Fixpoint scan (k : nat) (e : vec) (tst1 : float) (m : nat) : res nat :=
    match k with
    | O => Ok m
    | S k' =>
        if Nat.ltb m n then
          em <- rd e m ;;
          if abs em <=? eps52 * tst1 then Ok m else scan k' e tst1 (m + 1)
        else Ok m
    end.

  (* :291-307  body of  for i in range(m-1, l-1, -1) *)
  Record rot := { r_V : mtx; r_d : vec; r_e : vec;
                  r_c : float; r_c2 : float; r_c3 : float; r_s : float; r_s2 : float; r_p : float }.

  Definition ql_rot (i : nat) (st : rot) : res rot :=
    let c3 := r_c2 st in
    let c2 := r_c st in
    let s2 := r_s st in
    let c := r_c st in let s := r_s st in let p := r_p st in
    ei <- rd (r_e st) i ;;
    let g := c * ei in
    let h := c * p in
    r <- hypot p ei ;;
    e <- wr (r_e st) (i + 1) (s * r) ;;
    ei <- rd e i ;;
    s <- fdiv ei r ;;
    c <- fdiv p r ;;
    di <- rd (r_d st) i ;;
    let p := c * di - s * g in
    d <- wr (r_d st) (i + 1) (h + s * (c * g + s * di)) ;;
    V <- forM (range 0 n) (r_V st) (fun k V =>
        h <- rd2 V k (i + 1) ;;
        vki <- rd2 V k i ;;
        V <- wr2 V k (i + 1) (s * vki + c * h) ;;
        vki <- rd2 V k i ;;
        wr2 V k i (c * vki - s * h)) ;;
    Ok {| r_V := V; r_d := d; r_e := e; r_c := c; r_c2 := c2; r_c3 := c3; r_s := s; r_s2 := s2; r_p := p |}.

  (* :265-314  while True: ... ; state (V, d, e, f) *)
  Fixpoint ql_iter (k : nat) (l m : nat) (tst1 : float) (st : mtx * vec * vec * float)
    : res (mtx * vec * vec * float) :=
    match k with
    | O => Err OutOfFuel
    | S k' =>
        let '(V, d, e, f) := st in
        g <- rd d l ;;
        dl1 <- rd d (l + 1) ;;
        el <- rd e l ;;
        p <- fdiv (dl1 - g) (two * el) ;;
        r <- hypot p one ;;
        let r := if p <? 0 then - r else r in
        q <- fdiv el (p + r) ;;
        d <- wr d l q ;;
        d <- wr d (l + 1) (el * (p + r)) ;;
        dl1 <- rd d (l + 1) ;;
        dl <- rd d l ;;
        let h := g - dl in
        d <- forM (range (l + 2) n) d (fun i d => di <- rd d i ;; wr d i (di - h)) ;;
        let f := f + h in
        p <- rd d m ;;
        el1 <- rd e (l + 1) ;;
        st <- forM (range_down m l)
                {| r_V := V; r_d := d; r_e := e; r_c := one; r_c2 := one; r_c3 := one;
                   r_s := fzero; r_s2 := fzero; r_p := p |} ql_rot ;;
        el <- rd (r_e st) l ;;
        p <- fdiv ((- (r_s st)) * r_s2 st * r_c3 st * el1 * el) dl1 ;;
        e <- wr (r_e st) l (r_s st * p) ;;
        d <- wr (r_d st) l (r_c st * p) ;;
        el <- rd e l ;;
        if abs el <=? eps52 * tst1 then Ok (r_V st, d, e, f)
        else ql_iter k' l m tst1 (r_V st, d, e, f)
    end.

  (* :253-317  body of  for l in range(n) ; state (V, d, e, f, tst1) *)
  Definition tql2_l (l : nat) (st : mtx * vec * vec * float * float) : res (mtx * vec * vec * float * float) :=
    let '(V, d, e, f, tst1) := st in
    dl <- rd d l ;;
    el <- rd e l ;;
    let tst1 := pymax tst1 (abs dl + abs el) in
    m <- scan (S n) e tst1 (start l) ;;
    '(V, d, e, f) <- (if Nat.ltb l m then ql_iter fuel l m tst1 (V, d, e, f) else Ok (V, d, e, f)) ;;
    dl <- rd d l ;;
    d <- wr d l (dl + f) ;;
    e <- wr e l fzero ;;
    Ok (V, d, e, f, tst1).

  Definition tql2 (d e : vec) (V : mtx) : res (mtx * vec * vec) :=
    (* :244-247 *)
    e <- forM (range 1 n) e (fun i e => ei <- rd e i ;; wr e (i - 1) ei) ;;
    e <- wr e (n - 1) fzero ;;
    (* :249-317 *)
    '(V, d, e, _, _) <- forM (range 0 n) (V, d, e, fzero, fzero) tql2_l ;;
    (* :319-335  the selection sort: the generic function the theorems of Props/C20.v are about *)
    let '(d, V) := eig_sort float nan PrimFloat.ltb n d V in
    Ok (V, d, e).
End Tql2.

(* CMAES.eigendecomposition (algorithms.py:1426-1433):
     B[i][j] = B[j][i] = C[i][j]  for j <= i ; offdiag = [0.0]*n ; tred2(n, B, diag_D, offdiag) ; tql2(n, diag_D, offdiag, B) *)
Definition symmetrize (n : nat) (C : mtx) : res mtx :=
  forM (range 0 n) (repeat (repeat fzero n) n) (fun i B =>
    forM (range 0 (i + 1)) B (fun j B =>
      c <- rd2 C i j ;;
      B <- wr2 B i j c ;;
      wr2 B j i c)).

Definition eig (sq : float -> float) (start : nat -> nat) (fuel : nat) (C : mtx) (d0 : vec) : res (mtx * vec * vec) :=
  let n := length C in
  B <- symmetrize n C ;;
  '(V, d, e) <- tred2 sq n B d0 (repeat fzero n) ;;
  tql2 start fuel n d e V.

Definition start_fixed (l : nat) : nat := l.         (* _math.py:255 after fix 9b609a5 *)
Definition start_old (_ : nat) : nat := 1%nat.        (* before *)
Definition sq_mul (x : float) : float := x * x.

(* libm's pow(x, 2.0) at the arguments where it differs from x*x (supplied per case) *)
Fixpoint sq_tab (tab : list (float * float)) (x : float) : float :=
  match tab with
  | [] => x * x
  | (a, v) :: t => if Leibniz.eqb a x then v else sq_tab t x
  end.

(* ---------------------------------------------------------------------- *)
(* lsolve at binary64: the generic function of Model/LSolve.v              *)
(* ---------------------------------------------------------------------- *)
Definition EPSILON_F : float := eps52.                (* sys.float_info.epsilon *)
Definition lsolveF (A : mtx) (b : vec) : lres float :=
  lsolve float fzero PrimFloat.add PrimFloat.sub PrimFloat.mul PrimFloat.div PrimFloat.abs (fun a b => b <? a) PrimFloat.leb (fun x => x =? 0) EPSILON_F A b.
Definition eliminateF (A : mtx) (b : vec) : eres float :=
  eliminate float fzero PrimFloat.sub PrimFloat.mul PrimFloat.div PrimFloat.abs (fun a b => b <? a) PrimFloat.leb (fun x => x =? 0) EPSILON_F A b.
