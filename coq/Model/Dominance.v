(* Model/Dominance.v — literal model of platypus/core.py ParetoDominance.compare
   (core.py:791-833) and AttributeDominance.compare (core.py:1007-1020).
   Executable definitions only. *)
From Coq Require Import ZArith Bool List.
Import ListNotations.
From PV Require Import Base.Num.
Open Scope Z_scope.

Section Dominance.
  Variable V : Type.
  Variable ltb : V -> V -> bool.
  Variable neg : V -> V.
  Variable zero : V.

  Definition veq (a b : V) : bool := negb (ltb a b) && negb (ltb b a).

  (* the part of a solution that dominance looks at *)
  Record dsol := { d_objs : list V; d_cv : V }.

  (* "if problem.nconstrs > 0 and cv1 != cv2: ..." ; None = fall through *)
  Definition cv_ladder (constrained : bool) (c1 c2 : V) : option Z :=
    if constrained && negb (veq c1 c2) then
      if veq c1 zero then Some (-1)
      else if veq c2 zero then Some 1
      else if ltb c1 c2 then Some (-1)
      else if ltb c2 c1 then Some 1
      else None
    else None.

  Definition adj (mx : bool) (v : V) : V := if mx then neg v else v.

  (* for i in range(nobjs): ... with the two flags and both early exits.
     dirs: true = MAXIMIZE.  nobjs = length dirs; objective lists have that length. *)
  Fixpoint scan (dirs : list bool) (o1 o2 : list V) (d1 d2 : bool) : Z :=
    match dirs, o1, o2 with
    | mx :: dirs', a :: o1', b :: o2' =>
        let a' := adj mx a in
        let b' := adj mx b in
        if ltb a' b' then (if d2 then 0 else scan dirs' o1' o2' true d2)
        else if ltb b' a' then (if d1 then 0 else scan dirs' o1' o2' d1 true)
        else scan dirs' o1' o2' d1 d2
    | _, _, _ => if Bool.eqb d1 d2 then 0 else if d1 then -1 else 1
    end.

  Definition pareto_compare (constrained : bool) (dirs : list bool) (s1 s2 : dsol) : Z :=
    match cv_ladder constrained (d_cv s1) (d_cv s2) with
    | Some r => r
    | None => scan dirs (d_objs s1) (d_objs s2) false false
    end.

  (* AttributeDominance.compare on the attribute values *)
  Definition attr_compare (larger_preferred : bool) (a b : V) : Z :=
    let a' := if larger_preferred then neg a else a in
    let b' := if larger_preferred then neg b else b in
    if ltb a' b' then -1 else if ltb b' a' then 1 else 0.
End Dominance.

Arguments d_objs {V} _.
Arguments d_cv {V} _.
Arguments Build_dsol {V} _ _.

(* executable instance *)
Definition xdsol := dsol xq.
Definition x_pareto_compare := pareto_compare xq xltb xneg xzero.
