(* Model/JsonModel.v — literal model of platypus/io.py
     _PlatypusJSONEncoder.default        (io.py:78-105)
     _PlatypusJSONDecoder.object_hook    (io.py:107-149)   REPAIRED decoder (fixes dc48d2e, f8390c3);
                                                           the pre-repair hook is kept beside it under [old = true]
     dump/load/save_json/load_json       (io.py:151-211)
     save_objectives / load_objectives   (io.py:33-76)
   and of the parts of platypus/core.py they run through
     FixedLengthArray.__setitem__        (core.py:54-68)   slice assignment  a[:] = value
     Problem.__init__                    (core.py:147-175) default directions / "==0" constraints
     _constraint_* , Constraint.__call__ (core.py:437-453, 525-526)
     Direction.to_direction              (core.py:99-116)
     Solution.__init__                   (core.py:571-578).

   What is modelled and what is abstracted
   ---------------------------------------
   * A JSON document is the TREE [jvalue N] (N = type of the float leaves).  The character level
     (json's scanner, string escapes, whitespace/indent, decimal printing of ints) is NOT modelled:
     a file is the tree whose float leaves are text tokens [T]; writing a float is the section variable
     [jprint : F -> T], reading one is [jparse : T -> F]  (for JSON: float.__repr__ resp. 'Infinity',
     '-Infinity' on output, float()/parse_constant on input; for the objectives file: str / float).
   * json calls object_hook when an object CLOSES, i.e. bottom-up and left to right; [dec] below
     is that post-order traversal with the decoder's mutable attribute self.problem threaded through.
   * Python values that the decoder can return are [pval] = JSON values + Solution objects.
   * Object identity of the Problem a solution points to is the tag [p_origin].
   * A constraint declaration [cdecl] is its op string ("<=0.5") - what Constraint.__init__ makes of the string
     (operator, threshold: regex + float(), property C11) is the section variable [cparse] - or a callable
     (Constraint(function): any non-zero return value is a violation), identified by a key whose behaviour on
     floats is the section variable [cfun].  A callable has no text: the encoder raises TypeError for it.
   * Float values: [fv : F -> option xq] gives the exact value of a float token, [None] = NaN.
     Violations are computed in exact arithmetic on Q + {-inf,+inf} (+ NaN as None); rounding of
     abs(x-y)+delta and of the sum is not modelled (the correspondence compares zero-ness always and
     the magnitude on the cases where the float computation is exact).
   * Python exceptions are [Err]; inputs outside the modelled fragment (a Solution nested inside a
     field of another, non-list "variables", broadcast of a whole list into direction/constraint
     slots, int() of a non-int ...) are [Err EUnmodelled] - never a default value.
   Executable definitions only. *)
From Coq Require Import ZArith QArith Qabs Bool List String Ascii.
Import ListNotations.
From PV Require Import Base.Num.
Open Scope Z_scope.

(* ------------------------------------------------------------------ *)
(* results                                                            *)
(* ------------------------------------------------------------------ *)
Inductive jerr := EType | EKey | EValue | EAttr | EPlatypus | EUnmodelled.
Inductive res (A : Type) := Ok (a : A) | Err (e : jerr).
Arguments Ok {A} _.
Arguments Err {A} _.

Definition rbind {A B} (r : res A) (f : A -> res B) : res B :=
  match r with Ok a => f a | Err e => Err e end.
Notation "x <- r ;; k" := (rbind r (fun x => k)) (at level 61, r at next level, right associativity).

Fixpoint mapM {A B} (f : A -> res B) (l : list A) : res (list B) :=
  match l with
  | [] => Ok []
  | x :: r => y <- f x ;; ys <- mapM f r ;; Ok (y :: ys)
  end.

(* ------------------------------------------------------------------ *)
(* JSON trees                                                         *)
(* ------------------------------------------------------------------ *)
(* JInt: Python ints are written in decimal and read back by int() - exact, arbitrary precision; the
   encoder never writes a float without '.', 'e' or 'Infinity', so int and float tokens are disjoint. *)
Inductive jvalue (N : Type) : Type :=
| JNull
| JBool (b : bool)
| JInt (z : Z)
| JNum (n : N)
| JStr (s : string)
| JArr (l : list (jvalue N))
| JObj (kv : list (string * jvalue N)).
Arguments JNull {N}.
Arguments JBool {N} _.
Arguments JInt {N} _.
Arguments JNum {N} _.
Arguments JStr {N} _.
Arguments JArr {N} _.
Arguments JObj {N} _.

Fixpoint jmap {N M : Type} (f : N -> M) (j : jvalue N) : jvalue M :=
  match j with
  | JNull => JNull
  | JBool b => JBool b
  | JInt z => JInt z
  | JNum n => JNum (f n)
  | JStr s => JStr s
  | JArr l => JArr (map (jmap f) l)
  | JObj kv => JObj (map (fun p => let '(k, v) := p in (k, jmap f v)) kv)
  end.

(* every float leaf satisfies ok *)
Fixpoint jall {N : Type} (ok : N -> bool) (j : jvalue N) : bool :=
  match j with
  | JNum n => ok n
  | JArr l => forallb (jall ok) l
  | JObj kv => forallb (fun p => let '(_, v) := p in jall ok v) kv
  | _ => true
  end.

(* no JSON object inside: the JSON-native variable encodings (numbers, booleans, strings, lists of them) *)
Fixpoint objfree {N : Type} (j : jvalue N) : bool :=
  match j with
  | JArr l => forallb objfree l
  | JObj _ => false
  | _ => true
  end.

(* ------------------------------------------------------------------ *)
(* small string helpers                                               *)
(* ------------------------------------------------------------------ *)
(* str.upper() restricted to ASCII letters (Direction.to_direction, core.py:110) *)
Definition ascii_upper (c : ascii) : ascii :=
  let n := nat_of_ascii c in
  if (Nat.leb 97 n && Nat.leb n 122)%bool then ascii_of_nat (n - 32) else c.
Fixpoint str_upper (s : string) : string :=
  match s with
  | EmptyString => EmptyString
  | String c r => String (ascii_upper c) (str_upper r)
  end.

(* ------------------------------------------------------------------ *)
(* float values (None = NaN) and the constraint functions             *)
(* ------------------------------------------------------------------ *)
Definition js_fval := option xq.

Definition js_xabs (a : xq) : xq :=
  match a with NInf => PInf | PInf => PInf | Fin q => Fin (Qabs q) end.

(* x - y ; inf - inf = NaN *)
Definition js_fsub (x : js_fval) (y : xq) : js_fval :=
  match x with Some a => xadd a (xneg y) | None => None end.
Definition js_fabs (x : js_fval) : js_fval :=
  match x with Some a => Some (js_xabs a) | None => None end.
Definition js_fadd (x y : js_fval) : js_fval :=
  match x, y with Some a, Some b => xadd a b | _, _ => None end.
(* comparisons with NaN are False *)
Definition js_fleb (x : js_fval) (y : xq) : bool := match x with Some a => xleb a y | None => false end.
Definition js_fltb (x : js_fval) (y : xq) : bool := match x with Some a => xltb a y | None => false end.
Definition js_fgeb (x : js_fval) (y : xq) : bool := match x with Some a => xleb y a | None => false end.
Definition js_fgtb (x : js_fval) (y : xq) : bool := match x with Some a => xltb y a | None => false end.
Definition js_feqb (x : js_fval) (y : xq) : bool := match x with Some a => xeqb a y | None => false end.
(* v == 0.0 *)
Definition js_fzero (x : js_fval) : bool := js_feqb x xzero.

Inductive js_cop := JsEq | JsLeq | JsGeq | JsNeq | JsLt | JsGt.

(* the double 0.0001 = 0x1.a36e2eb1c432dp-14  (default argument delta, core.py:449,452) *)
Definition js_delta : xq := F 7378697629483821 (-66).

(* core.py:437-453 with y bound by functools.partial *)
Definition js_cfun (op : js_cop) (y : xq) (x : js_fval) : js_fval :=
  match op with
  | JsEq => js_fabs (js_fsub x y)
  | JsLeq => if js_fleb x y then Some xzero else js_fabs (js_fsub x y)
  | JsGeq => if js_fgeb x y then Some xzero else js_fabs (js_fsub x y)
  | JsNeq => if negb (js_feqb x y) then Some xzero else Some (FZ 1)
  | JsLt => if js_fltb x y then Some xzero else js_fadd (js_fabs (js_fsub x y)) (Some js_delta)
  | JsGt => if js_fgtb x y then Some xzero else js_fadd (js_fabs (js_fsub x y)) (Some js_delta)
  end.

(* the relation the operator stands for (used by the feasibility lemma and nowhere in the decoder) *)
Definition js_holds (op : js_cop) (y : xq) (x : js_fval) : bool :=
  match op with
  | JsEq => js_feqb x y
  | JsLeq => js_fleb x y
  | JsGeq => js_fgeb x y
  | JsNeq => negb (js_feqb x y)
  | JsLt => js_fltb x y
  | JsGt => js_fgtb x y
  end.

(* ------------------------------------------------------------------ *)
(* the model proper                                                   *)
(* ------------------------------------------------------------------ *)
Section Json.
  Variable F : Type.                                   (* float objects *)
  Variable fv : F -> option xq.                        (* exact value; None = NaN *)
  Variable cparse : string -> option (js_cop * xq).       (* Constraint(op string): operator, float(threshold); None = PlatypusError *)
  Variable cfun : Z -> js_fval -> js_fval.                (* Constraint(callable k): the callable's value on a float (None = NaN) *)
  Notation jv := (jvalue F).

  Inductive direction := Minimize | Maximize.
  (* Constraint.op: the declaration text, or the callable itself (core.py:498-523) *)
  Inductive cdecl := DOp (s : string) | DFun (k : Z).
  (* which Problem object: the one the caller holds / the decoder's placeholder (io.py:134) /
     the one the repaired hook rebuilds from the saved definition (io.py:119) *)
  Inductive porigin := Supplied | Placeholder | Rebuilt.

  Record problem := mkProblem {
    p_origin : porigin;
    p_name : string;                 (* type(problem).__name__ *)
    p_nvars : nat; p_nobjs : nat; p_nconstrs : nat;
    p_function : option string;      (* getattr(problem.function, "__name__", None) *)
    p_types : list (option string);  (* str(type) ; None for an unset slot *)
    p_dirs : list direction;
    p_cons : list cdecl              (* the Constraint objects, by their .op *)
  }.

  (* Problem(nvars, nobjs, nconstrs)   core.py:168-175 *)
  Definition new_problem (o : porigin) (nv no nc : nat) : problem :=
    mkProblem o "Problem" nv no nc None (repeat None nv) (repeat Minimize no) (repeat (DOp "==0") nc).

  Record psol := mkSol {
    ps_prob : problem;
    ps_vars : list jv; ps_objs : list jv; ps_cons : list jv;
    ps_cv : js_fval;                    (* constraint_violation *)
    ps_feas : bool                   (* feasible *)
  }.

  Record algo := mkAlgo {
    a_name : string; a_nfe : Z;
    a_problem : problem;
    a_result : list psol             (* list(algorithm.result): a list or an Archive *)
  }.

  (* what save_json is handed *)
  Inductive saved :=
  | SvList (l : list psol)           (* a Python list: json iterates it itself *)
  | SvArchive (l : list psol)        (* an Archive: default() returns list(obj), io.py:81-82 *)
  | SvAlgorithm (a : algo).

  (* ---------------- encoder (io.py:80-105) ---------------- *)
  Definition dir_name (d : direction) : string :=
    match d with Minimize => "MINIMIZE" | Maximize => "MAXIMIZE" end.

  Definition opt_str (o : option string) : jv :=
    match o with Some s => JStr s | None => JNull end.

  (* Solution -> {"variables","objectives","constraints"}; each FixedLengthArray -> list (io.py:101-104, 81-82) *)
  Definition enc_sol (s : psol) : jv :=
    JObj [ ("variables"%string, JArr (ps_vars s));
           ("objectives"%string, JArr (ps_objs s));
           ("constraints"%string, JArr (ps_cons s)) ].

  (* Constraint -> obj.op (io.py:87-88); a callable op is handed back to json, which raises TypeError *)
  Definition enc_decl (c : cdecl) : res jv :=
    match c with DOp s => Ok (JStr s) | DFun _ => Err EType end.

  (* io.py:92-99 *)
  Definition enc_problem (p : problem) : res jv :=
    cs <- mapM enc_decl (p_cons p) ;;
    Ok (JObj [ ("name"%string, JStr (p_name p));
           ("nvars"%string, JInt (Z.of_nat (p_nvars p)));
           ("nobjs"%string, JInt (Z.of_nat (p_nobjs p)));
           ("nconstrs"%string, JInt (Z.of_nat (p_nconstrs p)));
           ("function"%string, opt_str (p_function p));
           ("types"%string, JArr (map opt_str (p_types p)));
           ("directions"%string, JArr (map (fun d => JStr (dir_name d)) (p_dirs p)));
           ("constraints"%string, JArr cs) ]).

  (* io.py:89-100 *)
  Definition enc_algo (a : algo) : res jv :=
    pj <- enc_problem (a_problem a) ;;
    Ok (JObj [ ("algorithm"%string, JObj [ ("name"%string, JStr (a_name a)); ("nfe"%string, JInt (a_nfe a)) ]);
               ("problem"%string, pj);
               ("result"%string, JArr (map enc_sol (a_result a))) ]).

  Definition encode (x : saved) : res jv :=
    match x with
    | SvList l => Ok (JArr (map enc_sol l))
    | SvArchive l => Ok (JArr (map enc_sol l))
    | SvAlgorithm a => enc_algo a
    end.

  (* ---------------- violation (io.py:127-128, 143-144; core.py:194-195) ---------------- *)
  (* the number a constraint value stands for; bool is an int in Python; anything else: TypeError in x - y *)
  Definition js_numval (j : jv) : res js_fval :=
    match j with
    | JInt z => Ok (Some (FZ z))
    | JNum f => Ok (fv f)
    | JBool b => Ok (Some (FZ (if b then 1 else 0)))
    | _ => Err EType
    end.

  (* abs(f(x)) for one (constraint, value) pair *)
  Definition js_term (c : cdecl) (x : jv) : res js_fval :=
    match c with
    | DOp s => match cparse s with
               | None => Err EPlatypus
               | Some (op, y) => v <- js_numval x ;; Ok (js_fabs (js_cfun op y v))
               end
    | DFun k => v <- js_numval x ;; Ok (js_fabs (cfun k v))
    end.

  (* sum([abs(f(x)) for (f, x) in zip(problem.constraints, solution.constraints)]) ; sum starts from 0
     and adds left to right; zip stops at the shorter list *)
  Fixpoint js_terms (cs : list cdecl) (xs : list jv) : res (list js_fval) :=
    match cs, xs with
    | c :: cs', x :: xs' => t <- js_term c x ;; ts <- js_terms cs' xs' ;; Ok (t :: ts)
    | _, _ => Ok []
    end.
  Definition js_sum (ts : list js_fval) : js_fval := fold_left js_fadd ts (Some xzero).
  Definition js_viol (cs : list cdecl) (xs : list jv) : res js_fval :=
    ts <- js_terms cs xs ;; Ok (js_sum ts).

  (* ---------------- FixedLengthArray  a[:] = value   (core.py:54-66, convert = None) ----------------
     value is a list here; same length: element-wise, otherwise the whole list is stored in every slot *)
  Definition fla_assign (size : nat) (l : list jv) : list jv :=
    if Nat.eqb (List.length l) size then l else repeat (JArr l) size.

  (* ---------------- decoded Python values ---------------- *)
  Inductive pval :=
  | PNull | PBool (b : bool) | PInt (z : Z) | PNum (f : F) | PStr (s : string)
  | PList (l : list pval)
  | PDict (kv : list (string * pval))
  | PSol (s : psol).

  Fixpoint embed (j : jv) : pval :=
    match j with
    | JNull => PNull | JBool b => PBool b | JInt z => PInt z | JNum f => PNum f | JStr s => PStr s
    | JArr l => PList (map embed l)
    | JObj kv => PDict (map (fun p => let '(k, v) := p in (k, embed v)) kv)
    end.

  (* back to a plain JSON value; None if a Solution object sits inside *)
  Fixpoint plain_of (v : pval) : option jv :=
    match v with
    | PNull => Some JNull | PBool b => Some (JBool b) | PInt z => Some (JInt z)
    | PNum f => Some (JNum f) | PStr s => Some (JStr s)
    | PList l =>
        match (fix go (l : list pval) : option (list jv) :=
                 match l with
                 | [] => Some []
                 | x :: r => match plain_of x, go r with Some a, Some b => Some (a :: b) | _, _ => None end
                 end) l with
        | Some l' => Some (JArr l')
        | None => None
        end
    | PDict kv =>
        match (fix go (l : list (string * pval)) : option (list (string * jv)) :=
                 match l with
                 | [] => Some []
                 | (k, x) :: r => match plain_of x, go r with Some a, Some b => Some ((k, a) :: b) | _, _ => None end
                 end) kv with
        | Some l' => Some (JObj l')
        | None => None
        end
    | PSol _ => None
    end.

  (* a field that must be a plain list (d["variables"] etc.) *)
  Definition plain_list (v : pval) : res (list jv) :=
    match plain_of v with
    | Some (JArr l) => Ok l
    | _ => Err EUnmodelled
    end.

  (* Python dict built from the pairs of a JSON object: "k in d" and d[k]; a repeated key keeps the LAST value *)
  Fixpoint pd_get (k : string) (d : list (string * pval)) : option pval :=
    match d with
    | [] => None
    | (k', v) :: r => match pd_get k r with
                      | Some w => Some w
                      | None => if String.eqb k k' then Some v else None
                      end
    end.
  Definition pd_has (k : string) (d : list (string * pval)) : bool :=
    match pd_get k d with Some _ => true | None => false end.
  Definition pd_item (k : string) (d : list (string * pval)) : res pval :=
    match pd_get k d with Some v => Ok v | None => Err EKey end.
  (* v[k] for a value that must be a dict *)
  Definition p_item (k : string) (v : pval) : res pval :=
    match v with PDict d => pd_item k d | _ => Err EType end.

  (* int(x) for the shape fields; only non-negative ints are modelled *)
  Definition p_size (v : pval) : res nat :=
    match v with
    | PInt z => if 0 <=? z then Ok (Z.to_nat z) else Err EUnmodelled
    | _ => Err EUnmodelled
    end.

  (* Direction.to_direction on one element (core.py:108-116) *)
  Definition to_direction (v : pval) : res direction :=
    match v with
    | PStr s => let u := str_upper s in
                if String.eqb u "MINIMIZE" then Ok Minimize
                else if String.eqb u "MAXIMIZE" then Ok Maximize
                else Err EPlatypus
    | PInt z => if z =? (-1) then Ok Minimize else if z =? 1 then Ok Maximize else Err EValue
    | _ => Err EUnmodelled
    end.

  (* problem.directions[:] = value   with convert = to_direction: the list is converted element-wise, then
     assigned slot by slot when the length fits (otherwise the converted LIST would land in every slot: unmodelled) *)
  Definition assign_dirs (size : nat) (v : pval) : res (list direction) :=
    match v with
    | PList l => ds <- mapM to_direction l ;;
                 if Nat.eqb (List.length ds) size then Ok ds else Err EUnmodelled
    | _ => Err EUnmodelled
    end.

  (* Constraint.to_constraint on one element (core.py:538-543, 498-523) *)
  Definition to_constraint (v : pval) : res cdecl :=
    match v with
    | PStr s => match cparse s with Some _ => Ok (DOp s) | None => Err EPlatypus end
    | PList _ => Err EUnmodelled
    | PSol _ => Err EUnmodelled
    | _ => Err EType                      (* re.match(pattern, non-string) *)
    end.
  Definition assign_cons (size : nat) (v : pval) : res (list cdecl) :=
    match v with
    | PList l => cs <- mapM to_constraint l ;;
                 if Nat.eqb (List.length cs) size then Ok cs else Err EUnmodelled
    | _ => Err EUnmodelled
    end.

  (* ---------------- object_hook (io.py:114-149) ---------------- *)
  (* io.py:125-128: re-attach one element of d["result"] to the rebuilt problem *)
  Definition reattach (p : problem) (v : pval) : res pval :=
    match v with
    | PSol s => cv <- js_viol (p_cons p) (ps_cons s) ;;
                Ok (PSol (mkSol p (ps_vars s) (ps_objs s) (ps_cons s) cv (js_fzero cv)))
    | _ => Err EAttr
    end.

  (* io.py:132-147 *)
  Definition hook_solution (d : list (string * pval)) (st : option problem) : res (option problem * pval) :=
    vs <- (v <- pd_item "variables" d ;; plain_list v) ;;
    os <- (v <- pd_item "objectives" d ;; plain_list v) ;;
    cs <- (v <- pd_item "constraints" d ;; plain_list v) ;;
    let p := match st with
             | Some p => p
             | None => new_problem Placeholder (List.length vs) (List.length os) (List.length cs)
             end in
    let cons := fla_assign (p_nconstrs p) cs in
    cv <- js_viol (p_cons p) cons ;;
    Ok (Some p, PSol (mkSol p (fla_assign (p_nvars p) vs) (fla_assign (p_nobjs p) os) cons cv (js_fzero cv))).

  (* io.py:115-130.  old = true: the hook before fix dc48d2e ("if self.problem is None:", no re-attachment) *)
  Definition hook_algorithm (old placeholder : bool) (d : list (string * pval)) (st : option problem)
    : res (option problem * pval) :=
    result <- pd_item "result" d ;;
    let rebuild := if old then match st with None => true | Some _ => false end else placeholder in
    if rebuild then
      pd <- pd_item "problem" d ;;
      nv <- (v <- p_item "nvars" pd ;; p_size v) ;;
      no <- (v <- p_item "nobjs" pd ;; p_size v) ;;
      nc <- (v <- p_item "nconstrs" pd ;; p_size v) ;;
      let p0 := new_problem Rebuilt nv no nc in
      ds <- (v <- p_item "directions" pd ;; assign_dirs no v) ;;
      cs <- (v <- p_item "constraints" pd ;; assign_cons nc v) ;;
      let p := mkProblem Rebuilt (p_name p0) nv no nc (p_function p0) (p_types p0) ds cs in
      if old then Ok (Some p, result)
      else
        match result with
        | PList l => l' <- mapM (reattach p) l ;; Ok (Some p, PList l')
        | _ => Err EType                 (* iterating / setting attributes on something that is no list of solutions *)
        end
    else Ok (st, result).

  Definition hook (old placeholder : bool) (d : list (string * pval)) (st : option problem)
    : res (option problem * pval) :=
    if pd_has "problem" d && pd_has "result" d then hook_algorithm old placeholder d st
    else if pd_has "variables" d && pd_has "objectives" d && pd_has "constraints" d then hook_solution d st
    else Ok (st, PDict d).

  (* ---------------- json.load with object_hook: post-order, left to right ---------------- *)
  Fixpoint dec (old placeholder : bool) (j : jv) (st : option problem) {struct j} : res (option problem * pval) :=
    match j with
    | JNull => Ok (st, PNull)
    | JBool b => Ok (st, PBool b)
    | JInt z => Ok (st, PInt z)
    | JNum f => Ok (st, PNum f)
    | JStr s => Ok (st, PStr s)
    | JArr l =>
        r <- (fix go (l : list jv) (st : option problem) : res (option problem * list pval) :=
                match l with
                | [] => Ok (st, [])
                | x :: r => a <- dec old placeholder x st ;;
                            b <- go r (fst a) ;;
                            Ok (fst b, snd a :: snd b)
                end) l st ;;
        Ok (fst r, PList (snd r))
    | JObj kv =>
        r <- (fix go (l : list (string * jv)) (st : option problem) : res (option problem * list (string * pval)) :=
                match l with
                | [] => Ok (st, [])
                | (k, x) :: r => a <- dec old placeholder x st ;;
                                 b <- go r (fst a) ;;
                                 Ok (fst b, (k, snd a) :: snd b)
                end) kv st ;;
        hook old placeholder (snd r) (fst r)
    end.

  (* the same traversals as top-level functions (used to state lemmas) *)
  Fixpoint dec_list (old placeholder : bool) (l : list jv) (st : option problem) : res (option problem * list pval) :=
    match l with
    | [] => Ok (st, [])
    | x :: r => a <- dec old placeholder x st ;;
                b <- dec_list old placeholder r (fst a) ;;
                Ok (fst b, snd a :: snd b)
    end.
  Fixpoint dec_fields (old placeholder : bool) (l : list (string * jv)) (st : option problem)
    : res (option problem * list (string * pval)) :=
    match l with
    | [] => Ok (st, [])
    | (k, x) :: r => a <- dec old placeholder x st ;;
                     b <- dec_fields old placeholder r (fst a) ;;
                     Ok (fst b, (k, snd a) :: snd b)
    end.

  (* _PlatypusJSONDecoder(problem).decode: self.problem = problem; self.placeholder = problem is None (io.py:109-112).
     Returns the decoder's final self.problem together with the value. *)
  Definition decode (old : bool) (supplied : option problem) (j : jv) : res (option problem * pval) :=
    dec old (match supplied with None => true | Some _ => false end) j supplied.

  (* ---------------- the text layer ---------------- *)
  Section Text.
    Variable T : Type.                    (* float tokens in the file *)
    Variable jprint : F -> T.             (* json: float.__repr__ / 'Infinity' / '-Infinity' *)
    Variable jparse : T -> F.             (* json: float() / parse_constant *)

    (* json.dump(obj, fp, cls=_PlatypusJSONEncoder) / json.load(fp, cls=_PlatypusJSONDecoder, problem=problem) *)
    Definition save_json (x : saved) : res (jvalue T) := j <- encode x ;; Ok (jmap jprint j).
    Definition load_json_gen (old : bool) (supplied : option problem) (t : jvalue T) : res (option problem * pval) :=
      decode old supplied (jmap jparse t).
    Definition load_json := load_json_gen false.
    Definition load_json_old := load_json_gen true.
    (* write, then read what was written (an exception while writing is the result) *)
    Definition save_then_load (old : bool) (supplied : option problem) (x : saved) : res (option problem * pval) :=
      t <- save_json x ;; load_json_gen old supplied t.

    (* ---- objectives file (io.py:33-76).  A file is a list of lines, a line the list of its
       whitespace-separated tokens; " ".join / "\n" / strip / split are not modelled.  A line without
       tokens is a blank line. ---- *)
    Variable oprint : F -> T.             (* str(float) *)
    Variable oparse : T -> F.             (* float(token) *)

    (* io.py:73-76 ; str() of a non-float objective is outside the model *)
    Definition obj_token (j : jv) : res T :=
      match j with JNum f => Ok (oprint f) | _ => Err EUnmodelled end.
    Definition save_objectives (sols : list psol) : res (list (list T)) :=
      mapM (fun s => mapM obj_token (ps_objs s)) sols.

    (* a Solution as load_objectives leaves it: only problem and objectives are set *)
    Record osol := mkOSol { os_prob : problem; os_objs : list jv }.

    (* io.py:43-61 *)
    Fixpoint load_objectives_loop (lines : list (list T)) (st : option problem) : list osol :=
      match lines with
      | [] => []
      | [] :: r => load_objectives_loop r st                       (* if not line: continue *)
      | line :: r =>
          let values := map (fun t => JNum (oparse t)) line in
          let p := match st with
                   | Some p => p
                   | None => new_problem Placeholder 0 (List.length values) 0
                   end in
          mkOSol p (fla_assign (p_nobjs p) values) :: load_objectives_loop r (Some p)
      end.
    Definition load_objectives (supplied : option problem) (lines : list (list T)) : list osol :=
      load_objectives_loop lines supplied.
  End Text.
End Json.


(* ------------------------------------------------------------------ *)
(* executable instance used by the correspondence: a float token is   *)
(* its IEEE-754 binary64 bit pattern (so +0.0 and -0.0 are distinct   *)
(* tokens with equal values); printing/parsing is the identity        *)
(* ------------------------------------------------------------------ *)
Definition f64_val (b : Z) : option xq :=
  let neg := Z.testbit b 63 in
  let e := Z.land (Z.shiftr b 52) 2047 in
  let m := Z.land b (Z.ones 52) in
  let sg (z : Z) := if neg then (- z) else z in
  if e =? 2047 then (if m =? 0 then Some (if neg then NInf else PInf) else None)
  else if e =? 0 then Some (F (sg m) (-1074))
  else Some (F (sg (m + Z.shiftl 1 52)) (e - 1075)).

(* Constraint(op string) as a table shipped by the driver from the real Constraint objects *)
Fixpoint ctab_lookup (tab : list (string * (js_cop * xq))) (s : string) : option (js_cop * xq) :=
  match tab with
  | [] => None
  | (k, v) :: r => if String.eqb s k then Some v else ctab_lookup r s
  end.

(* Constraint(callable) for the correspondence: the driver's test callables, by shape and parameter t
     0: lambda x: x - t      1: lambda x: t - x      2: lambda x: -abs(x)     3: lambda x: x
     4: lambda x: min(0.0, x)                        5: lambda x: max(0.0, x - t)
   (exact arithmetic; min/max as Python evaluates them: the first argument unless the second is smaller/larger) *)
Definition js_shape (sh : Z) (t : xq) (x : js_fval) : js_fval :=
  if sh =? 0 then js_fsub x t
  else if sh =? 1 then match x with Some a => xadd t (xneg a) | None => None end
  else if sh =? 2 then match js_fabs x with Some a => Some (xneg a) | None => None end
  else if sh =? 3 then x
  else if sh =? 4 then (if js_fltb x xzero then x else Some xzero)
  else let d := js_fsub x t in if js_fgtb d xzero then d else Some xzero.
(* key -> (shape, t); an unknown key answers NaN *)
Fixpoint ftab_lookup (tab : list (Z * (Z * xq))) (k : Z) : js_fval -> js_fval :=
  match tab with
  | [] => fun _ => None
  | (k', (sh, t)) :: r => if k =? k' then js_shape sh t else ftab_lookup r k
  end.
