(* Model/Gray.v — literal model of platypus/types.py
     int2bin   (types.py:224-243)     bin2int  (types.py:245-259)
     bin2gray  (types.py:261-269)     gray2bin (types.py:271-282)
     Integer.__init__ / encode / decode (types.py:129-146)
   Bit strings are [list bool], most significant bit first, exactly as the
   Python lists.  Integers are Z (Python ints are unbounded): no 2^32 bound
   anywhere in the model.  Python exceptions / non-termination are [None].
   Executable definitions only. *)
From Coq Require Import ZArith Bool List.
Import ListNotations.
Open Scope Z_scope.

(* Python: bool used as an int (True == 1) in  i * 2 + bit *)
Definition b2z (b : bool) : Z := if b then 1 else 0.

(* ---- int2bin (types.py:224-243) ----
     bits = []
     while n:
         n, remainder = divmod(n, 2)
         bits.insert(0, bool(remainder))
   divmod on ints is floor division: Z.div / Z.modulo (divisor 2 > 0).
   The while loop runs on explicit fuel; out of fuel = None.  For n < 0 the
   Python loop never ends (divmod(-1,2) = (-1,1)); the model answers None
   (int2bin_negative_diverges shows that is not an artefact of the fuel). *)
Fixpoint int2bin_loop (fuel : nat) (n : Z) (bits : list bool) : option (list bool) :=
  if n =? 0 then Some bits
  else match fuel with
       | O => None
       | S f => int2bin_loop f (n / 2) (negb (n mod 2 =? 0) :: bits)
       end.

(* enough iterations for every n >= 0: one per binary digit *)
Definition int2bin_fuel (n : Z) : nat := S (Z.to_nat (Z.log2 n)).

(*   while len(bits) < nbits: bits.insert(0, False)      (never truncates) *)
Definition pad_left (bits : list bool) (nbits : nat) : list bool :=
  repeat false (nbits - length bits) ++ bits.

Definition int2bin (n : Z) (nbits : nat) : option (list bool) :=
  match int2bin_loop (int2bin_fuel n) n [] with
  | Some bits => Some (pad_left bits nbits)
  | None => None
  end.

(* ---- bin2int (types.py:245-259):  i = 0; for bit in bits: i = i * 2 + bit ---- *)
Definition bin2int_step (i : Z) (bit : bool) : Z := i * 2 + b2z bit.
Definition bin2int (bits : list bool) : Z := fold_left bin2int_step bits 0.

(* ---- bin2gray (types.py:261-269)
     bits[:1] + [i ^ ishift for i, ishift in zip(bits[:-1], bits[1:])] ---- *)
Definition bin2gray (bits : list bool) : list bool :=
  firstn 1 bits ++ map (fun p => xorb (fst p) (snd p)) (combine (removelast bits) (tl bits)).

(* ---- gray2bin (types.py:271-282)
     b = [bits[0]]                    (IndexError on the empty list -> None)
     for nextb in bits[1:]: b.append(b[-1] ^ nextb) ---- *)
Definition gray2bin_step (b : list bool) (nextb : bool) : list bool :=
  b ++ [xorb (last b false) nextb].
Definition gray2bin (bits : list bool) : option (list bool) :=
  match bits with
  | [] => None
  | b0 :: rest => Some (fold_left gray2bin_step rest [b0])
  end.

(* ---- Integer (types.py:129-146) ----
   __init__: nbits = int(math.log(max-min, 2)) + 1.  The model REPLACES the
   float expression by Z.log2 w + 1; the two are tied by the correspondence
   check only (exhaustive for small widths, all 2^k, 2^k+-1 with k <= 32).
   math.log raises ValueError for max-min <= 0  -> None. *)
Definition nbits_of (w : Z) : option nat :=
  if w <=? 0 then None else Some (Z.to_nat (Z.log2 w + 1)).

Record integer := mkInteger { i_nbits : nat; i_min : Z; i_max : Z }.

Definition integer_init (min_value max_value : Z) : option integer :=
  match nbits_of (max_value - min_value) with
  | None => None
  | Some k => Some (mkInteger k min_value max_value)
  end.

(* encode: bin2gray(int2bin(value - self.min_value, self.nbits)) *)
Definition encode (t : integer) (value : Z) : option (list bool) :=
  match int2bin (value - i_min t) (i_nbits t) with
  | Some b => Some (bin2gray b)
  | None => None
  end.

(* decode:
     value = bin2int(gray2bin(value))
     if value > self.max_value-self.min_value:
         value -= self.max_value-self.min_value
     return self.min_value + value *)
Definition decode (t : integer) (bits : list bool) : option Z :=
  match gray2bin bits with
  | None => None
  | Some b =>
      let value := bin2int b in
      let value := if value >? i_max t - i_min t then value - (i_max t - i_min t) else value in
      Some (i_min t + value)
  end.

(* number of positions in which two bit strings differ (specification side) *)
Fixpoint hamming (a b : list bool) : nat :=
  match a, b with
  | x :: a', y :: b' => ((if Bool.eqb x y then 0 else 1) + hamming a' b')%nat
  | _, _ => 0%nat
  end.
