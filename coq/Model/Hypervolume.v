(* Model/Hypervolume.v — literal model over exact Q of platypus/indicators.py class
   Hypervolume (indicators.py:118-240) and its specification.  Executable definitions
   only (no proofs).  Arithmetic is exact rational arithmetic; float rounding is NOT
   modelled.

   Part 1 (model, literal):
     swap / dominates / filter_nondominated / surface_unchanged_to / reduce_set /
     calc_internal on an explicit array (a Coq list indexed by position, mutated by
     swaps) + the count of active entries, loops on fuel (out of fuel = [Err EFuel]);
     invert, and the `calculate` pipeline on solution OBJECTS: solutions carry [s_sid];
     `normalized_objectives` lives in the [store] of Model/Indicators.v keyed by sid, so
     "the same object listed twice" is written once per listing by normalize and inverted
     once per object (repaired code) or once per listing (pre-repair code, flag).
     The model is parametrised by [hv_flags] so that the two repaired defects
     (fixes/9c6b890.diff, fixes/32527cc.diff) can be switched back on.
   Part 2 (specification):
     hv_spec d P = d-dimensional Lebesgue measure of the union of the origin-anchored
     boxes [0,p_0]x...x[0,p_(d-1)], p in P ("goodness" coordinates: larger = better,
     reference point at the origin), defined by recursion on the dimension: integrate,
     over the last coordinate z, the (d-1)-measure of the cross-section { p in P :
     p_(d-1) >= z }, which is a step function of z with breakpoints at the distinct
     values of the last coordinate, taken in increasing order.  No arrays, no swaps, no
     non-dominated filtering.
     spec_points = which points enter, straight from the English statement.

   Reusable exports: point, coord, hv_flags, repaired, calc_internal, hv_calculate,
   hv_indicator, hv_spec, peel, spec_points, goodness, clip01. *)
From Coq Require Import ZArith QArith Qabs Bool List.
Import ListNotations.
From PV Require Import Base.Num Model.Indicators.
Open Scope Q_scope.

Definition point := list Q.
(* p[k]; every vector handled here has nobjs entries (normalize builds them with range(nobjs)) *)
Definition coord (p : point) (k : nat) : Q := nth k p 0.

(* ================= Part 1: the code ================= *)

(* ----- the array ----- *)
Definition aget (a : list point) (i : nat) : point := nth i a [].
Fixpoint aset (a : list point) (i : nat) (v : point) : list point :=
  match a, i with
  | [], _ => []
  | _ :: r, O => v :: r
  | x :: r, S i' => x :: aset r i' v
  end.
(* swap (indicators.py:161-162): solutions[i], solutions[j] = solutions[j], solutions[i] *)
Definition swap (a : list point) (i j : nat) : list point := aset (aset a i (aget a j)) j (aget a i).

(* dominates (indicators.py:148-159): strictly greater in EVERY one of the first nobjs
   coordinates; the loop breaks at the first coordinate that is not greater *)
Fixpoint dom_scan (p q : point) (ks : list nat) (better : bool) : bool :=
  match ks with
  | [] => better                                   (* return not worse and better, worse = False *)
  | k :: r => if Qltb (coord q k) (coord p k)     (* s1[i] > s2[i] *)
              then dom_scan p q r true
              else false                           (* worse = True; break *)
  end.
Definition dominates (p q : point) (nobjs : nat) : bool := dom_scan p q (seq 0 nobjs) false.

(* filter_nondominated (indicators.py:164-184).
   inner `while j < n`; result (break taken?, n, array) *)
Fixpoint fnd_inner (fuel nobjs : nat) (a : list point) (i j n : nat) : res (bool * nat * list point) :=
  match fuel with
  | O => Err EFuel
  | S f =>
    if Nat.ltb j n then
      if dominates (aget a i) (aget a j) nobjs then
        fnd_inner f nobjs (swap a j (n - 1)) i j (n - 1)          (* n -= 1; swap(j, n) *)
      else if dominates (aget a j) (aget a i) nobjs then
        Ok (true, (n - 1)%nat, swap a i (n - 1))                   (* n -= 1; swap(i, n); i -= 1; break *)
      else fnd_inner f nobjs a i (S j) n                           (* j += 1 *)
    else Ok (false, n, a)
  end.
(* outer `while i < n`; after a break `i -= 1` and `i += 1` cancel: the same i is
   re-examined with j restarted at i+1 *)
Fixpoint fnd_outer (fuel nobjs : nat) (a : list point) (i n : nat) : res (nat * list point) :=
  match fuel with
  | O => Err EFuel
  | S f =>
    if Nat.ltb i n then
      do r <- fnd_inner (S n) nobjs a i (S i) n;
      match r with (brk, n', a') => fnd_outer f nobjs a' (if brk : bool then i else S i) n' end
    else Ok (n, a)
  end.
Definition filter_nondominated (a : list point) (nsols nobjs : nat) : res (nat * list point) :=
  fnd_outer (2 * nsols + 1) nobjs a 0 nsols.

(* surface_unchanged_to (indicators.py:186-187): min([solutions[i][obj] for i in range(nsols)]) *)
Definition surface_unchanged_to (a : list point) (nsols obj : nat) : res Q :=
  qminl (map (fun i => coord (aget a i) obj) (seq 0 nsols)).

(* reduce_set (indicators.py:189-199): note `i += 1` also after a swap — the entry swapped
   into position i is not examined *)
Fixpoint rs_loop (fuel obj : nat) (thr : Q) (a : list point) (i n : nat) : res (nat * list point) :=
  match fuel with
  | O => Err EFuel
  | S f =>
    if Nat.ltb i n then
      if Qle_bool (coord (aget a i) obj) thr
      then rs_loop f obj thr (swap a i (n - 1)) (S i) (n - 1)      (* n -= 1; swap(i, n); i += 1 *)
      else rs_loop f obj thr a (S i) n
    else Ok (n, a)
  end.
Definition reduce_set (a : list point) (nsols obj : nat) (thr : Q) : res (nat * list point) :=
  rs_loop (S nsols) obj thr a 0 nsols.

(* calc_internal (indicators.py:201-221).  [rec] is what the `if nobjs < 3 ... else ...`
   computes for temp_volume (it may reorder the array); [k] = nobjs-1.  Fuel = number of
   points of this level: every pass removes at least the minimum. *)
Fixpoint ci_loop (rec : list point -> nat -> res (Q * list point)) (k : nat)
                 (fuel : nat) (volume distance : Q) (a : list point) (n : nat) : res (Q * list point) :=
  if Nat.ltb 0 n then                                              (* while n > 0 *)
    match fuel with
    | O => Err EFuel
    | S f =>
      do r1 <- filter_nondominated a n k;                          (* nnondom = filter_nondominated(solutions, n, nobjs-1) *)
      match r1 with (nnondom, a1) =>
      do r2 <- rec a1 nnondom;                                     (* temp_volume = ... *)
      match r2 with (temp_volume, a2) =>
      do temp_distance <- surface_unchanged_to a2 n k;             (* surface_unchanged_to(solutions, n, nobjs-1) *)
      let volume' := volume + temp_volume * (temp_distance - distance) in
      do r3 <- reduce_set a2 n k temp_distance;                    (* n = reduce_set(solutions, n, nobjs-1, distance) *)
      match r3 with (n', a3) => ci_loop rec k f volume' temp_distance a3 n' end
      end end
    end
  else Ok (volume, a).

Fixpoint calc_internal (nobjs : nat) : list point -> nat -> res (Q * list point) :=
  match nobjs with
  | O => fun _ _ => Err EIndex
  | S k =>
    fun a nsols =>
      ci_loop (if Nat.ltb (S k) 3
               then (fun a1 _ => Ok (coord (aget a1 0) 0, a1))     (* solutions[0].normalized_objectives[0] *)
               else calc_internal k)                               (* calc_internal(solutions, nnondom, nobjs-1) *)
              k nsols 0 0 a nsols
  end.

(* ----- calculate ----- *)
(* fx_dirs = true : code after fixes/9c6b890.diff (direction-aware nadir filter, maximised
                    objectives clipped);  false: filter `o <= 1.0` for all, no clip of maximised
   fx_once = true : code after fixes/32527cc.diff (invert once per object); false: once per listing *)
Record hv_flags := HvFlags { fx_dirs : bool; fx_once : bool }.
Definition repaired : hv_flags := HvFlags true true.

(* max(0.0, min(1.0, x)) *)
Definition clip01 (x : Q) : Q :=
  let m := if Qltb x 1 then x else 1 in
  if Qltb 0 m then m else 0.

(* invert (indicators.py:140-146); dirs: true = MAXIMIZE *)
Definition invert_vec (fl : hv_flags) (nobjs : nat) (dirs : list bool) (v : list Q) : res (list Q) :=
  mapM (fun i => do mx <- nth_res dirs i; do x <- nth_res v i;
                 Ok (if mx : bool then (if fx_dirs fl then clip01 x else x) else 1 - clip01 x)) (seq 0 nobjs).

(* all([o <= 1.0 if directions[i] == MINIMIZE else o >= 0.0 for i, o in enumerate(normalized_objectives)]) *)
Fixpoint keep_scan (fl : hv_flags) (dirs : list bool) (i : nat) (v : list Q) : res bool :=
  match v with
  | [] => Ok true
  | o :: r => do mx <- (if fx_dirs fl then nth_res dirs i else Ok false);
              do rest <- keep_scan fl dirs (S i) r;
              Ok ((if mx : bool then Qle_bool 0 o else Qle_bool o 1) && rest)
  end.

Fixpoint filterM {A} (f : A -> res bool) (l : list A) : res (list A) :=
  match l with
  | [] => Ok []
  | x :: r => do b <- f x; do r' <- filterM f r; Ok (if b : bool then x :: r' else r')
  end.

(* {id(s): s for s in feasible}.values(): one entry per object, in order of first listing *)
Fixpoint dedup_sid (seen : list nat) (l : list isol) : list isol :=
  match l with
  | [] => []
  | s :: r => if existsb (Nat.eqb (s_sid s)) seen then dedup_sid seen r
              else s :: dedup_sid (s_sid s :: seen) r
  end.

Fixpoint invert_all (fl : hv_flags) (nobjs : nat) (dirs : list bool) (st : store) (l : list isol) : res store :=
  match l with
  | [] => Ok st
  | s :: r => do v <- store_get st (s_sid s); do v' <- invert_vec fl nobjs dirs v;
              invert_all fl nobjs dirs (store_set st (s_sid s) v') r
  end.

(* Hypervolume.calculate (indicators.py:223-240); nobjs = set[0].problem.nobjs, dirs = its directions *)
Definition hv_calculate (fl : hv_flags) (nobjs : nat) (dirs : list bool) (mins maxs : list Q)
                        (st : store) (set : list isol) : res (Q * store) :=
  let feas := feasible set in                                       (* [s for s in set if s.constraint_violation == 0.0] *)
  do r <- normalize nobjs st feas (Some mins) (Some maxs);          (* normalize(feasible, self.minimum, self.maximum) *)
  let st1 := snd r in
  do feas2 <- filterM (fun s => do v <- store_get st1 (s_sid s); keep_scan fl dirs 0 v) feas;
  match feas2 with
  | [] => Ok (0, st1)                                               (* if len(feasible) == 0: return 0.0 *)
  | _ =>
    do st2 <- invert_all fl nobjs dirs st1 (if fx_once fl then dedup_sid [] feas2 else feas2);
    do arr <- mapM (fun s => store_get st2 (s_sid s)) feas2;        (* the objects' normalized_objectives *)
    do r <- calc_internal nobjs arr (length feas2);
    Ok (fst r, st2)
  end.

(* Hypervolume(minimum=..., maximum=...)(set)  /  Hypervolume(reference_set=...)(set) on a fresh store *)
Definition hv_indicator (fl : hv_flags) (nobjs : nat) (dirs : list bool)
                        (bounds : (list Q * list Q) + list isol) (set : list isol) : res Q :=
  match bounds with
  | inl (mins, maxs) => do r <- hv_calculate fl nobjs dirs mins maxs [] set; Ok (fst r)
  | inr ref => do c <- ind_make nobjs [] ref;
               do r <- hv_calculate fl nobjs dirs (i_min (fst c)) (i_max (fst c)) (snd c) set; Ok (fst r)
  end.

(* ================= Part 2: the specification ================= *)

(* smallest value of coordinate k among the points (0 for no points) *)
Definition lastmin (k : nat) (P : list point) : Q :=
  match P with [] => 0 | p :: r => qmin_from (coord p k) (map (fun q => coord q k) r) end.

(* integral over z in (base, +inf) of H { p in P : p_k >= z }, where every p_k >= base:
   between base and the smallest value m of p_k the cross-section is all of P; above m
   the points with p_k = m drop out.  fuel >= length P. *)
Fixpoint peel (H : list point -> Q) (k : nat) (fuel : nat) (base : Q) (P : list point) : Q :=
  match fuel with
  | O => 0
  | S f =>
    match P with
    | [] => 0
    | _ => let m := lastmin k P in
           (m - base) * H P + peel H k f m (filter (fun q => Qltb m (coord q k)) P)
    end
  end.

(* measure of the union of the boxes [0,p_0] x ... x [0,p_(d-1)], p in P (coordinates >= 0).
   d = 0: the one-point space has measure 1, covered iff there is a box. *)
Fixpoint hv_spec (d : nat) (P : list point) : Q :=
  match d with
  | O => match P with [] => 0 | _ => 1 end
  | S k => peel (hv_spec k) k (length P) 0 P
  end.

(* which points enter, from the English statement: feasible members, normalised by the
   bounds, not worse than the nadir in any objective; clipped at the ideal; turned into
   goodness coordinates (1 - x for minimised, x for maximised objectives) *)
Definition spec_norm (mins maxs objs : list Q) : list Q := normv mins maxs objs.
Definition not_worse_than_nadir (mx : bool) (x : Q) : bool := if mx then Qle_bool 0 x else Qle_bool x 1.
Definition goodness (mx : bool) (x : Q) : Q := if mx then clip01 x else 1 - clip01 x.
Definition spec_points (dirs : list bool) (mins maxs : list Q) (set : list isol) : list point :=
  map (fun v => zip2 goodness dirs v)
      (filter (fun v => forallb (fun b : bool => b) (zip2 not_worse_than_nadir dirs v))
              (map (fun s => spec_norm mins maxs (s_objs s)) (feasible set))).
