(* Model/Chunks.v — literal model of platypus/evaluator.py:27-49 (_chunks).
   Executable definitions only.

     def _chunks(items, n):
         result = []
         iterator = iter(items)
         try:
             while True:
                 result.append(next(iterator))      (* chunks_aux, cons case: acc ++ [x]        *)
                 if len(result) == n:               (* Z.of_nat (length acc') =? n               *)
                     yield result
                     result = []
         except StopIteration:
             if len(result) > 0:                    (* chunks_aux, nil case: trailing partial    *)
                 yield result

   [n] is a Python int and therefore a Z here.  For n <= 0 the test
   len(result) == n is never true after an append (len >= 1), so the generator
   yields everything as ONE trailing chunk (nothing for an empty input): this
   is what the model does as well, there is no special case. *)
From Coq Require Import ZArith List.
Import ListNotations.
Open Scope Z_scope.

Section Chunks.
  Variable A : Type.

  (* acc = the list [result] being accumulated (in order) *)
  Fixpoint chunks_aux (n : Z) (acc : list A) (l : list A) : list (list A) :=
    match l with
    | [] => match acc with [] => [] | _ :: _ => [acc] end
    | x :: r =>
        let acc' := acc ++ [x] in
        if Z.of_nat (length acc') =? n then acc' :: chunks_aux n [] r
        else chunks_aux n acc' r
    end.

  Definition chunks (n : Z) (l : list A) : list (list A) := chunks_aux n [] l.
End Chunks.

Arguments chunks_aux {A} _ _ _.
Arguments chunks {A} _ _.
