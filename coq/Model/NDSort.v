(* Model/NDSort.v — literal model of nondominated_sort (core.py:1419-1448),
   crowding_distance (core.py:1450-1486) and filters.unique (filters.py:72-91).
   Executable definitions only.

   Attributes written on Solution objects (rank, crowding_distance) are modelled as
   stores keyed by the object's identity [sid]; the most recent write wins.

   Reusable exports:
     nd_loop, rank_of                 the peeling loop (generic comparator) and the rank it leaves on an object
     unique, crowding, cget           de-duplication by objective tuple, crowding distance of one front
     asol, x_nd_sort_log, x_nd_sort   solutions annotated with (rank, crowding_distance), the executable sort *)
From Coq Require Import ZArith QArith Bool List.
Import ListNotations.
From PV Require Import Base.Num Base.StableSort Model.Dominance Model.Archive.
Open Scope Z_scope.

Definition has_sid {V} (i : nat) (l : list (sol V)) : bool := existsb (fun y => Nat.eqb (sid y) i) l.

(* ---------- nondominated_sort: the peeling loop ---------- *)
Section NDLoop.
  Variable V : Type.
  Variable cmp : sol V -> sol V -> Z.          (* Archive()'s dominance.compare *)
  Variable CR : Type.                           (* what crowding_distance writes for one front *)
  Variable crowd : list (sol V) -> option CR.   (* crowding_distance(archive); None = it raised *)

  (* rank = 0
     while len(solutions) > 0:
         archive = Archive(); archive += solutions
         for solution in archive: solution.rank = rank
         crowding_distance(archive)
         solutions = [x for x in solutions if x not in archive]      (identity)
         rank += 1
     The result is the log of rounds (rank written, the archive, crowding written), oldest first.
     [fuel] bounds the number of rounds; None = out of fuel or crowding raised. *)
  Fixpoint nd_loop (fuel : nat) (solutions : list (sol V)) (rank : nat)
    : option (list (nat * list (sol V) * CR)) :=
    match solutions with
    | [] => Some []
    | _ :: _ =>
        match fuel with
        | O => None
        | S fuel' =>
            let front := archive (sol V) cmp solutions in
            match crowd front with
            | None => None
            | Some cr =>
                match nd_loop fuel' (filter (fun x => negb (mem_sid x front)) solutions) (S rank) with
                | None => None
                | Some rest => Some ((rank, front, cr) :: rest)
                end
            end
        end
    end.

  (* solution.rank after the loop: the last round that wrote it *)
  Fixpoint rank_of (log : list (nat * list (sol V) * CR)) (i : nat) : option nat :=
    match log with
    | [] => None
    | (r, front, _) :: rest =>
        match rank_of rest i with
        | Some r' => Some r'
        | None => if has_sid i front then Some r else None
        end
    end.
End NDLoop.

Arguments nd_loop {V} _ {CR} _ _ _ _.
Arguments rank_of {V CR} _ _.

(* ---------- filters.unique (key = objectives_key) ---------- *)
(* tuple(objectives) equality as Python compares tuples of floats: same length, == elementwise *)
Fixpoint tuple_eqb (a b : list xq) : bool :=
  match a, b with
  | [], [] => true
  | x :: r, y :: s => xeqb x y && tuple_eqb r s
  | _, _ => false
  end.

(* seen = set(); for s in solutions: k = key(s); if k not in seen: seen.add(k); yield s *)
Fixpoint unique_aux (seen : list (list xq)) (l : list xsol) : list xsol :=
  match l with
  | [] => []
  | s :: r => if existsb (tuple_eqb (s_objs s)) seen then unique_aux seen r
              else s :: unique_aux (s_objs s :: seen) r
  end.
Definition unique (l : list xsol) : list xsol := unique_aux [] l.

(* ---------- crowding_distance ---------- *)
(* sys.float_info.epsilon = 2^-52 *)
Definition EPSILON : Q := dy 1 (-52).

(* crowding_distance attribute store: identity -> value, most recent binding first *)
Definition cstore := list (nat * xq).
Fixpoint cget (st : cstore) (i : nat) : option xq :=
  match st with
  | [] => None
  | (j, v) :: r => if Nat.eqb j i then Some v else cget r i
  end.
Definition cset (st : cstore) (i : nat) (v : xq) : cstore := (i, v) :: st.
(* obj.crowding_distance += v   (None: attribute missing, or inf + -inf = NaN) *)
Definition cadd (st : cstore) (i : nat) (v : xq) : option cstore :=
  match cget st i with
  | None => None
  | Some w => match xadd w v with None => None | Some z => Some (cset st i z) end
  end.

Definition fin (v : xq) : option Q := match v with Fin q => Some q | _ => None end.

(* solution.objectives[i] (the guard in [crowding] makes the default unreachable) *)
Definition obj_at (i : nat) (s : xsol) : xq := nth i (s_objs s) xzero.
(* sorted(solutions, key=objective_value_at_index(i)) *)
Definition obj_lt (i : nat) (a b : xsol) : bool := xltb (obj_at i a) (obj_at i b).
Definition sort_by_obj (i : nat) (l : list xsol) : list xsol := ssort (obj_lt i) l.

(* for j in range(1, len-1):  the body, on the window (sorted[j-1], sorted[j], sorted[j+1]) *)
Definition crowd_interior_step (i : nat) (mn mx : Q) (p c n : xsol) (st : cstore) : option cstore :=
  if Qltb (mx - mn) EPSILON                                   (* max_value - min_value < EPSILON *)
  then Some (cset st (sid c) PInf)                            (*   = POSITIVE_INFINITY            *)
  else match fin (obj_at i n), fin (obj_at i p) with
       | Some b, Some a => cadd st (sid c) (Fin ((b - a) / (mx - mn)))   (* += diff / (max - min) *)
       | _, _ => None                                         (* non-finite objective: outside the exact model *)
       end.

Fixpoint crowd_interior (i : nat) (mn mx : Q) (w : list xsol) (st : cstore) : option cstore :=
  match w with
  | p :: tl =>
      match tl with
      | c :: n :: _ =>
          match crowd_interior_step i mn mx p c n st with
          | None => None
          | Some st' => crowd_interior i mn mx tl st'
          end
      | _ => Some st
      end
  | [] => Some st
  end.

(* one iteration of "for i in range(nobjs)" on the de-duplicated front u (len(u) >= 3) *)
Definition crowd_pass (i : nat) (u : list xsol) (st : cstore) : option cstore :=
  let srt := sort_by_obj i u in
  match srt with
  | [] => None
  | first :: _ =>
      let lst := last srt first in
      match fin (obj_at i first), fin (obj_at i lst) with       (* min_value, max_value *)
      | Some mn, Some mx =>
          match cadd st (sid first) PInf with                   (* sorted[0].cd += inf  *)
          | None => None
          | Some st1 =>
              match cadd st1 (sid lst) PInf with                (* sorted[-1].cd += inf *)
              | None => None
              | Some st2 => crowd_interior i mn mx srt st2
              end
          end
      | _, _ => None                                            (* non-finite extreme: outside the exact model *)
      end
  end.

Fixpoint crowd_passes (is : list nat) (u : list xsol) (st : cstore) : option cstore :=
  match is with
  | [] => Some st
  | i :: r => match crowd_pass i u st with None => None | Some st' => crowd_passes r u st' end
  end.

(* crowding_distance(solutions) for a problem with [nobjs] objectives; the result binds every
   identity of the front.  None = IndexError (fewer objectives than nobjs) or a non-finite value. *)
Definition crowding (nobjs : nat) (front : list xsol) : option cstore :=
  let st0 := fold_left (fun st s => cset st (sid s) xzero) front [] in     (* cd = 0.0 for all *)
  let u := unique front in
  if Nat.ltb (length u) 3
  then Some (fold_left (fun st s => cset st (sid s) PInf) u st0)          (* cd = inf for the unique ones *)
  else if forallb (fun s => Nat.leb nobjs (length (s_objs s))) u
       then crowd_passes (seq 0 nobjs) u st0
       else None.

(* ---------- the executable sort ---------- *)
Record asol := { a_sol : xsol; a_rank : nat; a_crowd : xq }.

Definition x_nd_loop (c : bool) (dirs : list bool) :=
  nd_loop (x_sol_cmp c dirs) (crowding (length dirs)).

Definition x_nd_sort_log (c : bool) (dirs : list bool) (l : list xsol) := x_nd_loop c dirs (length l) l 0%nat.

(* solution.crowding_distance after the loop: the last round that wrote it *)
Fixpoint crowd_of (log : list (nat * list xsol * cstore)) (i : nat) : option xq :=
  match log with
  | [] => None
  | (_, _, cs) :: rest =>
      match crowd_of rest i with
      | Some v => Some v
      | None => cget cs i
      end
  end.

Fixpoint annotate (log : list (nat * list xsol * cstore)) (l : list xsol) : option (list asol) :=
  match l with
  | [] => Some []
  | x :: r => match rank_of log (sid x), crowd_of log (sid x), annotate log r with
              | Some rk, Some cd, Some r' => Some (Build_asol x rk cd :: r')
              | _, _, _ => None
              end
  end.

(* nondominated_sort(l) followed by reading (rank, crowding_distance) of every element of l, in order *)
Definition x_nd_sort (c : bool) (dirs : list bool) (l : list xsol) : option (list asol) :=
  match x_nd_sort_log c dirs l with
  | None => None
  | Some log => annotate log l
  end.
