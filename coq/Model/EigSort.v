(* Model/EigSort.v — literal model of the final selection sort of platypus/_math.py tql2
   (_math.py:319-335): eigenvalues d ascending, the columns of V permuted alongside.
   Comparison-only code: abstract carrier (T, ltb); V is a list of rows (V[j][i] = nth i (nth j V)).
   Executable definitions only.  The PrimFloat model of tql2 (EigFloat.v) calls this very function
   at T = float, ltb = PrimFloat.ltb. *)
From Coq Require Import List Bool Arith.
Import ListNotations.
From PV Require Import Model.LSolve.   (* upd *)

Section EigSort.
  Variable T : Type.
  Variable dflt : T.                  (* value of an out-of-range read; unreachable on well-formed input *)
  Variable ltb : T -> T -> bool.

  Definition at_ (l : list T) (i : nat) : T := nth i l dflt.

  (* :320-326   k = i; p = d[i]; for j in range(i+1, n): if d[j] < p: k = j; p = d[j] *)
  Definition find_min (d : list T) (n i : nat) : nat * T :=
    fold_left (fun kp j => if ltb (at_ d j) (snd kp) then (j, at_ d j) else kp)
              (seq (S i) (n - S i)) (i, at_ d i).

  (* :333-335   p = V[j][i]; V[j][i] = V[j][k]; V[j][k] = p   on one row *)
  Definition swap_row (r : list T) (i k : nat) : list T :=
    let p := at_ r i in
    let r1 := upd r i (at_ r k) in
    upd r1 k p.

  (* :332       for j in range(n): ...row j... *)
  Definition swap_cols (n : nat) (V : list (list T)) (i k : nat) : list (list T) :=
    fold_left (fun V j => upd V j (swap_row (nth j V []) i k)) (seq 0 n) V.

  (* :320-335   body of  for i in range(n-1) *)
  Definition sort_step (n : nat) (st : list T * list (list T)) (i : nat) : list T * list (list T) :=
    let '(d, V) := st in
    let '(k, p) := find_min d n i in
    if Nat.eqb k i then (d, V)                 (* :328  if k != i *)
    else
      let d1 := upd d k (at_ d i) in           (* :329  d[k] = d[i] *)
      let d2 := upd d1 i p in                  (* :330  d[i] = p    *)
      (d2, swap_cols n V i k).

  (* :319 *)
  Definition eig_sort (n : nat) (d : list T) (V : list (list T)) : list T * list (list T) :=
    fold_left (sort_step n) (seq 0 (n - 1)) (d, V).

  (* reading a list through an index list: (permute p l)[t] = l[p[t]] *)
  Definition permute (p : list nat) (l : list T) : list T := map (at_ l) p.
End EigSort.
