(* Model/GridArchive.v — literal model of platypus/core.py AdaptiveGridArchive
   (core.py:1144-1293: __init__, add, remove, adapt_grid, find_index, find_densest,
   pick_from_densest; Archive.remove core.py:1107-1124) as REPAIRED by commit 8a1a86e
   (`if index < 0 or not all(nondominated): adapt_grid()`); the pre-repair `add` is
   obtained with the flag [repaired := false].
   Executable definitions only.

   Numbers: objectives are exact rationals (every finite float is one); the grid
   arithmetic  int(divisions * (v - min) / (max - min))  is modelled over exact Q
   (rounding of the two float operations is NOT modelled: the correspondence is run
   on inputs for which the driver has verified the float computation to agree).
   minimum / maximum are xq because they start at +inf / -inf.
   density entries are the floats 0.0, 1.0, ... in Python; nat here.

   Identity: a Solution has no __eq__, so list.remove compares by identity.  A
   solution carries its object identity [g_sid]; [g_is] compares sid and fields
   structurally (two references to one un-mutated object agree on both, two distinct
   objects differ in sid).

   Python exceptions are the result None: IndexError (objective vector shorter than
   nobjs, density index out of range), ValueError (int(nan) when a bound is -inf).
   Python's negative list indices (density[-1]) are modelled by [py_index]. *)
From Coq Require Import ZArith QArith Qround Bool List.
Import ListNotations.
From PV Require Import Base.Num Model.Dominance.
Open Scope Z_scope.

Record gsol := GS { g_sid : nat; g_objs : list Q; g_cv : xq }.

(* capacity, nobjs, divisions of the archive; constrained?/directions of the problem
   (only the dominance comparator looks at the last two) *)
Record gcfg := GC { c_cap : nat; c_nobjs : nat; c_div : nat; c_con : bool; c_dirs : list bool }.

Record garch := GA { a_cont : list gsol; a_min : list xq; a_max : list xq; a_dens : list nat }.

Definition set_cont (a : garch) (c : list gsol) : garch := GA c (a_min a) (a_max a) (a_dens a).
Definition set_dens (a : garch) (d : list nat) : garch := GA (a_cont a) (a_min a) (a_max a) d.

(* self._dominance.compare : ParetoDominance (C02's model) *)
Definition g_dsol (s : gsol) : xdsol := Build_dsol (map Fin (g_objs s)) (g_cv s).
Definition g_cmp (cfg : gcfg) (s t : gsol) : Z :=
  x_pareto_compare (c_con cfg) (c_dirs cfg) (g_dsol s) (g_dsol t).

(* ---------- identity ---------- *)
Definition q_same (a b : Q) : bool := Z.eqb (Qnum a) (Qnum b) && Pos.eqb (Qden a) (Qden b).
Definition x_same (a b : xq) : bool :=
  match a, b with
  | NInf, NInf => true | PInf, PInf => true
  | Fin x, Fin y => q_same x y
  | _, _ => false
  end.
Fixpoint ql_same (l1 l2 : list Q) : bool :=
  match l1, l2 with
  | [], [] => true
  | a :: r1, b :: r2 => q_same a b && ql_same r1 r2
  | _, _ => false
  end.
Definition g_is (a b : gsol) : bool :=
  Nat.eqb (g_sid a) (g_sid b) && ql_same (g_objs a) (g_objs b) && x_same (g_cv a) (g_cv b).

(* list.remove(x): first element that is x; None = ValueError *)
Fixpoint list_remove (x : gsol) (l : list gsol) : option (list gsol) :=
  match l with
  | [] => None
  | e :: r => if g_is e x then Some r
              else match list_remove x r with Some r' => Some (e :: r') | None => None end
  end.

(* itertools.compress *)
Fixpoint compress {A} (l : list A) (m : list bool) : list A :=
  match l, m with
  | x :: l', b :: m' => if b then x :: compress l' m' else compress l' m'
  | _, _ => []
  end.

(* ---------- Python list indexing of the density table ---------- *)
Definition py_index (len : nat) (i : Z) : option nat :=
  if 0 <=? i then (if i <? Z.of_nat len then Some (Z.to_nat i) else None)
  else if - Z.of_nat len <=? i then Some (Z.to_nat (Z.of_nat len + i)) else None.

Fixpoint upd_nth (d : list nat) (k : nat) (f : nat -> nat) : list nat :=
  match d, k with
  | [], _ => []
  | x :: r, O => f x :: r
  | x :: r, S k' => x :: upd_nth r k' f
  end.

Definition dens_get (d : list nat) (i : Z) : option nat :=
  match py_index (length d) i with Some k => nth_error d k | None => None end.
Definition dens_upd (d : list nat) (i : Z) (f : nat -> nat) : option (list nat) :=
  match py_index (length d) i with Some k => Some (upd_nth d k f) | None => None end.

(* ---------- find_index (core.py:1242-1264) ---------- *)
(* int(): truncation toward zero *)
Definition py_int (q : Q) : Z := if Qle_bool 0 q then Qfloor q else - Qfloor (- q).

(* "if maximum > minimum: value = (value - minimum) / (maximum - minimum) else: value = 0"
   reached only with minimum <= value <= maximum.  maximum = +inf gives finite/inf = 0.0;
   minimum = -inf gives inf/inf = nan and int(nan) raises ValueError (None). *)
Definition cell_value (v : Q) (lo hi : xq) : option Q :=
  if xltb lo hi then
    match lo, hi with
    | Fin l, Fin h => Some ((v - l) / (h - l))%Q
    | Fin _, PInf => Some 0%Q
    | _, _ => None
    end
  else Some 0%Q.

(* for i in range(nobjs): ...   n = iterations left, i = loop counter *)
Fixpoint fi_loop (div : Z) (n i : nat) (o : list Q) (mn mx : list xq) (index : Z) : option Z :=
  match n with
  | O => Some index
  | S n' =>
    match o, mn, mx with
    | v :: o', lo :: mn', hi :: mx' =>
      if xltb (Fin v) lo || xltb hi (Fin v) then Some (-1)
      else match cell_value v lo hi with
           | None => None
           | Some value =>
             let t := py_int (inject_Z div * value) in
             let t := if t =? div then t - 1 else t in
             fi_loop div n' (S i) o' mn' mx' (index + t * div ^ Z.of_nat i)
           end
    | _, _, _ => None
    end
  end.

Definition find_index (cfg : gcfg) (mn mx : list xq) (o : list Q) : option Z :=
  fi_loop (Z.of_nat (c_div cfg)) (c_nobjs cfg) 0 o mn mx 0.

Definition gfi (cfg : gcfg) (a : garch) (s : gsol) : option Z :=
  find_index cfg (a_min a) (a_max a) (g_objs s).

(* ---------- adapt_grid (core.py:1228-1240) ---------- *)
(* for i in range(nobjs): minimum[i] = min(minimum[i], objs[i]); maximum[i] = max(...) *)
Fixpoint bounds_upd (n : nat) (mn mx : list xq) (o : list Q) : option (list xq * list xq) :=
  match n with
  | O => Some (mn, mx)
  | S n' =>
    match mn, mx, o with
    | lo :: mn', hi :: mx', v :: o' =>
      match bounds_upd n' mn' mx' o' with
      | Some (a, b) => Some (xmin lo (Fin v) :: a, xmax hi (Fin v) :: b)
      | None => None
      end
    | _, _, _ => None
    end
  end.

Fixpoint bounds_loop (n : nat) (l : list gsol) (mn mx : list xq) : option (list xq * list xq) :=
  match l with
  | [] => Some (mn, mx)
  | s :: r => match bounds_upd n mn mx (g_objs s) with
              | Some (mn', mx') => bounds_loop n r mn' mx'
              | None => None
              end
  end.

(* for solution in self: self.density[self.find_index(solution)] += 1 *)
Fixpoint count_loop (cfg : gcfg) (mn mx : list xq) (l : list gsol) (d : list nat) : option (list nat) :=
  match l with
  | [] => Some d
  | s :: r => match find_index cfg mn mx (g_objs s) with
              | None => None
              | Some i => match dens_upd d i S with
                          | Some d' => count_loop cfg mn mx r d'
                          | None => None
                          end
              end
  end.

Definition ga_adapt_grid (cfg : gcfg) (a : garch) : option garch :=
  let n := c_nobjs cfg in
  match bounds_loop n (a_cont a) (repeat PInf n) (repeat NInf n) with
  | None => None
  | Some (mn, mx) =>
    match count_loop cfg mn mx (a_cont a) (repeat 0%nat (Nat.pow (c_div cfg) n)) with
    | None => None
    | Some d => Some (GA (a_cont a) mn mx d)
    end
  end.

(* __init__ : empty contents, then adapt_grid *)
Definition ga_init (cfg : gcfg) : option garch := ga_adapt_grid cfg (GA [] [] [] []).

(* ---------- find_densest / pick_from_densest (core.py:1266-1293) ---------- *)
Fixpoint fd_loop (cfg : gcfg) (a : garch) (l : list gsol) (index value : Z) : option Z :=
  match l with
  | [] => Some index
  | s :: r =>
    match gfi cfg a s with
    | None => None
    | Some ti =>
      match dens_get (a_dens a) ti with
      | None => None
      | Some tv => if value <? Z.of_nat tv then fd_loop cfg a r ti (Z.of_nat tv)
                   else fd_loop cfg a r index value
      end
    end
  end.
Definition ga_find_densest (cfg : gcfg) (a : garch) : option Z := fd_loop cfg a (a_cont a) (-1) (-1).

Fixpoint pk_loop (cfg : gcfg) (a : garch) (l : list gsol) (sol : option gsol) (value : Z) : option (option gsol) :=
  match l with
  | [] => Some sol
  | s :: r =>
    match gfi cfg a s with
    | None => None
    | Some ti =>
      match dens_get (a_dens a) ti with
      | None => None
      | Some tv => if value <? Z.of_nat tv then pk_loop cfg a r (Some s) (Z.of_nat tv)
                   else pk_loop cfg a r sol value
      end
    end
  end.
Definition ga_pick_from_densest (cfg : gcfg) (a : garch) : option (option gsol) :=
  pk_loop cfg a (a_cont a) None (-1).

(* ---------- remove (core.py:1215-1226) ---------- *)
Definition ga_remove (cfg : gcfg) (a : garch) (x : gsol) : option (garch * bool) :=
  match list_remove x (a_cont a) with
  | None => Some (a, false)
  | Some c' =>
    let a1 := set_cont a c' in
    match gfi cfg a1 x with
    | None => None
    | Some index =>
      match dens_get (a_dens a1) index with
      | None => None
      | Some dv =>
        if (1 <? dv)%nat then
          match dens_upd (a_dens a1) index pred with
          | Some d => Some (set_dens a1 d, true)
          | None => None
          end
        else match ga_adapt_grid cfg a1 with
             | Some a2 => Some (a2, true)
             | None => None
             end
      end
    end
  end.

(* ---------- add (core.py:1176-1213) ---------- *)
(* the candidate's flags against the members *)
Definition ga_flags (cfg : gcfg) (a : garch) (s : gsol) : list Z := map (fun m => g_cmp cfg s m) (a_cont a).
Definition ga_kept (cfg : gcfg) (a : garch) (s : gsol) : list gsol :=
  compress (a_cont a) (map (fun x => x =? 0) (ga_flags cfg a s)).

(* lines 1185-1201: drop the dominated members, append the candidate, update the grid.
   Result: the archive and the candidate's cell index (None on the empty-archive path). *)
Definition ga_place (repaired : bool) (cfg : gcfg) (a : garch) (s : gsol) : option (garch * option Z) :=
  let nondominated := map (fun x => x =? 0) (ga_flags cfg a s) in
  let a0 := set_cont a (compress (a_cont a) nondominated) in
  if (length (a_cont a0) =? 0)%nat then
    match ga_adapt_grid cfg (set_cont a0 (a_cont a0 ++ [s])) with
    | Some a1 => Some (a1, None)
    | None => None
    end
  else
    let a1 := set_cont a0 (a_cont a0 ++ [s]) in
    match gfi cfg a1 s with
    | None => None
    | Some index =>
      if (index <? 0) || (repaired && negb (forallb id nondominated)) then
        match ga_adapt_grid cfg a1 with
        | None => None
        | Some a2 => match gfi cfg a2 s with
                     | None => None
                     | Some i2 => Some (a2, Some i2)
                     end
        end
      else
        match dens_upd (a_dens a1) index S with
        | None => None
        | Some d => Some (set_dens a1 d, Some index)
        end
    end.

(* lines 1203-1213 *)
Definition ga_evict (cfg : gcfg) (a2 : garch) (s : gsol) (index : Z) : option (garch * bool) :=
  if (length (a_cont a2) <=? c_cap cfg)%nat then Some (a2, true)
  else
    match dens_get (a_dens a2) index with
    | None => None
    | Some di =>
      match ga_find_densest cfg a2 with
      | None => None
      | Some fd =>
        match dens_get (a_dens a2) fd with
        | None => None
        | Some dd =>
          if (di =? dd)%nat then
            match ga_remove cfg a2 s with
            | Some (a3, _) => Some (a3, false)
            | None => None
            end
          else
            match ga_pick_from_densest cfg a2 with
            | None => None
            | Some None => Some (a2, true)     (* self.remove(None): ValueError caught, nothing removed *)
            | Some (Some x) =>
              match ga_remove cfg a2 x with
              | Some (a3, _) => Some (a3, true)
              | None => None
              end
            end
        end
      end
    end.

Definition ga_add_gen (repaired : bool) (cfg : gcfg) (a : garch) (s : gsol) : option (garch * bool) :=
  let dominates := map (fun x => 0 <? x) (ga_flags cfg a s) in
  if existsb id dominates then Some (a, false)
  else
    match ga_place repaired cfg a s with
    | None => None
    | Some (a1, None) => Some (a1, true)
    | Some (a2, Some index) => ga_evict cfg a2 s index
    end.

Definition ga_add := ga_add_gen true.

(* an insertion history *)
Fixpoint ga_fold (repaired : bool) (cfg : gcfg) (a : garch) (l : list gsol) : option garch :=
  match l with
  | [] => Some a
  | s :: r => match ga_add_gen repaired cfg a s with
              | Some (a', _) => ga_fold repaired cfg a' r
              | None => None
              end
  end.
Definition ga_run_gen (repaired : bool) (cfg : gcfg) (l : list gsol) : option garch :=
  match ga_init cfg with Some a => ga_fold repaired cfg a l | None => None end.
Definition ga_run := ga_run_gen true.

(* ---------- recount: the number of members lying in cell c of the current grid ---------- *)
Definition in_cell (cfg : gcfg) (mn mx : list xq) (c : nat) (s : gsol) : bool :=
  match find_index cfg mn mx (g_objs s) with Some z => z =? Z.of_nat c | None => false end.
Definition cell_count (cfg : gcfg) (mn mx : list xq) (c : nat) (l : list gsol) : nat :=
  length (filter (in_cell cfg mn mx c) l).
Definition ncells (cfg : gcfg) : nat := Nat.pow (c_div cfg) (c_nobjs cfg).
Definition dens_consistent_b (cfg : gcfg) (a : garch) : bool :=
  Nat.eqb (length (a_dens a)) (ncells cfg) &&
  forallb (fun c => Nat.eqb (nth c (a_dens a) 0%nat) (cell_count cfg (a_min a) (a_max a) c (a_cont a)))
          (seq 0 (ncells cfg)).

(* ---------- size-cutting steps of the algorithms (algorithms.py) ---------- *)
(* offspring[:n]  (GA 207, ES 260) and filters.truncate = sorted(...)[:size] *)
Definition py_slice_to {A} (n : nat) (l : list A) : list A := firstn n l.

(* the size clauses of the property, on the sizes logged at one step boundary:
   kind 0 = generational population (ES, NSGA-II, NSGA-III, SPEA2, GDE3, IBEA, eps-MOEA, MOEA/D):
            equals the configured size
        1 = GA: never above; equal when offspring_size >= population_size
        2 = particle swarm: particles = swarm_size, leaders <= leader_size
        3 = bounded grid archive of PAES / PESA2: archive <= capacity
   size = population_size / swarm_size;  aux = offspring_size / leader_size / capacity
   o = (population or particle count, leader or archive count) *)
Definition size_ok (kind size aux : Z) (o : Z * Z) : bool :=
  let (p, q) := o in
  if kind =? 0 then p =? size
  else if kind =? 1 then (p <=? size) && (if size <=? aux then p =? size else true)
  else if kind =? 2 then (p =? size) && (q <=? aux)
  else if kind =? 3 then q <=? aux
  else false.
