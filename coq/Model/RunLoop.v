(* Model/RunLoop.v — executable model of Algorithm.run / MaxEvaluations / Algorithm.evaluate_all
   and of the batches every shipped algorithm hands to evaluate_all in one step.
   Definitions only; proofs are in Proofs/RunLoopProofs.v.

   Mirrors  platypus/core.py:397-415  (MaxEvaluations),
            platypus/core.py:687-714  (Algorithm.evaluate_all),
            platypus/core.py:716-750  (Algorithm.run),
            platypus/algorithms.py    (step / initialize / iterate of the 15 shipped algorithms),
            platypus/extensions.py    (start_run / pre_step / post_step / end_run hooks). *)
From Coq Require Import Arith List Bool.
Import ListNotations.

(* ------------------------------------------------------------------------- *)
(* 1. Algorithm.run with an integer condition (= MaxEvaluations)              *)
(* ------------------------------------------------------------------------- *)
Section Run.
  Variable St : Type.
  Variable nfe : St -> nat.                      (* Algorithm.nfe, core.py:645 *)
  (* the six places where user/extension/algorithm code runs inside run() *)
  Variable start_run end_run : St -> St.         (* core.py:734-735, 749-750 *)
  Variable pre_step post_step : St -> St.        (* core.py:738-739, 743-744 *)
  Variable alg_step : St -> St.                  (* core.py:741  self.step() *)
  Variable callback : St -> St.                  (* core.py:746-747 *)

  (* body of the while loop, core.py:738-747: pre_step; step; post_step; callback — each exactly once *)
  Definition step (s : St) : St := callback (post_step (alg_step (pre_step s))).

  (* MaxEvaluations.shouldTerminate, core.py:414-415:  algorithm.nfe - starting_nfe >= nfe.
     nfe never decreases, so Python's integer difference is the truncated one. *)
  Definition should_terminate (start N : nat) (s : St) : bool := N <=? nfe s - start.

  (* while not condition(self): ... — the condition is tested BEFORE every step (core.py:737).
     Out of fuel is an error value (None). *)
  Fixpoint loop (fuel start N : nat) (s : St) : option St :=
    if should_terminate start N s then Some s
    else match fuel with
         | 0 => None
         | S f => loop f start N (step s)
         end.

  (* run(N): condition.initialize records nfe at the call (core.py:731-732, 411-412) BEFORE the
     start_run hooks; then the loop; then end_run.  Fuel N is proved sufficient. *)
  Definition run (N : nat) (s : St) : option St :=
    match loop N (nfe s) N (start_run s) with
    | Some s' => Some (end_run s')
    | None => None
    end.

  Fixpoint iter (k : nat) (s : St) : St :=
    match k with 0 => s | S k' => iter k' (step s) end.

  (* evaluations a run(N) consumed *)
  Definition consumed (N : nat) (s : St) : nat :=
    match run N s with Some s' => nfe s' - nfe s | None => 0 end.

  (* two consecutive calls *)
  Definition run2 (N1 N2 : nat) (s : St) : option St :=
    match run N1 s with Some s1 => run N2 s1 | None => None end.
End Run.

(* ------------------------------------------------------------------------- *)
(* 2. Algorithm.evaluate_all (core.py:687-714)                                *)
(* ------------------------------------------------------------------------- *)
(* A member of a batch: the identity of the Solution object and the value of its
   `evaluated` attribute when evaluate_all reads it (core.py:699). *)
Definition member := (nat * bool)%type.
Definition m_sid (m : member) : nat := fst m.
Definition m_flag (m : member) : bool := snd m.

Record ecount := mkE {
  e_nfe : nat;               (* Algorithm.nfe *)
  e_calls : list nat         (* identities handed to the problem function, in call order *)
}.

(* unevaluated = [s for s in solutions if not s.evaluated]          core.py:699 *)
Definition unevaluated (batch : list member) : list member :=
  filter (fun m => negb (m_flag m)) batch.

(* jobs are created for, and only for, the unevaluated members (core.py:701-702);
   self.nfe += len(solutions) counts ALL members passed (core.py:714). *)
Definition evaluate_all (batch : list member) (e : ecount) : ecount :=
  mkE (e_nfe e + length batch) (e_calls e ++ map m_sid (unevaluated batch)).

(* flags after the call: every member of the batch is evaluated (Problem.__call__ sets evaluated = True) *)
Definition flags_after (batch : list member) : list member :=
  map (fun m => (m_sid m, true)) batch.

(* one step = the batches it submits, in order *)
Definition eval_step (batches : list (list member)) (e : ecount) : ecount :=
  fold_left (fun acc b => evaluate_all b acc) batches e.

Definition step_size (batches : list (list member)) : nat :=
  fold_right (fun b acc => length b + acc) 0 batches.

Definition step_calls (batches : list (list member)) : nat :=
  fold_right (fun b acc => length (unevaluated b) + acc) 0 batches.

(* ------------------------------------------------------------------------- *)
(* 3. Batches submitted by each shipped algorithm, as a function of its       *)
(*    configuration                                                           *)
(* ------------------------------------------------------------------------- *)
Inductive akind :=
  | K_GA | K_ES | K_NSGAII | K_NSGAIII | K_EpsMOEA | K_EpsNSGAII | K_GDE3 | K_SPEA2
  | K_MOEAD | K_IBEA | K_PAES | K_PESA2 | K_OMOPSO | K_SMPSO | K_CMAES.

Record acfg := mkCfg {
  c_pop  : nat;   (* population_size / swarm_size / len(weights) (MOEAD) *)
  c_off  : nat;   (* offspring_size (GA, ES, CMAES) *)
  c_kids : nat;   (* number of solutions one variator.evolve(parents) call returns *)
  c_nsub : nat    (* MOEAD: number of sub-problems visited by one iterate (len(_get_subproblems())) *)
}.

(* offspring = []; while len(offspring) < target: offspring.extend(variator.evolve(parents))
   (algorithms.py:196-200, 323-327, 592-596, 991-995, 1638-1642, 1824-1831).
   Returns len(offspring) after the loop; None = the loop does not end (kids = 0). *)
Fixpoint fill_from (fuel len target kids : nat) : option nat :=
  if target <=? len then Some len
  else match fuel with
       | 0 => None
       | S f => fill_from f (len + kids) target kids
       end.
Definition fill (target kids : nat) : option nat := fill_from target 0 target kids.

Definition one (o : option nat) : option (list nat) :=
  match o with Some n => Some [n] | None => None end.

(* initialize(): sizes of the batches passed to evaluate_all *)
Definition init_batches (k : akind) (c : acfg) : option (list nat) :=
  match k with
  | K_PAES  => Some [1]             (* algorithms.py:1689 population_size = 1; 105-106 *)
  | K_CMAES => Some [c_off c]       (* algorithms.py:1418 initialize ends with self.iterate(); 1581-1582 *)
  | _       => Some [c_pop c]       (* algorithms.py:105-106, 708-709, 1063-1064 *)
  end.

(* iterate(): sizes of the batches passed to evaluate_all *)
Definition iterate_batches (k : akind) (c : acfg) : option (list nat) :=
  match k with
  | K_GA      => one (fill (c_off c) (c_kids c))                (* 198-202 *)
  | K_ES      => Some [c_off c * c_kids c]                      (* 252-256 *)
  | K_NSGAII | K_EpsNSGAII | K_NSGAIII | K_SPEA2 | K_IBEA | K_PESA2
              => one (fill (c_pop c) (c_kids c))                (* 325-329, 594-598, 993-997, 1640-1644, 1828-1833 *)
  | K_EpsMOEA => Some [c_kids c]                                (* 400-401 *)
  | K_GDE3    => Some [c_pop c * c_kids c]                      (* 485-489 *)
  | K_MOEAD   => Some (repeat (c_kids c) (c_nsub c))            (* 780-785: one batch per sub-problem *)
  | K_PAES    => Some [1]                                       (* 1711-1713 *)
  | K_OMOPSO | K_SMPSO => Some [c_pop c]                        (* 1080 *)
  | K_CMAES   => Some [c_off c]                                 (* 1581-1582 *)
  end.

(* step(): `if self.nfe == 0: initialize() else: iterate()`
   (algorithms.py:95-101, 302-311, 377-383, 1054-1060, 1205-1211, 1356-1362, 1694-1700, 1808-1814) *)
Definition step_batches (k : akind) (c : acfg) (nfe_now : nat) : option (list nat) :=
  if nfe_now =? 0 then init_batches k c else iterate_batches k c.

Definition sum_list (l : list nat) : nat := fold_right Nat.add 0 l.

(* configurations the constructors accept and on which the loops end *)
Definition cfg_ok (c : acfg) : bool :=
  (1 <=? c_pop c) && (1 <=? c_off c) && (1 <=? c_kids c) && (1 <=? c_nsub c).

(* the algorithm seen through its counter only: state = (configuration, nfe); a step adds the
   sizes of the submitted batches; a non-ending inner loop is a step that never returns, modelled
   as no progress (excluded by cfg_ok, see iterate_batches_nonempty). *)
Record astate := mkA { a_kind : akind; a_cfg : acfg; a_nfe : nat }.

Definition a_step (s : astate) : astate :=
  match step_batches (a_kind s) (a_cfg s) (a_nfe s) with
  | Some l => mkA (a_kind s) (a_cfg s) (a_nfe s + sum_list l)
  | None => s
  end.

Definition a_run (N : nat) (s : astate) : option astate :=
  run astate a_nfe (fun x => x) (fun x => x) (fun x => x) (fun x => x) a_step (fun x => x) N s.

(* ------------------------------------------------------------------------- *)
(* 4. The model instantiated with a logged trace (used by the harness)        *)
(* ------------------------------------------------------------------------- *)
(* state = counters + the steps still to be played; a step past the end of the log sets t_over
   (and still advances nfe so that the instance satisfies `progress`). *)
Record tstate := mkT { t_e : ecount; t_script : list (list (list member)); t_over : bool }.

Definition t_nfe (s : tstate) : nat := e_nfe (t_e s).

Definition t_step (s : tstate) : tstate :=
  match t_script s with
  | [] => mkT (mkE (S (t_nfe s)) (e_calls (t_e s))) [] true
  | b :: r => mkT (eval_step b (t_e s)) r (t_over s)
  end.

Definition t_run (N : nat) (s : tstate) : option tstate :=
  run tstate t_nfe (fun x => x) (fun x => x) (fun x => x) (fun x => x) t_step (fun x => x) N s.

Definition t_iter (k : nat) (s : tstate) : tstate :=
  iter tstate (fun x => x) (fun x => x) t_step (fun x => x) k s.

(* every logged step submits at least one solution *)
Definition script_ok (sc : list (list (list member))) : bool :=
  forallb (fun b => 1 <=? step_size b) sc.

(* ------------------------------------------------------------------------- *)
(* 5. Acceptance of a logged trace (evaluated by vm_compute in the harness)   *)
(* ------------------------------------------------------------------------- *)
Fixpoint nat_list_eqb (a b : list nat) : bool :=
  match a, b with
  | [], [] => true
  | x :: a', y :: b' => (x =? y) && nat_list_eqb a' b'
  | _, _ => false
  end.

Fixpoint nat_list_prefixb (a b : list nat) : bool :=
  match a, b with
  | [], _ => true
  | x :: a', y :: b' => (x =? y) && nat_list_prefixb a' b'
  | _, _ => false
  end.

(* identities the step hands to the problem function, in order *)
Definition step_called (batches : list (list member)) : list nat :=
  flat_map (fun b => map m_sid (unevaluated b)) batches.

(* one logged step *)
Record lstep := mkStep {
  l_batches : list (list member);   (* batches handed to Algorithm.evaluate_all during the step, in order *)
  l_nfe : nat;                      (* algorithm.nfe after the step (read in the run callback) *)
  l_called : list nat;              (* identities of the solutions the problem function was really called on *)
  l_cfg : acfg;                     (* configuration read from the algorithm object before the step *)
  l_skel : bool                     (* true: the batch sizes must follow step_batches *)
}.

(* one logged call of run(N) *)
Record lcall := mkCall { k_N : nat; k_steps : list lstep; k_nfe_end : nat }.

Definition is_eps_nsgaii (k : akind) : bool := match k with K_EpsNSGAII => true | _ => false end.

(* the batch sizes of a step follow the algorithm's skeleton; eps-NSGA-II's restart extension
   (extensions.py:205-233) may append one more batch in post_step *)
Definition skeleton_ok (k : akind) (c : acfg) (nfe_now : nat) (sizes : list nat) : bool :=
  match step_batches k c nfe_now with
  | None => false
  | Some l => if is_eps_nsgaii k then nat_list_prefixb l sizes else nat_list_eqb l sizes
  end.

Fixpoint check_steps (k : akind) (steps : list lstep) (s : tstate) : bool :=
  match steps with
  | [] => true
  | st :: r =>
      let s' := t_step s in
      (t_nfe s' =? l_nfe st)
      && nat_list_eqb (step_called (l_batches st)) (l_called st)
      && (if l_skel st then skeleton_ok k (l_cfg st) (t_nfe s) (map (@length member) (l_batches st)) else true)
      && check_steps k r s'
  end.

(* a call is accepted when the model's run(N), played on the logged steps, stops exactly where the
   implementation stopped (neither earlier nor later) with the logged counters *)
Definition accepts_call (k : akind) (c : lcall) (s : tstate) : option tstate :=
  match t_run (k_N c) s with
  | None => None
  | Some s' =>
      if negb (t_over s')
         && (length (t_script s') + length (k_steps c) =? length (t_script s))
         && (t_nfe s' =? k_nfe_end c)
         && check_steps k (k_steps c) s
      then Some s' else None
  end.

Fixpoint accepts_from (k : akind) (calls : list lcall) (s : tstate) : bool :=
  match calls with
  | [] => match t_script s with [] => negb (t_over s) | _ => false end
  | c :: r => match accepts_call k c s with
              | Some s' => accepts_from k r s'
              | None => false
              end
  end.

Definition script_of (calls : list lcall) : list (list (list member)) :=
  flat_map (fun c => map l_batches (k_steps c)) calls.

Definition accepts (k : akind) (calls : list lcall) : bool :=
  let sc := script_of calls in
  script_ok sc && accepts_from k calls (mkT (mkE 0 []) sc false).
