(* Model/Operators.v — literal, executable models of the DISCRETE variation operators
   and of the operator combinators of platypus/operators.py (repaired tree):

     BitFlip 680-711, HUX 713-742, Swap 744-776, PMX 778-845, Insertion 847-891,
     Replace 893-926 (non-members = ordered filter of `elements`, fix ec86276),
     SSX 928-962, GAOperator 243-260, CompoundMutation 262-282,
     CompoundOperator 284-309, Multimethod 964-1023, Mutation.evolve core.py:297-301,
     Solution.__deepcopy__ core.py:587-596.

   Executable definitions only (proofs: Proofs/OperatorsProofs.v).

   Conventions
   * a solution is {sid; vars; evaluated; payload}: [sid] is object identity, [payload]
     stands for every other field (objectives, constraints, violation, ...) that
     copy.deepcopy copies and no operator touches;
   * every model function takes the parents, a counter [fresh] for new identities and a
     tape, and returns children + next fresh identity + the rest of the tape, or an
     explicit error ([Err ETape] = tape exhausted / ill-typed, every other [err] = a
     Python exception);
   * "parents unchanged" is structural here (values are immutable); that the Python
     code does not write through its arguments is covered by harness/translate/framecheck.py
     and by the driver's deep snapshots, not by this model;
   * element type [E] with a boolean equality [eqb] (Python ==). *)
From Coq Require Import ZArith QArith Bool List Lia.
From PV Require Import Base.Num Base.FVal Base.Tape.
Import ListNotations.
Open Scope res_scope.

(* ------------------------------------------------------------------ data *)
Inductive var (E : Type) :=
  | VReal (x : fval)            (* Real: a float *)
  | VBits (b : list bool)       (* Binary / Integer: list of bool *)
  | VPerm (p : list E)          (* Permutation: list of elements *)
  | VSub (s : list E).          (* Subset: list of elements *)
Arguments VReal {E} _.
Arguments VBits {E} _.
Arguments VPerm {E} _.
Arguments VSub {E} _.

Inductive vtype (E : Type) :=
  | TReal (lb ub : xq)                       (* types.py Real(min_value, max_value) *)
  | TBinary (nbits : nat)                    (* Binary(nbits), Integer (a Binary subclass) *)
  | TPerm (elements : list E)                (* Permutation(elements) *)
  | TSubset (elements : list E) (size : nat).   (* Subset(elements, size) *)
Arguments TReal {E} _ _.
Arguments TBinary {E} _.
Arguments TPerm {E} _.
Arguments TSubset {E} _ _.

Record sol (E P : Type) := mkSol { sid : nat; vars : list (var E); evaluated : bool; payload : P }.
Arguments mkSol {E P} _ _ _ _.
Arguments sid {E P} _.
Arguments vars {E P} _.
Arguments evaluated {E P} _.
Arguments payload {E P} _.

(* `probability` parameters that follow the rule
     if isinstance(probability, int): probability /= <count>            (PM, UM, BitFlip) *)
Inductive prob := PInt (z : Z) | PFloat (q : xq).

Definition eff_prob (p : prob) (count : nat) : res xq :=
  match p with
  | PFloat q => Ok q
  | PInt z => match count with
              | O => Err EZeroDiv
              | S _ => Ok (Fin (Qmake z (Pos.of_nat count)))
              end
  end.

(* `x <= self.probability` on the raw parameter (int compared exactly with a float) *)
Definition raw_prob (p : prob) : xq := match p with PInt z => FZ z | PFloat q => q end.

(* ------------------------------------------------------------------ list helpers *)
Definition nth_res {A} (l : list A) (i : nat) : res A :=
  match nth_error l i with Some x => Ok x | None => Err EIndex end.

(* l[i] = x  (callers read l[i] first, so an out-of-range index was already an IndexError) *)
Fixpoint upd {A} (i : nat) (x : A) (l : list A) : list A :=
  match l with
  | [] => []
  | y :: r => match i with O => x :: r | S k => y :: upd k x r end
  end.

Section Ops.
  Variable E : Type.
  Variable P : Type.
  Variable eqb : E -> E -> bool.

  Notation var := (var E).
  Notation vtype := (vtype E).
  Notation sol := (sol E P).

  (* x in l / x in set(l) / x in dict *)
  Definition mem (x : E) (l : list E) : bool := existsb (eqb x) l.

  (* dict as association list, newest binding first: d[k] = v  is  (k,v) :: d *)
  Fixpoint lookup (x : E) (m : list (E * E)) : option E :=
    match m with
    | [] => None
    | (k, v) :: r => if eqb x k then Some v else lookup x r
    end.

  (* an operator and a mutation in the common contract *)
  Definition operator := nat -> list sol -> tape -> res (list sol * nat * tape).
  Definition mutation := nat -> sol -> tape -> res (sol * nat * tape).

  (* copy.deepcopy(parent): new identity, same fields (core.py:587-596) *)
  Definition deepcopy (fresh : nat) (p : sol) : sol :=
    mkSol fresh (vars p) (evaluated p) (payload p).

  (* the child after the loop: [written] = some block stored into `variables`
     and therefore executed `child.evaluated = False` *)
  Definition mk_child (fresh : nat) (p : sol) (vs : list var) (written : bool) : sol :=
    mkSol fresh vs (if written then false else evaluated p) (payload p).

  (* ---- the per-variable loop of a mutation:
         for i in range(problem.nvars): <step on problem.types[i], child.variables[i]>
     step returns Some v' when it stored v' (and cleared the flag), None when it left
     the variable alone *)
  Definition mstep := vtype -> var -> tape -> res (option var * tape).

  Fixpoint mut_loop (step : mstep) (ts : list vtype) (vs : list var) (t : tape)
    : res (list var * bool * tape) :=
    match ts with
    | [] => Ok (vs, false, t)
    | ty :: ts' =>
        match vs with
        | [] => Err EIndex
        | v :: vs' =>
            '(o, t1) <- step ty v t ;;
            '(vs'', w, t2) <- mut_loop step ts' vs' t1 ;;
            Ok (match o with Some v' => v' | None => v end :: vs'',
                (match o with Some _ => true | None => false end) || w, t2)
        end
    end.

  Definition mutation_of (step : mstep) (types : list vtype) : mutation :=
    fun fresh p t =>
      '(vs, w, t') <- mut_loop step types (vars p) t ;;
      Ok (mk_child fresh p vs w, S fresh, t').

  (* ---- the per-variable loop of a two-parent crossover *)
  Definition xstep := vtype -> var -> var -> tape -> res (option (var * var) * tape).

  Fixpoint cross_loop (step : xstep) (ts : list vtype) (v1 v2 : list var) (t : tape)
    : res (list var * list var * bool * tape) :=
    match ts with
    | [] => Ok (v1, v2, false, t)
    | ty :: ts' =>
        match v1, v2 with
        | a :: r1, b :: r2 =>
            '(o, t1) <- step ty a b t ;;
            '(r1', r2', w, t2) <- cross_loop step ts' r1 r2 t1 ;;
            Ok (match o with Some (a', _) => a' | None => a end :: r1',
                match o with Some (_, b') => b' | None => b end :: r2',
                (match o with Some _ => true | None => false end) || w, t2)
        | _, _ => Err EIndex
        end
    end.

  (* result1 = deepcopy(parents[0]); result2 = deepcopy(parents[1]); loop; return [result1, result2] *)
  Definition crossover_of (step : xstep) (types : list vtype) : operator :=
    fun fresh ps t =>
      p1 <- nth_res ps 0 ;;
      p2 <- nth_res ps 1 ;;
      '(v1, v2, w, t') <- cross_loop step types (vars p1) (vars p2) t ;;
      Ok ([mk_child fresh p1 v1 w; mk_child (S fresh) p2 v2 w], S (S fresh), t').

  (* the same with the whole loop under `if random.uniform(0.0, 1.0) <= self.probability:` (SBX, HUX) *)
  Definition guarded_crossover_of (p : xq) (step : xstep) (types : list vtype) : operator :=
    fun fresh ps t =>
      p1 <- nth_res ps 0 ;;
      p2 <- nth_res ps 1 ;;
      '(u, t0) <- get_unif t ;;
      if xleb u p then
        '(v1, v2, w, t') <- cross_loop step types (vars p1) (vars p2) t0 ;;
        Ok ([mk_child fresh p1 v1 w; mk_child (S fresh) p2 v2 w], S (S fresh), t')
      else Ok ([deepcopy fresh p1; deepcopy (S fresh) p2], S (S fresh), t0).

  (* ================================================================ BitFlip 694-711 *)
  (* for j in range(type.nbits):
         if random.uniform(0.0, 1.0) <= probability:
             result.variables[i][j] = not result.variables[i][j]; result.evaluated = False *)
  Fixpoint bitflip_bits (p : xq) (nbits : nat) (bits : list bool) (t : tape)
    : res (list bool * bool * tape) :=
    match nbits with
    | O => Ok (bits, false, t)
    | S k =>
        match bits with
        | [] => Err EIndex
        | b :: r =>
            '(u, t1) <- get_unif t ;;
            '(r', w, t2) <- bitflip_bits p k r t1 ;;
            if xleb u p then Ok (negb b :: r', true, t2) else Ok (b :: r', w, t2)
        end
    end.

  Definition bitflip_step (p : xq) : mstep := fun ty v t =>
    match ty with
    | TBinary nbits =>
        match v with
        | VBits bits =>
            '(bits', w, t') <- bitflip_bits p nbits bits t ;;
            Ok (if w then Some (VBits bits') else None, t')
        | _ => Err EType
        end
    | _ => Ok (None, t)
    end.

  (* sum([t.nbits for t in problem.types if isinstance(t, Binary)]) *)
  Fixpoint total_nbits (ts : list vtype) : nat :=
    match ts with
    | [] => O
    | TBinary n :: r => (n + total_nbits r)%nat
    | _ :: r => total_nbits r
    end.

  Definition bitflip (pr : prob) (types : list vtype) : mutation :=
    fun fresh p t =>
      pe <- eff_prob pr (total_nbits types) ;;
      mutation_of (bitflip_step pe) types fresh p t.

  (* ================================================================ HUX 726-742 *)
  (* for j in range(nbits):
         if result1.variables[i][j] != result2.variables[i][j]:
             if bool(random.getrandbits(1)): flip both, both evaluated = False *)
  Fixpoint hux_bits (nbits : nat) (b1 b2 : list bool) (t : tape)
    : res (list bool * list bool * bool * tape) :=
    match nbits with
    | O => Ok (b1, b2, false, t)
    | S k =>
        match b1, b2 with
        | x :: r1, y :: r2 =>
            if negb (Bool.eqb x y) then
              '(c, t1) <- get_bit t ;;
              '(r1', r2', w, t2) <- hux_bits k r1 r2 t1 ;;
              if c then Ok (negb x :: r1', negb y :: r2', true, t2)
              else Ok (x :: r1', y :: r2', w, t2)
            else
              '(r1', r2', w, t2) <- hux_bits k r1 r2 t ;;
              Ok (x :: r1', y :: r2', w, t2)
        | _, _ => Err EIndex
        end
    end.

  Definition hux_step : xstep := fun ty v1 v2 t =>
    match ty with
    | TBinary nbits =>
        match v1, v2 with
        | VBits b1, VBits b2 =>
            '(b1', b2', w, t') <- hux_bits nbits b1 b2 t ;;
            Ok (if w then Some (VBits b1', VBits b2') else None, t')
        | _, _ => Err EType
        end
    | _ => Ok (None, t)
    end.

  Definition hux (p : xq) (types : list vtype) : operator :=
    guarded_crossover_of p hux_step types.

  (* ================================================================ two distinct indices
     i = random.randrange(n); j = random.randrange(n)
     if n > 1:
         while i == j: j = random.randrange(n)                        (Swap 766-771,
                                                       Insertion 871-876, PMX 805-810) *)
  Fixpoint redraw (fuel n i j : nat) (t : tape) : res (nat * tape) :=
    if Nat.eqb i j then
      match fuel with
      | O => Err EFuel
      | S f => '(j', t') <- get_idx n t ;; redraw f n i j' t'
      end
    else Ok (j, t).

  (* fuel = 1 + length of the tape: every iteration consumes one draw, so the fuel cannot run out
     before the tape does *)
  Definition draw_two (n : nat) (t : tape) : res (nat * nat * tape) :=
    '(i, t1) <- get_idx n t ;;
    '(j, t2) <- get_idx n t1 ;;
    if Nat.ltb 1 n then
      '(j', t3) <- redraw (S (length t2)) n i j t2 ;; Ok (i, j', t3)
    else Ok (i, j, t2).

  (* ================================================================ Swap 759-776 *)
  Definition swap_step (p : xq) : mstep := fun ty v t =>
    match ty with
    | TPerm _ =>
        '(u, t1) <- get_unif t ;;
        if xleb u p then
          match v with
          | VPerm perm =>
              '(i, j, t2) <- draw_two (length perm) t1 ;;
              x <- nth_res perm i ;;          (* old permutation[i] *)
              y <- nth_res perm j ;;          (* old permutation[j] *)
              (* permutation[i], permutation[j] = permutation[j], permutation[i] *)
              Ok (Some (VPerm (upd j x (upd i y perm))), t2)
          | _ => Err EType
          end
        else Ok (None, t1)
    | _ => Ok (None, t)
    end.

  Definition swap (p : xq) (types : list vtype) : mutation := mutation_of (swap_step p) types.

  (* ================================================================ Insertion 864-891 *)
  (* for k in range(i+1, j+1): permutation[k-1] = permutation[k]      (cnt = j - i iterations) *)
  Fixpoint shift_down (l : list E) (k cnt : nat) : res (list E) :=
    match cnt with
    | O => Ok l
    | S c => x <- nth_res l k ;; shift_down (upd (k - 1) x l) (S k) c
    end.
  (* for k in range(i-1, j-1, -1): permutation[k+1] = permutation[k]  (cnt = i - j iterations) *)
  Fixpoint shift_up (l : list E) (k cnt : nat) : res (list E) :=
    match cnt with
    | O => Ok l
    | S c => x <- nth_res l k ;; shift_up (upd (S k) x l) (k - 1) c
    end.

  Definition insert_at (perm : list E) (i j : nat) : res (list E) :=
    temp <- nth_res perm i ;;
    l <- (if Nat.ltb i j then shift_down perm (S i) (j - i)
          else if Nat.ltb j i then shift_up perm (i - 1) (i - j)
          else Ok perm) ;;
    Ok (upd j temp l).

  Definition insertion_step (p : xq) : mstep := fun ty v t =>
    match ty with
    | TPerm _ =>
        '(u, t1) <- get_unif t ;;
        if xleb u p then
          match v with
          | VPerm perm =>
              '(i, j, t2) <- draw_two (length perm) t1 ;;
              l <- insert_at perm i j ;;
              Ok (Some (VPerm l), t2)
          | _ => Err EType
          end
        else Ok (None, t1)
    | _ => Ok (None, t)
    end.

  Definition insertion (p : xq) (types : list vtype) : mutation := mutation_of (insertion_step p) types.

  (* ================================================================ PMX 791-845 *)
  (* for i in range(cp1, cp2+1):
         o1[i] = p2[i]; o2[i] = p1[i]
         replacement1[p2[i]] = p1[i]; replacement2[p1[i]] = p2[i] *)
  Fixpoint pmx_maps (p1 p2 : list E) (i cnt : nat) (r1 r2 : list (E * E))
    : res (list (E * E) * list (E * E)) :=
    match cnt with
    | O => Ok (r1, r2)
    | S c =>
        a <- nth_res p1 i ;;
        b <- nth_res p2 i ;;
        pmx_maps p1 p2 (S i) c ((b, a) :: r1) ((a, b) :: r2)
    end.

  (* while n1 in replacement1: n1 = replacement1[n1]      — on fuel *)
  Fixpoint chase (fuel : nat) (m : list (E * E)) (x : E) : res E :=
    match fuel with
    | O => Err EFuel
    | S f => match lookup x m with
             | None => Ok x
             | Some y => chase f m y
             end
    end.

  (* o1[i], o2[i] for i = i0 .. i0+cnt-1 : inside the cut the exchanged element,
     outside it the end of the replacement chain (fuel n+1) *)
  Fixpoint pmx_fill (p1 p2 : list E) (cp1 cp2 n : nat) (r1 r2 : list (E * E)) (i cnt : nat)
    : res (list E * list E) :=
    match cnt with
    | O => Ok ([], [])
    | S c =>
        a <- nth_res p1 i ;;
        b <- nth_res p2 i ;;
        '(x1, x2) <- (if Nat.ltb i cp1 || Nat.ltb cp2 i then
                        n1 <- chase (S n) r1 a ;;
                        n2 <- chase (S n) r2 b ;;
                        Ok (n1, n2)
                      else Ok (b, a)) ;;
        '(o1, o2) <- pmx_fill p1 p2 cp1 cp2 n r1 r2 (S i) c ;;
        Ok (x1 :: o1, x2 :: o2)
    end.

  (* given the two cut points (already ordered) *)
  Definition pmx_cut (p1 p2 : list E) (cp1 cp2 : nat) : res (list E * list E) :=
    let n := length p1 in
    '(r1, r2) <- pmx_maps p1 p2 cp1 (S cp2 - cp1) [] [] ;;
    pmx_fill p1 p2 cp1 cp2 n r1 r2 0 n.

  Definition pmx_lists (p1 p2 : list E) (t : tape) : res (list E * list E * tape) :=
    '(c1, c2, t1) <- draw_two (length p1) t ;;
    (* if cp1 > cp2: cp1, cp2 = cp2, cp1 *)
    let cp1 := if Nat.ltb c2 c1 then c2 else c1 in
    let cp2 := if Nat.ltb c2 c1 then c1 else c2 in
    '(o1, o2) <- pmx_cut p1 p2 cp1 cp2 ;;
    Ok (o1, o2, t1).

  Definition pmx_step (p : xq) : xstep := fun ty v1 v2 t =>
    match ty with
    | TPerm _ =>
        '(u, t1) <- get_unif t ;;
        if xleb u p then
          match v1, v2 with
          | VPerm p1, VPerm p2 =>
              '(o1, o2, t2) <- pmx_lists p1 p2 t1 ;;
              Ok (Some (VPerm o1, VPerm o2), t2)
          | _, _ => Err EType
          end
        else Ok (None, t1)
    | _ => Ok (None, t)
    end.

  Definition pmx (p : xq) (types : list vtype) : operator := crossover_of (pmx_step p) types.

  (* ================================================================ Replace 909-926 (repaired) *)
  (* members = set(subset); nonmembers = [e for e in elements if e not in members] *)
  Definition nonmembers (elements subset : list E) : list E :=
    filter (fun e => negb (mem e subset)) elements.

  Definition replace_step (p : xq) : mstep := fun ty v t =>
    match ty with
    | TSubset elements _ =>
        '(u, t1) <- get_unif t ;;
        if xleb u p then
          match v with
          | VSub subset =>
              if Nat.ltb (length subset) (length elements) then
                '(i, t2) <- get_idx (length subset) t1 ;;
                let nm := nonmembers elements subset in
                '(j, t3) <- get_idx (length nm) t2 ;;
                x <- nth_res nm j ;;
                Ok (Some (VSub (upd i x subset)), t3)
              else Ok (None, t1)
          | _ => Err EType
          end
        else Ok (None, t1)
    | _ => Ok (None, t)
    end.

  Definition replace (p : xq) (types : list vtype) : mutation := mutation_of (replace_step p) types.

  (* ================================================================ SSX 943-962 *)
  (* s1 = set(result1.variables[i]); s2 = set(result2.variables[i])     — BEFORE the loop, never updated
     for j in range(size):
         if r2[j] not in s1 and r1[j] not in s2 and random.uniform(0.0, 1.0) < 0.5: swap r1[j], r2[j] *)
  Definition half : xq := F 1 (-1).

  Fixpoint ssx_loop (s1 s2 : list E) (size : nat) (l1 l2 : list E) (t : tape)
    : res (list E * list E * tape) :=
    match size with
    | O => Ok (l1, l2, t)
    | S k =>
        match l1, l2 with
        | a :: r1, b :: r2 =>
            '(sw, t1) <- (if negb (mem b s1) && negb (mem a s2)
                          then '(u, t') <- get_unif t ;; Ok (xltb u half, t')
                          else Ok (false, t)) ;;
            '(r1', r2', t2) <- ssx_loop s1 s2 k r1 r2 t1 ;;
            Ok ((if sw then b else a) :: r1', (if sw then a else b) :: r2', t2)
        | _, _ => Err EIndex
        end
    end.

  (* the flag is cleared for the whole block, swapped or not (959-960) *)
  Definition ssx_step (p : xq) : xstep := fun ty v1 v2 t =>
    match ty with
    | TSubset _ size =>
        '(u, t1) <- get_unif t ;;
        if xleb u p then
          match v1, v2 with
          | VSub a, VSub b =>
              '(a', b', t2) <- ssx_loop a b size a b t1 ;;
              Ok (Some (VSub a', VSub b'), t2)
          | _, _ => Err EType
          end
        else Ok (None, t1)
    | _ => Ok (None, t)
    end.

  Definition ssx (p : xq) (types : list vtype) : operator := crossover_of (ssx_step p) types.

  (* ================================================================ combinators *)
  Record member := mkMember { m_arity : nat; m_evolve : operator }.

  (* Mutation.evolve(parents) on a list: list(map(self.mutate, parents))      core.py:297-301 *)
  Fixpoint map_mutate (m : mutation) (fresh : nat) (ps : list sol) (t : tape)
    : res (list sol * nat * tape) :=
    match ps with
    | [] => Ok ([], fresh, t)
    | p :: r =>
        '(c, f1, t1) <- m fresh p t ;;
        '(cs, f2, t2) <- map_mutate m f1 r t1 ;;
        Ok (c :: cs, f2, t2)
    end.

  Definition member_of_mutation (m : mutation) : member := mkMember 1 (map_mutate m).

  (* GAOperator.evolve: list(map(self.mutation.evolve, self.variation.evolve(parents)))   259-260
     (mutation.evolve on a bare Solution is mutation.mutate) *)
  Definition ga_operator (variation : operator) (m : mutation) : operator :=
    fun fresh ps t =>
      '(cs, f1, t1) <- variation fresh ps t ;;
      map_mutate m f1 cs t1.

  (* CompoundMutation.mutate: result = parent; for mutator in mutators: result = mutator.mutate(result)  276-282 *)
  Fixpoint compound_mutation (ms : list mutation) : mutation :=
    fun fresh p t =>
      match ms with
      | [] => Ok (p, fresh, t)
      | m :: r => '(c, f1, t1) <- m fresh p t ;; compound_mutation r f1 c t1
      end.

  (* list(map(variator.evolve, offspring)) for an arity-1 variator: each call gets ONE solution *)
  Fixpoint map_each (op : operator) (fresh : nat) (ps : list sol) (t : tape)
    : res (list sol * nat * tape) :=
    match ps with
    | [] => Ok ([], fresh, t)
    | p :: r =>
        '(c, f1, t1) <- op fresh [p] t ;;
        '(cs, f2, t2) <- map_each op f1 r t1 ;;
        Ok (c ++ cs, f2, t2)
    end.

  (* CompoundOperator.evolve 298-309 *)
  Fixpoint compound_operator (vs : list member) (fresh : nat) (offspring : list sol) (t : tape)
    : res (list sol * nat * tape) :=
    match vs with
    | [] => Ok (offspring, fresh, t)
    | v :: r =>
        if Nat.eqb (m_arity v) (length offspring) then
          '(o, f1, t1) <- m_evolve v fresh offspring t ;; compound_operator r f1 o t1
        else if Nat.eqb (m_arity v) 1 && Nat.leb 1 (length offspring) then
          '(o, f1, t1) <- map_each (m_evolve v) fresh offspring t ;; compound_operator r f1 o t1
        else Err EArity
    end.

  (* Multimethod.evolve 1015-1023: run variators[next_variator], tag the offspring
     (solution.operator = next — a fresh attribute of the offspring, no modelled field),
     then select(): the roulette result is one index draw.  Returns the new next_variator. *)
  Definition multimethod (vs : list member) (next : nat) (fresh : nat) (ps : list sol) (t : tape)
    : res (list sol * nat * nat * tape) :=
    v <- nth_res vs next ;;
    '(cs, f1, t1) <- m_evolve v fresh ps t ;;
    '(nx, t2) <- get_idx (length vs) t1 ;;
    Ok (cs, nx, f1, t2).

  (* ================================================================ validity (in-domain predicates) *)
  Definition count (x : E) (l : list E) : nat := length (filter (eqb x) l).

  Fixpoint nodupb (l : list E) : bool :=
    match l with [] => true | x :: r => negb (mem x r) && nodupb r end.

  Definition is_permb (elements p : list E) : bool :=
    Nat.eqb (length elements) (length p)
    && forallb (fun e => Nat.eqb (count e elements) (count e p)) elements
    && forallb (fun e => mem e elements) p.

  Definition in_domainb (ty : vtype) (v : var) : bool :=
    match ty, v with
    | TReal lb ub, VReal x => in_boundsb lb ub x
    | TBinary n, VBits b => Nat.eqb (length b) n
    | TPerm els, VPerm p => is_permb els p
    | TSubset els k, VSub s => nodupb s && Nat.eqb (length s) k && forallb (fun e => mem e els) s
    | _, _ => false
    end.

  Fixpoint all_in_domainb (ts : list vtype) (vs : list var) : bool :=
    match ts, vs with
    | [], [] => true
    | ty :: ts', v :: vs' => in_domainb ty v && all_in_domainb ts' vs'
    | _, _ => false
    end.
End Ops.

Arguments mkMember {E P} _ _.
Arguments m_arity {E P} _.
Arguments m_evolve {E P} _.
