(* Model/ProblemsRef.v — the PUBLISHED formulas of the benchmark problems, written from the papers and
   independently of platypus/problems.py and of the generated coq/Gen/Problems.v.  Definitions only.

   ZDT   E. Zitzler, K. Deb, L. Thiele, "Comparison of multiobjective evolutionary algorithms: empirical
         results", Evolutionary Computation 8(2), 2000, section 4 (T1..T4, T6).
   DTLZ  K. Deb, L. Thiele, M. Laumanns, E. Zitzler, "Scalable test problems for evolutionary multiobjective
         optimization", 2002/2005, sections 6.1-6.4, 6.7.
   UF    Q. Zhang et al., "Multiobjective optimization test instances for the CEC 2009 special session and
         competition", technical report CES-487, section 2 (UF1-UF4, UF7).
   WFG   S. Huband, P. Hingston, L. Barone, L. While, "A review of multiobjective test problems and a scalable
         test problem toolkit", IEEE TEC 10(5), 2006, tables VIII-X (shape functions, f_m = D x_M + S_m h_m).

   Conventions.  The papers index variables x_1..x_n and objectives f_1..f_M; lists here are 0-based, so
   x_i of the paper is [nth (i-1) x 0] and is written X x (i-1) below; the list of objectives is
   [f_1; ...; f_M].  n = length x.  big_sum f n = f 0 + ... + f (n-1), big_prod likewise (Base/RList.v).
   Fractional powers are written with sqrt where the paper's exponent is 1/2 or 1/4. *)
From Coq Require Import Reals List ZArith.
Import ListNotations.
From PV Require Import Base.RList.
Open Scope R_scope.

Definition X (x : list R) (i : nat) : R := nth i x 0.

(* the declared decision space of ZDT1-4,6, DTLZ1-7 as implemented: every variable in [0,1] *)
Definition in01 (x : list R) : Prop := Forall (fun t => 0 <= t <= 1) x.

(* ------------------------------------------------------------------ ZDT (n variables, 2 objectives) *)
(* g(x) = 1 + 9 (sum_{i=2..n} x_i) / (n - 1)                                  [T1, T2, T3] *)
Definition zdt_g123 (x : list R) : R :=
  1 + 9 * big_sum (fun i => X x (S i)) (length x - 1) / (INR (length x) - 1).
(* g(x) = 1 + 10 (n - 1) + sum_{i=2..n} (x_i^2 - 10 cos(4 pi x_i))           [T4] *)
Definition zdt_g4 (x : list R) : R :=
  1 + 10 * (INR (length x) - 1) + big_sum (fun i => X x (S i) ^ 2 - 10 * cos (4 * PI * X x (S i))) (length x - 1).
(* g(x) = 1 + 9 ((sum_{i=2..n} x_i) / (n - 1))^(1/4)                          [T6] *)
Definition zdt_g6 (x : list R) : R :=
  1 + 9 * sqrt (sqrt (big_sum (fun i => X x (S i)) (length x - 1) / (INR (length x) - 1))).

(* f2 = g * h(f1, g) *)
Definition zdt_h1 (f1 g : R) : R := 1 - sqrt (f1 / g).                          (* T1, T4 *)
Definition zdt_h2 (f1 g : R) : R := 1 - (f1 / g) ^ 2.                           (* T2, T6 *)
Definition zdt_h3 (f1 g : R) : R := 1 - sqrt (f1 / g) - (f1 / g) * sin (10 * PI * f1).   (* T3 *)
Definition zdt6_f1 (x : list R) : R := 1 - exp (- 4 * X x 0) * sin (6 * PI * X x 0) ^ 6.

Definition zdt1_ref (x : list R) : list R := [X x 0; zdt_g123 x * zdt_h1 (X x 0) (zdt_g123 x)].
Definition zdt2_ref (x : list R) : list R := [X x 0; zdt_g123 x * zdt_h2 (X x 0) (zdt_g123 x)].
Definition zdt3_ref (x : list R) : list R := [X x 0; zdt_g123 x * zdt_h3 (X x 0) (zdt_g123 x)].
Definition zdt4_ref (x : list R) : list R := [X x 0; zdt_g4 x * zdt_h1 (X x 0) (zdt_g4 x)].
Definition zdt6_ref (x : list R) : list R := [zdt6_f1 x; zdt_g6 x * zdt_h2 (zdt6_f1 x) (zdt_g6 x)].

(* ------------------------------------------------------------------ DTLZ (M objectives, n variables) *)
(* x_M = the last k = n - M + 1 variables, i.e. X x (M-1) .. X x (n-1) *)
Definition dtlz_k (x : list R) (M : nat) : nat := (length x - (M - 1))%nat.
Definition dtlz_tail_sum (h : R -> R) (x : list R) (M : nat) : R :=
  big_sum (fun j => h (X x (M - 1 + j))) (dtlz_k x M).
(* g = 100 (|x_M| + sum_{x_i in x_M} ((x_i - 1/2)^2 - cos(20 pi (x_i - 1/2))))        [DTLZ1, DTLZ3] *)
Definition dtlz_g13 (x : list R) (M : nat) : R :=
  100 * (INR (dtlz_k x M) + dtlz_tail_sum (fun t => (t - 1 / 2) ^ 2 - cos (20 * PI * (t - 1 / 2))) x M).
(* g = sum_{x_i in x_M} (x_i - 1/2)^2                                                  [DTLZ2, DTLZ4] *)
Definition dtlz_g24 (x : list R) (M : nat) : R :=
  dtlz_tail_sum (fun t => (t - 1 / 2) ^ 2) x M.
(* g = 1 + 9/|x_M| sum_{x_i in x_M} x_i                                                [DTLZ7] *)
Definition dtlz_g7 (x : list R) (M : nat) : R :=
  1 + 9 / INR (dtlz_k x M) * dtlz_tail_sum (fun t => t) x M.

(* DTLZ1:  f_1 = 1/2 x_1 ... x_{M-1} (1+g),  f_m = 1/2 x_1 ... x_{M-m} (1 - x_{M-m+1}) (1+g),  f_M = 1/2 (1 - x_1)(1+g).
   0-based objective index i = m - 1: product of the first M-1-i variables, then (1 - x) of the next one unless i = 0 *)
Definition dtlz_lin (M : nat) (x : list R) (i : nat) : R :=
  big_prod (fun j => X x j) (M - 1 - i) * (if Nat.eqb i 0 then 1 else 1 - X x (M - 1 - i)).
Definition dtlz1_ref (M : nat) (x : list R) : list R :=
  map (fun i => 1 / 2 * (1 + dtlz_g13 x M) * dtlz_lin M x i) (seq 0 M).

(* DTLZ2:  f_1 = (1+g) cos(th_1) ... cos(th_{M-1}),  f_m = (1+g) cos(th_1) ... cos(th_{M-m}) sin(th_{M-m+1}),
           f_M = (1+g) sin(th_1),   th_i = x_i pi/2      (DTLZ4: th_i = x_i^alpha pi/2) *)
Definition dtlz_sph (M : nat) (th : nat -> R) (i : nat) : R :=
  big_prod (fun j => cos (th j)) (M - 1 - i) * (if Nat.eqb i 0 then 1 else sin (th (M - 1 - i)%nat)).
Definition dtlz2_ref (M : nat) (x : list R) : list R :=
  map (fun i => (1 + dtlz_g24 x M) * dtlz_sph M (fun j => X x j * PI / 2) i) (seq 0 M).
Definition dtlz3_ref (M : nat) (x : list R) : list R :=
  map (fun i => (1 + dtlz_g13 x M) * dtlz_sph M (fun j => X x j * PI / 2) i) (seq 0 M).
(* DTLZ4: th_i = x_i^alpha pi/2 for the constructor parameter alpha (default 100); x^alpha is the real power py_rpow
   (Base/RList.v: 0^alpha = 0 for alpha > 0, x^alpha = exp(alpha ln x) for x > 0; equal to x^n for a natural number alpha = n) *)
Definition dtlz4_ref (M : nat) (alpha : R) (x : list R) : list R :=
  map (fun i => (1 + dtlz_g24 x M) * dtlz_sph M (fun j => py_rpow (X x j) alpha * PI / 2) i) (seq 0 M).

(* DTLZ7:  f_i = x_i (i < M),  f_M = (1+g) h,  h = M - sum_{i<M} f_i/(1+g) (1 + sin(3 pi f_i)) *)
Definition dtlz7_h (x : list R) (M : nat) : R :=
  INR M - big_sum (fun i => X x i / (1 + dtlz_g7 x M) * (1 + sin (3 * PI * X x i))) (M - 1).
Definition dtlz7_ref (M : nat) (x : list R) : list R :=
  map (fun i => X x i) (seq 0 (M - 1)) ++ [(1 + dtlz_g7 x M) * dtlz7_h x M].

(* sums appearing in the front statements *)
Definition sum_of (f : list R) : R := big_sum (fun i => nth i f 0) (length f).
Definition sumsq_of (f : list R) : R := big_sum (fun i => nth i f 0 ^ 2) (length f).

(* ------------------------------------------------------------------ UF1-4, UF7 (CEC 2009; n variables, 2 objectives)
   J1 = { j odd, 2 <= j <= n },  J2 = { j even, 2 <= j <= n }  (1-based j).  With j = 2 + t (t = 0 .. n-2):
   j odd <-> t odd.  sumJ sel y = sum over t in 0..n-2 with (t odd) = sel of y (t + 2); cntJ its cardinality. *)
Definition sumJ (odd : bool) (y : nat -> R) (n : nat) : R :=
  big_sum (fun t => if Bool.eqb (Nat.odd t) odd then y (t + 2)%nat else 0) (n - 1).
Definition prodJ (odd : bool) (y : nat -> R) (n : nat) : R :=
  big_prod (fun t => if Bool.eqb (Nat.odd t) odd then y (t + 2)%nat else 1) (n - 1).
Definition cntJ (odd : bool) (n : nat) : R :=
  big_sum (fun t => if Bool.eqb (Nat.odd t) odd then 1 else 0) (n - 1).

(* y_j of UF1, UF4, UF7:  x_j - sin(6 pi x_1 + j pi / n) *)
Definition uf_y1 (x : list R) (j : nat) : R := X x (j - 1) - sin (6 * PI * X x 0 + INR j * PI / INR (length x)).
(* UF2: J1: x_j - [0.3 x_1^2 cos(24 pi x_1 + 4 j pi/n) + 0.6 x_1] cos(6 pi x_1 + j pi/n);  J2: ... sin(6 pi x_1 + j pi/n) *)
Definition uf2_y (x : list R) (j : nat) : R :=
  let a := 3 / 10 * X x 0 ^ 2 * cos (24 * PI * X x 0 + 4 * INR j * PI / INR (length x)) + 6 / 10 * X x 0 in
  let ph := 6 * PI * X x 0 + INR j * PI / INR (length x) in
  X x (j - 1) - a * (if Nat.odd j then cos ph else sin ph).
(* UF4: h(t) = |t| / (1 + e^{2|t|}) *)
Definition uf4_h (t : R) : R := Rabs t / (1 + exp (2 * Rabs t)).

Definition uf1_ref (x : list R) : list R :=
  let n := length x in
  [X x 0 + 2 / cntJ true n * sumJ true (fun j => uf_y1 x j ^ 2) n;
   1 - sqrt (X x 0) + 2 / cntJ false n * sumJ false (fun j => uf_y1 x j ^ 2) n].
Definition uf2_ref (x : list R) : list R :=
  let n := length x in
  [X x 0 + 2 / cntJ true n * sumJ true (fun j => uf2_y x j ^ 2) n;
   1 - sqrt (X x 0) + 2 / cntJ false n * sumJ false (fun j => uf2_y x j ^ 2) n].
Definition uf4_ref (x : list R) : list R :=
  let n := length x in
  [X x 0 + 2 / cntJ true n * sumJ true (fun j => uf4_h (uf_y1 x j)) n;
   1 - X x 0 ^ 2 + 2 / cntJ false n * sumJ false (fun j => uf4_h (uf_y1 x j)) n].

(* UF3: y_j = x_j - x_1^(0.5 (1 + 3 (j - 2)/(n - 2)));  f1 = x1 + 2/|J1| (4 sum y_j^2 - 2 prod cos(20 y_j pi / sqrt j) + 2).
   Real powers with a non-integer exponent are written with py_rpow (Base/RList.v: 0^b = 0 for b > 0, a^b = exp(b ln a) for a > 0). *)
Definition uf3_y (x : list R) (j : nat) : R :=
  X x (j - 1) - py_rpow (X x 0) (1 / 2 * (1 + 3 * (INR j - 2) / (INR (length x) - 2))).
Definition uf3_ref (x : list R) : list R :=
  let n := length x in
  let term odd := 4 * sumJ odd (fun j => uf3_y x j ^ 2) n - 2 * prodJ odd (fun j => cos (20 * uf3_y x j * PI / sqrt (INR j))) n + 2 in
  [X x 0 + 2 / cntJ true n * term true; 1 - sqrt (X x 0) + 2 / cntJ false n * term false].
(* UF7: f1 = x1^0.2 + 2/|J1| sum y_j^2,  f2 = 1 - x1^0.2 + 2/|J2| sum y_j^2 *)
Definition uf7_ref (x : list R) : list R :=
  let n := length x in
  [py_rpow (X x 0) (1 / 5) + 2 / cntJ true n * sumJ true (fun j => uf_y1 x j ^ 2) n;
   1 - py_rpow (X x 0) (1 / 5) + 2 / cntJ false n * sumJ false (fun j => uf_y1 x j ^ 2) n].

(* ------------------------------------------------------------------ WFG shape functions (M objectives, x in [0,1]^M)
   concave_1 = prod_{i=1..M-1} sin(x_i pi/2);  concave_m = prod_{i=1..M-m} sin(x_i pi/2) cos(x_{M-m+1} pi/2);
   concave_M = cos(x_1 pi/2).   0-based m0 = m - 1. *)
Definition wfg_concave (M : nat) (x : list R) (m0 : nat) : R :=
  big_prod (fun j => sin (X x j * PI / 2)) (M - 1 - m0) * (if Nat.eqb m0 0 then 1 else cos (X x (M - 1 - m0) * PI / 2)).
(* f_m = D x_M + S_m h_m with D = 1, S_m = 2m *)
Definition wfg4_shape_ref (x : list R) : list R :=
  let M := length x in
  map (fun m0 => 1 * X x (M - 1) + 2 * INR (S m0) * wfg_concave M x m0) (seq 0 M).

(* sum_m (f_m / (2 m))^2, the quantity of the WFG4-9 front statement (m 1-based, list 0-based) *)
Definition wfg_scaled_sumsq (f : list R) : R := big_sum (fun i => (nth i f 0 / (2 * INR (S i))) ^ 2) (length f).

(* the WFG decision space: 0 <= z_i <= 2i (i 1-based) *)
Definition wfg_box (z : list R) : Prop := forall i, (i < length z)%nat -> 0 <= nth i z 0 <= 2 * INR (S i).

(* ------------------------------------------------------------------ UF5, UF6, CF1, CF3 (CEC 2009 report) *)
(* UF5: N = 10, eps = 0.1, h(t) = 2 t^2 - cos(4 pi t) + 1, f1 = x1 + (1/(2N) + eps) |sin(2 N pi x1)| + 2/|J1| sum h(y_j) *)
Definition uf5_h (t : R) : R := 2 * t ^ 2 - cos (4 * PI * t) + 1.
Definition uf5_ref (x : list R) : list R :=
  let n := length x in
  let bump := (1 / (2 * 10) + 1 / 10) * Rabs (sin (2 * 10 * PI * X x 0)) in
  [X x 0 + bump + 2 / cntJ true n * sumJ true (fun j => uf5_h (uf_y1 x j)) n;
   1 - X x 0 + bump + 2 / cntJ false n * sumJ false (fun j => uf5_h (uf_y1 x j)) n].
(* UF6: N = 2, eps = 0.1, f1 = x1 + max{0, 2 (1/(2N) + eps) sin(2 N pi x1)} + 2/|J1| (4 sum y_j^2 - 2 prod cos(20 y_j pi/sqrt j) + 2) *)
Definition uf6_ref (x : list R) : list R :=
  let n := length x in
  let bump := Rmax 0 (2 * (1 / (2 * 2) + 1 / 10) * sin (2 * 2 * PI * X x 0)) in
  let term odd := 4 * sumJ odd (fun j => uf_y1 x j ^ 2) n - 2 * prodJ odd (fun j => cos (20 * uf_y1 x j * PI / sqrt (INR j))) n + 2 in
  [X x 0 + bump + 2 / cntJ true n * term true; 1 - X x 0 + bump + 2 / cntJ false n * term false].
(* CF1: N = 10, a = 1; y_j as in UF3; constraint f1 + f2 - a |sin(N pi (f1 - f2 + 1))| - 1 >= 0 *)
Definition cf1_objs (x : list R) : list R :=
  let n := length x in
  [X x 0 + 2 / cntJ true n * sumJ true (fun j => uf3_y x j ^ 2) n; 1 - X x 0 + 2 / cntJ false n * sumJ false (fun j => uf3_y x j ^ 2) n].
Definition cf1_constr (x : list R) : list R :=
  let f1 := nth 0 (cf1_objs x) 0 in let f2 := nth 1 (cf1_objs x) 0 in
  [f1 + f2 - 1 * Rabs (sin (10 * PI * (f1 - f2 + 1))) - 1].
(* CF3: N = 2, a = 1; y_j as in UF1; f2 = 1 - x1^2 + ...; constraint f2 + f1^2 - a sin(N pi (f1^2 - f2 + 1)) - 1 >= 0 *)
Definition cf3_objs (x : list R) : list R :=
  let n := length x in
  let term odd := 4 * sumJ odd (fun j => uf_y1 x j ^ 2) n - 2 * prodJ odd (fun j => cos (20 * uf_y1 x j * PI / sqrt (INR j))) n + 2 in
  [X x 0 + 2 / cntJ true n * term true; 1 - X x 0 ^ 2 + 2 / cntJ false n * term false].
Definition cf3_constr (x : list R) : list R :=
  let f1 := nth 0 (cf3_objs x) 0 in let f2 := nth 1 (cf3_objs x) 0 in
  [f2 + f1 ^ 2 - 1 * sin (2 * PI * (f1 ^ 2 - f2 + 1)) - 1].

(* ------------------------------------------------------------------ UF8-10, CF8-10 (CEC 2009; n variables, 3 objectives)
   J1 = { j : 3 <= j <= n, j - 1 multiple of 3 }, J2 = { j - 2 multiple of 3 }, J3 = { j multiple of 3 }; i.e. J_r = { j mod 3 = r mod 3 }.
   With j = t + 3 (t = 0 .. n-3): sumK r y n = sum over those t with (t+3) mod 3 = r of y (t+3); cntK r n the cardinality. *)
Definition sumK (r : nat) (y : nat -> R) (n : nat) : R :=
  big_sum (fun t => if Nat.eqb ((t + 3) mod 3) r then y (t + 3)%nat else 0) (n - 2).
Definition cntK (r : nat) (n : nat) : R :=
  big_sum (fun t => if Nat.eqb ((t + 3) mod 3) r then 1 else 0) (n - 2).
(* y_j = x_j - 2 x_2 sin(2 pi x_1 + j pi / n) *)
Definition uf8_y (x : list R) (j : nat) : R := X x (j - 1) - 2 * X x 1 * sin (2 * PI * X x 0 + INR j * PI / INR (length x)).
Definition cec3_tail (x : list R) (h : R -> R) (r : nat) : R := 2 / cntK r (length x) * sumK r (fun j => h (uf8_y x j)) (length x).
(* UF8 (= objectives of CF8, CF9) *)
Definition uf8_ref (x : list R) : list R :=
  [cos (X x 0 * PI / 2) * cos (X x 1 * PI / 2) + cec3_tail x (fun t => t ^ 2) 1;
   cos (X x 0 * PI / 2) * sin (X x 1 * PI / 2) + cec3_tail x (fun t => t ^ 2) 2;
   sin (X x 0 * PI / 2) + cec3_tail x (fun t => t ^ 2) 0].
(* UF9: eps = 0.1 *)
Definition uf9_ref (x : list R) : list R :=
  let e := Rmax 0 ((1 + 1 / 10) * (1 - 4 * (2 * X x 0 - 1) ^ 2)) in
  [1 / 2 * (e + 2 * X x 0) * X x 1 + cec3_tail x (fun t => t ^ 2) 1;
   1 / 2 * (e - 2 * X x 0 + 2) * X x 1 + cec3_tail x (fun t => t ^ 2) 2;
   1 - X x 1 + cec3_tail x (fun t => t ^ 2) 0].
(* UF10 (= objectives of CF10): h(t) = 4 t^2 - cos(8 pi t) + 1 *)
Definition uf10_h (t : R) : R := 4 * t ^ 2 - cos (8 * PI * t) + 1.
Definition uf10_ref (x : list R) : list R :=
  [cos (X x 0 * PI / 2) * cos (X x 1 * PI / 2) + cec3_tail x uf10_h 1;
   cos (X x 0 * PI / 2) * sin (X x 1 * PI / 2) + cec3_tail x uf10_h 2;
   sin (X x 0 * PI / 2) + cec3_tail x uf10_h 0].
(* CF8 (N = 2, a = 4, with |.|), CF9 (a = 3), CF10 (a = 1): (f1^2 + f2^2)/(1 - f3^2) - a [|]sin(N pi ((f1^2 - f2^2)/(1 - f3^2) + 1))[|] - 1 >= 0 *)
Definition cf8910_q (f : list R) : R := (nth 0 f 0 ^ 2 - nth 1 f 0 ^ 2) / (1 - nth 2 f 0 ^ 2).
Definition cf8_constr (x : list R) : list R :=
  let f := uf8_ref x in [(nth 0 f 0 ^ 2 + nth 1 f 0 ^ 2) / (1 - nth 2 f 0 ^ 2) - 4 * Rabs (sin (2 * PI * (cf8910_q f + 1))) - 1].
Definition cf9_constr (x : list R) : list R :=
  let f := uf8_ref x in [(nth 0 f 0 ^ 2 + nth 1 f 0 ^ 2) / (1 - nth 2 f 0 ^ 2) - 3 * sin (2 * PI * (cf8910_q f + 1)) - 1].
Definition cf10_constr (x : list R) : list R :=
  let f := uf10_ref x in [(nth 0 f 0 ^ 2 + nth 1 f 0 ^ 2) / (1 - nth 2 f 0 ^ 2) - 1 * sin (2 * PI * (cf8910_q f + 1)) - 1].

(* ------------------------------------------------------------------ CF2, CF4-CF7 (CEC 2009; n variables, 2 objectives) *)
Definition cf_sgn (u : R) : R := if Rlt_dec 0 u then 1 else if Rlt_dec u 0 then -1 else 0.
(* t / (1 + e^{4|t|}) *)
Definition cf_squash (t : R) : R := t / (1 + exp (4 * Rabs t)).
(* h_2(t) = |t| if t < 3/2 (1 - sqrt 2 / 2), 0.125 + (t - 1)^2 otherwise   [CF4, CF5] *)
Definition cf_h2 (t : R) : R := if Rlt_dec t (3 / 2 * (1 - sqrt 2 / 2)) then Rabs t else 1 / 8 + (t - 1) ^ 2.
(* y_j with amplitude a: J1 (odd j): x_j - a cos(6 pi x_1 + j pi/n);  J2 (even j): x_j - a sin(6 pi x_1 + j pi/n) *)
Definition cf_ycs (a : R) (x : list R) (j : nat) : R :=
  let ph := 6 * PI * X x 0 + INR j * PI / INR (length x) in
  X x (j - 1) - a * (if Nat.odd j then cos ph else sin ph).
(* CF2: N = 2, a = 1: J1 uses sin, J2 uses cos *)
Definition cf2_y (x : list R) (j : nat) : R :=
  let ph := 6 * PI * X x 0 + INR j * PI / INR (length x) in
  X x (j - 1) - (if Nat.odd j then sin ph else cos ph).
Definition cf2_objs (x : list R) : list R :=
  let n := length x in
  [X x 0 + 2 / cntJ true n * sumJ true (fun j => cf2_y x j ^ 2) n; 1 - sqrt (X x 0) + 2 / cntJ false n * sumJ false (fun j => cf2_y x j ^ 2) n].
Definition cf2_constr (x : list R) : list R :=
  let f1 := nth 0 (cf2_objs x) 0 in let f2 := nth 1 (cf2_objs x) 0 in
  [cf_squash (f2 + sqrt f1 - 1 * sin (2 * PI * (sqrt f1 - f2 + 1)) - 1)].
(* CF4: y_j as UF1; h_2 as above, h_j(t) = t^2 otherwise; f1 = x1 + sum_{J1} h_j(y_j), f2 = 1 - x1 + sum_{J2} h_j(y_j) *)
Definition cf4_objs (x : list R) : list R :=
  let n := length x in
  [X x 0 + sumJ true (fun j => uf_y1 x j ^ 2) n;
   1 - X x 0 + sumJ false (fun j => if Nat.eqb j 2 then cf_h2 (uf_y1 x j) else uf_y1 x j ^ 2) n].
Definition cf4_constr (x : list R) : list R :=
  [cf_squash (X x 1 - sin (6 * PI * X x 0 + 2 * PI / INR (length x)) - 1 / 2 * X x 0 + 1 / 4)].
(* CF5: y_j with amplitude 0.8 x_1; h_2 as above, h_j(t) = 2 t^2 - cos(4 pi t) + 1 otherwise *)
Definition cf5_objs (x : list R) : list R :=
  let n := length x in let y := cf_ycs (4 / 5 * X x 0) x in
  [X x 0 + sumJ true (fun j => uf5_h (y j)) n;
   1 - X x 0 + sumJ false (fun j => if Nat.eqb j 2 then cf_h2 (y j) else uf5_h (y j)) n].
Definition cf5_constr (x : list R) : list R :=
  [X x 1 - 4 / 5 * X x 0 * sin (6 * PI * X x 0 + 2 * PI / INR (length x)) - 1 / 2 * X x 0 + 1 / 4].
(* CF6 / CF7 constraints: x_2 - a sin(6 pi x_1 + 2 pi/n) - sgn(u) sqrt|u|,  u = 0.5 (1 - x_1) - (1 - x_1)^2;
                          x_4 - a sin(6 pi x_1 + 4 pi/n) - sgn(w) sqrt|w|,  w = 0.25 sqrt(1 - x_1) - 0.5 (1 - x_1) *)
Definition cf67_constr (a : R) (x : list R) : list R :=
  let u := 1 / 2 * (1 - X x 0) - (1 - X x 0) ^ 2 in
  let w := 1 / 4 * sqrt (1 - X x 0) - 1 / 2 * (1 - X x 0) in
  [X x 1 - a * sin (6 * PI * X x 0 + 2 * PI / INR (length x)) - cf_sgn u * sqrt (Rabs u);
   X x 3 - a * sin (6 * PI * X x 0 + 4 * PI / INR (length x)) - cf_sgn w * sqrt (Rabs w)].
(* CF6: f1 = x1 + sum_{J1} y_j^2, f2 = (1 - x1)^2 + sum_{J2} y_j^2, amplitude 0.8 x_1 *)
Definition cf6_objs (x : list R) : list R :=
  let n := length x in let y := cf_ycs (4 / 5 * X x 0) x in
  [X x 0 + sumJ true (fun j => y j ^ 2) n; (1 - X x 0) ^ 2 + sumJ false (fun j => y j ^ 2) n].
(* CF7: amplitude 1; h_2 = h_4 = t^2, h_j(t) = 2 t^2 - cos(4 pi t) + 1 otherwise *)
Definition cf7_objs (x : list R) : list R :=
  let n := length x in let y := cf_ycs 1 x in
  [X x 0 + sumJ true (fun j => uf5_h (y j)) n;
   (1 - X x 0) ^ 2 + sumJ false (fun j => if orb (Nat.eqb j 2) (Nat.eqb j 4) then y j ^ 2 else uf5_h (y j)) n].

(* ------------------------------------------------------------------ WFG4, WFG5 as whole problems (Huband et al., with Platypus' k = M - 1, l = n - k)
   y_i = z_i / (2i);  t1: y'_i = s_multi(y_i, 30, 10, 0.35)  [WFG4]  resp.  s_decept(y_i, 0.35, 0.001, 0.05)  [WFG5];
   t2: t_i = r_sum of group i = y'_i (one position parameter per group, weight 1), t_M = mean(y'_{k+1..n});  then the concave shape. *)
Definition wfg_norm (z : list R) : list R := map (fun i => X z i / (2 * INR (S i))) (seq 0 (length z)).
Definition wfg_s_multi (y A B C : R) : R :=
  let t := Rabs (y - C) / (2 * (IZR (Int_part (C - y)) + C)) in
  (1 + cos ((4 * A + 2) * PI * (1 / 2 - t)) + 4 * B * t ^ 2) / (B + 2).
Definition wfg_s_decept (y A B C : R) : R :=
  1 + (Rabs (y - A) - B) *
      (IZR (Int_part (y - A + B)) * (1 - C + (A - B) / B) / (A - B)
       + IZR (Int_part (A + B - y)) * (1 - C + (1 - A - B) / B) / (1 - A - B) + 1 / B).
Definition wfg_mean (l : list R) : R := big_sum (fun i => X l i) (length l) / INR (length l).
Definition wfg_reduce_k1 (M : nat) (y : list R) : list R := firstn (M - 1) y ++ [wfg_mean (skipn (M - 1) y)].
Definition wfg4_ref (M : nat) (z : list R) : list R :=
  wfg4_shape_ref (wfg_reduce_k1 M (map (fun v => wfg_s_multi v 30 10 (7 / 20)) (wfg_norm z))).
Definition wfg5_ref (M : nat) (z : list R) : list R :=
  wfg4_shape_ref (wfg_reduce_k1 M (map (fun v => wfg_s_decept v (7 / 20) (1 / 1000) (1 / 20)) (wfg_norm z))).
