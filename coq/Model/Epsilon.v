(* Model/Epsilon.v — literal model over exact Q of
     platypus/core.py  EpsilonDominance.same_box   (core.py:856-914)
                       EpsilonDominance.compare    (core.py:916-996)
                       Archive.add                 (core.py:1053-1082)  [generic, any comparator]
                       EpsilonBoxArchive.add       (core.py:1365-1380)  [with the improvements counter]
   Executable definitions only (proofs are in Proofs/EpsilonProofs.v).

   Numbers are exact rationals: "/", floor, "-", "*", squares and sums are the exact
   operations (binary64 rounding is NOT modelled; the correspondence only uses inputs on
   which every float operation of the implementation is exact and checks that).
   A Python exception (IndexError on an empty epsilon list or a too-short objective
   vector, ZeroDivisionError on epsilon = 0) is the result [None]; it is never replaced
   by a default value. *)
From Coq Require Import ZArith QArith Qround Bool List.
Import ListNotations.
From PV Require Import Base.Num.
Open Scope Z_scope.

(* EpsilonDominance(epsilons) on a problem: the epsilon list, problem.directions
   (true = MAXIMIZE; nobjs = length), problem.nconstrs > 0 *)
Record ecfg := ECfg { e_eps : list Q; e_dirs : list bool; e_con : bool }.

(* what the comparator / archive sees of a Solution: identity, objectives, constraint_violation *)
Record esol := ESol { e_sid : nat; e_objs : list Q; e_cv : Q }.

(* self.epsilons[i if i < len(self.epsilons) else -1]      core.py:896,942,976
   (the LAST epsilon is reused for extra objectives; [] raises IndexError = None) *)
Definition eps_at (es : list Q) (i : nat) : option Q :=
  if (i <? length es)%nat then nth_error es i else nth_error es (length es - 1).

(* if problem.directions[i] == Direction.MAXIMIZE: o = -o *)
Definition eps_adj (mx : bool) (o : Q) : Q := if mx then (- o)%Q else o.

(* math.floor(o / epsilon) : the box index of the (sign-adjusted) objective value o;
   ZeroDivisionError = None *)
Definition box_index (eps o : Q) : option Z :=
  if Qeq_bool eps 0 then None else Some (Qfloor (o / eps)).

(* "if problem.nconstrs > 0 and cv1 != cv2:" followed by the four-branch ladder
   (core.py:874-882 and 920-928; note the test is "== 0").  Some r = compare returns r
   here (same_box returns False in the very same branches); None = fall through. *)
Definition eps_ladder (con : bool) (c1 c2 : Q) : option Z :=
  if con && negb (Qeq_bool c1 c2) then
    if Qeq_bool c1 0 then Some (-1)
    else if Qeq_bool c2 0 then Some 1
    else if Qltb c1 c2 then Some (-1)
    else if Qltb c2 c1 then Some 1
    else None
  else None.

(* outcome of the "for i in range(problem.nobjs)" loop with the two flags:
   SExit = one of the two early "return 0 / return False"; SFlags = loop ran to the end *)
Inductive scanres := SExit | SFlags (dominate1 dominate2 : bool).

(* core.py:888-909 and 934-955 (identical loops).  i = loop index, dirs = directions[i:],
   o1/o2 = objectives[i:]. *)
Fixpoint eps_scan (es : list Q) (i : nat) (dirs : list bool) (o1 o2 : list Q) (d1 d2 : bool)
  : option scanres :=
  match dirs with
  | [] => Some (SFlags d1 d2)
  | mx :: dirs' =>
      match o1, o2 with
      | a :: o1', b :: o2' =>
          match eps_at es i with
          | None => None
          | Some e =>
              match box_index e (eps_adj mx a), box_index e (eps_adj mx b) with
              | Some i1, Some i2 =>
                  if i1 <? i2 then (if d2 then Some SExit else eps_scan es (S i) dirs' o1' o2' true d2)
                  else if i1 >? i2 then (if d1 then Some SExit else eps_scan es (S i) dirs' o1' o2' d1 true)
                  else eps_scan es (S i) dirs' o1' o2' d1 d2
              | _, _ => None
              end
          end
      | _, _ => None       (* solution.objectives[i] : IndexError *)
      end
  end.

(* core.py:958-981 (second loop, entered only when both flags are still False):
     better1/better2 : plain "<" on the sign-adjusted objectives,
     dist += math.pow(o - i*epsilon, 2.0) for both solutions *)
Fixpoint eps_dist (es : list Q) (i : nat) (dirs : list bool) (o1 o2 : list Q)
                  (dist1 dist2 : Q) (better1 better2 : bool)
  : option (Q * Q * bool * bool) :=
  match dirs with
  | [] => Some (dist1, dist2, better1, better2)
  | mx :: dirs' =>
      match o1, o2 with
      | a :: o1', b :: o2' =>
          let a' := eps_adj mx a in
          let b' := eps_adj mx b in
          let better1' := if Qltb a' b' then true else better1 in
          let better2' := if Qltb a' b' then better2 else if Qltb b' a' then true else better2 in
          match eps_at es i with
          | None => None
          | Some e =>
              match box_index e a', box_index e b' with
              | Some i1, Some i2 =>
                  let t1 := (a' - inject_Z i1 * e)%Q in
                  let t2 := (b' - inject_Z i2 * e)%Q in
                  eps_dist es (S i) dirs' o1' o2' (dist1 + t1 * t1)%Q (dist2 + t2 * t2)%Q better1' better2'
              | _, _ => None
              end
          end
      | _, _ => None
      end
  end.

(* EpsilonDominance.compare                                             core.py:916-996 *)
Definition eps_compare (c : ecfg) (s1 s2 : esol) : option Z :=
  match eps_ladder (e_con c) (e_cv s1) (e_cv s2) with
  | Some r => Some r
  | None =>
      match eps_scan (e_eps c) 0 (e_dirs c) (e_objs s1) (e_objs s2) false false with
      | None => None
      | Some SExit => Some 0
      | Some (SFlags d1 d2) =>
          if negb d1 && negb d2 then
            match eps_dist (e_eps c) 0 (e_dirs c) (e_objs s1) (e_objs s2) 0%Q 0%Q false false with
            | None => None
            | Some (dist1, dist2, better1, better2) =>
                (* within a box a Pareto-dominating solution wins outright *)
                if better1 && negb better2 then Some (-1)
                else if better2 && negb better1 then Some 1
                else if Qltb dist1 dist2 then Some (-1)
                else Some 1
            end
          else if d1 then Some (-1)
          else Some 1
      end
  end.

(* EpsilonDominance.same_box                                            core.py:856-914 *)
Definition same_box (c : ecfg) (s1 s2 : esol) : option bool :=
  match eps_ladder (e_con c) (e_cv s1) (e_cv s2) with
  | Some _ => Some false
  | None =>
      match eps_scan (e_eps c) 0 (e_dirs c) (e_objs s1) (e_objs s2) false false with
      | None => None
      | Some SExit => Some false
      | Some (SFlags d1 d2) => Some (negb d1 && negb d2)
      end
  end.

(* [f(x) for x in l] where f may raise *)
Fixpoint eps_map_opt {A B} (f : A -> option B) (l : list A) : option (list B) :=
  match l with
  | [] => Some []
  | x :: r =>
      match f x with
      | None => None
      | Some y => match eps_map_opt f r with None => None | Some ys => Some (y :: ys) end
      end
  end.

(* list(itertools.compress(data, selectors)) *)
Fixpoint eps_compress {A} (l : list A) (sel : list bool) : list A :=
  match l, sel with
  | x :: r, b :: sr => if b then x :: eps_compress r sr else eps_compress r sr
  | _, _ => []
  end.

(* Archive.add with an arbitrary comparator                             core.py:1074-1082
     flags = [compare(solution, s) for s in contents]
     if any(x > 0 for x in flags): return False
     contents = compress(contents, [x == 0 for x in flags]) + [solution]; return True *)
Definition eps_arch_add (cmp : esol -> esol -> option Z) (a : list esol) (s : esol)
  : option (list esol * bool) :=
  match eps_map_opt (cmp s) a with
  | None => None
  | Some flags =>
      if existsb (fun x => x >? 0) flags then Some (a, false)
      else Some (eps_compress a (map (fun x => x =? 0) flags) ++ [s], true)
  end.

(* Archive(EpsilonDominance(epsilons)).add — what OMOPSO / CMAES use    algorithms.py:1197,1344 *)
Definition eps_plain_add (c : ecfg) := eps_arch_add (eps_compare c).

(* EpsilonBoxArchive: state = (_contents, improvements)                 core.py:1365-1380
   not_same_box is computed against ALL current members, before the filtering. *)
Definition eps_box_add (c : ecfg) (st : list esol * nat) (s : esol)
  : option ((list esol * nat) * bool) :=
  let '(a, imp) := st in
  match eps_map_opt (eps_compare c s) a with
  | None => None
  | Some flags =>
      match eps_map_opt (same_box c s) a with
      | None => None
      | Some sb =>
          let not_same_box := map negb sb in
          if existsb (fun x => x >? 0) flags then Some ((a, imp), false)
          else
            let a' := eps_compress a (map (fun x => x =? 0) flags) ++ [s] in
            Some ((a', if forallb (fun b => b) not_same_box then S imp else imp), true)
      end
  end.

(* a whole insertion history, starting from the empty archive *)
Fixpoint eps_box_run_from (c : ecfg) (st : list esol * nat) (l : list esol) : option (list esol * nat) :=
  match l with
  | [] => Some st
  | s :: r => match eps_box_add c st s with
              | None => None
              | Some (st', _) => eps_box_run_from c st' r
              end
  end.
Definition eps_box_run (c : ecfg) (l : list esol) := eps_box_run_from c ([], 0%nat) l.

Fixpoint eps_plain_run_from (c : ecfg) (a : list esol) (l : list esol) : option (list esol) :=
  match l with
  | [] => Some a
  | s :: r => match eps_plain_add c a s with
              | None => None
              | Some (a', _) => eps_plain_run_from c a' r
              end
  end.
Definition eps_plain_run (c : ecfg) (l : list esol) := eps_plain_run_from c [] l.
