(* Model/RealFormulas.v — exact-arithmetic models of the GUARDS of the scalar formulas of the
   real-valued operators (platypus/operators.py, repaired tree): every operation that can raise
   or leave the reals — a division, a power with a base that must be non-negative — is made
   explicit and reports an error; `pow` itself is NOT modelled:

     pw  : t |-> t ** (distribution_index + 1)     (PM 143/147, SBX 209/222)
     pw2 : t |-> t ** perturbation                  (NonUniformMutation._delta 401)

   are parameters (the proofs assume only that they map [0,1] into [0,1], which is what
   pow / math.pow guarantee up to rounding for a non-negative exponent); the ROOT
   pow(b, 1/(eta+1)) is not evaluated: the model checks that its base b is non-negative (a
   negative base gives a complex number) and returns b.

     PM.pm_mutation 137-153, SBX.sbx_crossover 197-241, NonUniformMutation._delta 398-401,
     SPX.evolve 661 (exponents 1/(i+1)).
   DifferentialEvolution (338) and UniformMutation (369) contain no partial operation
   (only + - * on floats): nothing to model.

   Arithmetic is over exact Q (theorems are about exact arithmetic; which float-rounding gaps
   remain is said in Proofs/RealFormulasProofs.v).  Executable definitions only. *)
From Coq Require Import ZArith QArith Qabs Qreduction Bool List.
From PV Require Import Base.Num Base.FVal Base.Tape Model.Operators Model.RealOps.
Import ListNotations.
Open Scope res_scope.
Open Scope Q_scope.

(* a base that must be >= 0 *)
Definition nonneg_base (b : Q) : res Q := if Qltb b 0 then Err EDomain else Ok b.

Section Formulas.
  Variable pw : Q -> Q.

  (* ---------------------------------------------------------------- PM.pm_mutation(x, lb, ub)
       u = random.uniform(0, 1); dx = ub - lb
       if u < 0.5: bl = (x - lb) / dx
                   b = 2.0*u + (1.0 - 2.0*u)*pow(1.0 - bl, eta + 1.0)
                   delta = pow(b, 1.0 / (eta + 1.0)) - 1.0
       else:       bu = (ub - x) / dx
                   b = 2.0*(1.0 - u) + 2.0*(u - 0.5)*pow(1.0 - bu, eta + 1.0)
                   delta = 1.0 - pow(b, 1.0 / (eta + 1.0)) *)
  Record pm_g := PMG { pm_dx : Q; pm_frac : Q; pm_arg : Q; pm_b : Q }.

  (* the single steps (the driver's guard trace is checked step by step against these, each on the
     values the real run produced for the step's inputs) *)
  Definition pm_fraction (num dx : Q) : res Q := qdiv num dx.                      (* (x - lb)/dx, (ub - x)/dx *)
  Definition pm_base_lo (u p : Q) : Q := 2 * u + (1 - 2 * u) * p.                  (* u < 0.5 *)
  Definition pm_base_hi (u p : Q) : Q := 2 * (1 - u) + 2 * (u - (1 # 2)) * p.      (* u >= 0.5 *)

  Definition pm_guards (x lb ub u eta : Q) : res pm_g :=
    let dx := ub - lb in
    if Qltb u (1 # 2) then
      bl <- pm_fraction (x - lb) dx ;;
      arg <- nonneg_base (1 - bl) ;;
      _ <- qdiv 1 (eta + 1) ;;
      b <- nonneg_base (pm_base_lo u (pw arg)) ;;
      Ok (PMG dx bl arg b)
    else
      bu <- pm_fraction (ub - x) dx ;;
      arg <- nonneg_base (1 - bu) ;;
      _ <- qdiv 1 (eta + 1) ;;
      b <- nonneg_base (pm_base_hi u (pw arg)) ;;
      Ok (PMG dx bu arg b).

  (* ---------------------------------------------------------------- SBX.sbx_crossover, one side
       beta = 1.0 / (1.0 + (2.0 * (y1 - lb) / (y2 - y1)))            [resp. (ub - y2)]
       alpha = 2.0 - pow(beta, eta + 1.0)
       if rand <= 1.0 / alpha: alpha = alpha * rand;                       betaq = pow(alpha, 1.0/(eta+1.0))
       else:                   alpha = alpha * rand; alpha = 1.0 / (2.0 - alpha); betaq = pow(alpha, ...) *)
  Record side_g := SG { s_beta : Q; s_alpha : Q; s_arand : Q; s_base : Q }.

  (* single steps *)
  Definition sbx_beta (num dy : Q) : res Q :=
    r <- qdiv (2 * num) dy ;; beta0 <- qdiv 1 (1 + r) ;; nonneg_base beta0.
  Definition sbx_alpha (p : Q) : Q := 2 - p.                                       (* p = pow(beta, eta+1) *)
  Definition sbx_first_branch (rand alpha : Q) : res bool := ia <- qdiv 1 alpha ;; Ok (Qle_bool rand ia).
  Definition sbx_arand (alpha rand : Q) : Q := alpha * rand.
  Definition sbx_inv (arand : Q) : res Q := inv <- qdiv 1 (2 - arand) ;; nonneg_base inv.

  Definition sbx_side (num dy rand eta : Q) : res side_g :=
    beta <- sbx_beta num dy ;;
    let alpha := sbx_alpha (pw beta) in
    first <- sbx_first_branch rand alpha ;;
    let arand := sbx_arand alpha rand in
    _ <- qdiv 1 (eta + 1) ;;
    if first then
      base <- nonneg_base arand ;; Ok (SG beta alpha arand base)
    else
      base <- sbx_inv arand ;; Ok (SG beta alpha arand base).

  (* dx = abs(x2 - x1); if dx > EPSILON: (y1, y2) = sorted; the two sides; None when not recombined *)
  Definition sbx_guards (x1 x2 lb ub rand eta : Q) : res (option (Q * side_g * side_g)) :=
    if sbx_test x1 x2 then
      let y1 := if Qltb x1 x2 then x1 else x2 in
      let y2 := if Qltb x1 x2 then x2 else x1 in
      let dy := y2 - y1 in
      s1 <- sbx_side (y1 - lb) dy rand eta ;;
      s2 <- sbx_side (ub - y2) dy rand eta ;;
      Ok (Some (dy, s1, s2))
    else Ok None.

  (* the same WITHOUT the `dx > EPSILON` guard (kept for the refutation example: identical
     parents divide by zero) *)
  Definition sbx_guards_unguarded (x1 x2 lb ub rand eta : Q) : res (Q * side_g * side_g) :=
    let y1 := if Qltb x1 x2 then x1 else x2 in
    let y2 := if Qltb x1 x2 then x2 else x1 in
    let dy := y2 - y1 in
    s1 <- sbx_side (y1 - lb) dy rand eta ;;
    s2 <- sbx_side (ub - y2) dy rand eta ;;
    Ok (dy, s1, s2).
End Formulas.

(* ------------------------------------------------------------------ NonUniformMutation._delta(difference)
     current_iteration = self.algorithm.nfe / self.algorithm.swarm_size
     fraction = min(1.0, current_iteration / float(self.max_iterations))
     return difference * (1.0 - math.pow(random.uniform(0.0, 1.0), math.pow(1.0 - fraction, self.perturbation)))
   math.pow raises ValueError for a negative base with a non-integer exponent and for 0 ** negative *)
Record num_g := NG { n_fraction : Q; n_base : Q; n_exp : Q }.

Definition num_fraction (nfe swarm maxit : Q) : res Q :=
  cur <- qdiv nfe swarm ;;
  f0 <- qdiv cur maxit ;;
  Ok (if Qltb f0 1 then f0 else 1).                        (* min(1.0, f0): 1.0 unless f0 < 1.0 *)

Definition num_guards (pw2 : Q -> Q) (nfe swarm maxit u : Q) : res num_g :=
  fraction <- num_fraction nfe swarm maxit ;;
  base <- nonneg_base (1 - fraction) ;;
  let e := pw2 base in
  _ <- nonneg_base u ;;
  if Qeq_bool u 0 && Qltb e 0 then Err EValue else Ok (NG fraction base e).

(* ------------------------------------------------------------------ SPX.evolve 661
     r = [math.pow(random.uniform(0.0, 1.0), 1.0 / (i + 1.0)) for i in range(n-1)] *)
Fixpoint spx_exponents (i : nat) (us : list Q) : res (list Q) :=
  match us with
  | [] => Ok []
  | u :: r =>
      e <- qdiv 1 (inject_Z (Z.of_nat i) + 1) ;;
      _ <- nonneg_base u ;;
      l <- spx_exponents (S i) r ;;
      Ok (e :: l)
  end.
