(* Model/Indicators.v — literal model over exact Q of
     platypus/core.py   normalize                              (core.py:1581-1630)
     platypus/distance.py euclidean_dist / normalized_euclidean_dist / manhattan_dist /
                        distance_to_nearest                    (distance.py:26-91)
     platypus/indicators.py GenerationalDistance, InvertedGenerationalDistance,
                        EpsilonIndicator, Spacing              (indicators.py:28-116)
   Executable definitions only (no proofs).  Arithmetic is exact rational arithmetic;
   float rounding is NOT modelled.  sqrt / pow are kept OUT of the model: the distance
   functions return SQUARED Euclidean distances (order-isomorphic to the code's sqrt),
   GD / IGD return their exact ingredients (the list of squared nearest distances and the
   divisor), Spacing returns the exact value under the final sqrt.

   Object identity and aliasing: a solution carries [s_sid] (the identity of the Python
   object).  `normalize` stores the attribute `normalized_objectives` ON the solution
   objects; that is modelled by a [store] (sid -> normalized objectives) which normalize
   updates and the distance functions / indicators read.  The reference set is normalised
   at construction of the indicator and again at the start of every `calculate` (repaired
   code, fixes/acef3b8.diff; flag rn); `calculate` then normalises the feasible members of
   its argument into the same store.

   Reusable exports (C15 and C10 import these):
     isol, s_sid, s_objs, s_cv, feasibleb, feasible            solutions with identity
     res, Ok, Err, ierr, bind                                   error monad (Python exceptions)
     store, store_get, store_set                                normalized_objectives attribute
     qminl, qmaxl, column, norm_vec, normalize                  core.normalize
     zip2, zip3, normv                                          textbook normalisation (o-min)/(max-min)
     sqdist, l1dist, nearest_sq, adj_diff                       distances
     xval (XInf | XFin q), ind_make (constructor of the four classes)
     eps_calculate, gd_calculate, igd_calculate, spacing_calculate
     eps_indicator, gd_indicator, igd_indicator                 constructor + calculate on a fresh store
     gd_rows, igd_rows, spacing_rows                            every intermediate distance, in call order (correspondence)
     lmax, lmin, dev, eps_textbook, sqd, nsq, gd_terms_textbook,
     l1d, spacing_sq_textbook, spacing_ds_textbook              the textbook formulas (specification side, end of file) *)
From Coq Require Import ZArith QArith Qabs Bool List.
Import ListNotations.
From PV Require Import Base.Num.
Open Scope Q_scope.

(* ---------- solutions, errors ---------- *)
Record isol := ISol { s_sid : nat; s_objs : list Q; s_cv : Q }.

(* Python exceptions that the modelled code can raise *)
Inductive ierr :=
| EEmptyRange   (* PlatypusError("objective with empty range")        core.py:1624 *)
| EValueEmpty   (* ValueError: min()/max() of an empty sequence                    *)
| ENoneUnpack   (* TypeError: cannot unpack None (normalize of an empty list)      *)
| EIndex        (* IndexError                                                       *)
| EAttr         (* AttributeError: no attribute normalized_objectives               *)
| EFuel.        (* model ran out of fuel (never happens where a theorem says so)    *)

Inductive res (A : Type) := Ok (a : A) | Err (e : ierr).
Arguments Ok {A} _.
Arguments Err {A} _.

Definition bind {A B} (r : res A) (f : A -> res B) : res B :=
  match r with Ok a => f a | Err e => Err e end.
Notation "'do' x <- r ; k" := (bind r (fun x => k)) (at level 200, x pattern, r at level 100, k at level 200).

Fixpoint mapM {A B} (f : A -> res B) (l : list A) : res (list B) :=
  match l with
  | [] => Ok []
  | a :: r => do b <- f a; do bs <- mapM f r; Ok (b :: bs)
  end.

Definition nth_res {A} (l : list A) (i : nat) : res A :=
  match nth_error l i with Some a => Ok a | None => Err EIndex end.

(* s.constraint_violation == 0.0 *)
Definition feasibleb (s : isol) : bool := Qeq_bool (s_cv s) 0.
Definition feasible (l : list isol) : list isol := filter feasibleb l.

(* ---------- the attribute normalized_objectives ---------- *)
Definition store := list (nat * list Q).      (* newest binding first *)
Fixpoint store_get (st : store) (k : nat) : res (list Q) :=
  match st with
  | [] => Err EAttr
  | (k', v) :: r => if Nat.eqb k k' then Ok v else store_get r k
  end.
Definition store_set (st : store) (k : nat) (v : list Q) : store := (k, v) :: st.

(* ---------- min / max of a Python list ---------- *)
(* min(l): first smallest element; max(l): first largest element *)
Fixpoint qmin_from (m : Q) (l : list Q) : Q :=
  match l with [] => m | x :: r => qmin_from (if Qltb x m then x else m) r end.
Fixpoint qmax_from (m : Q) (l : list Q) : Q :=
  match l with [] => m | x :: r => qmax_from (if Qltb m x then x else m) r end.
Definition qminl (l : list Q) : res Q := match l with [] => Err EValueEmpty | x :: r => Ok (qmin_from x r) end.
Definition qmaxl (l : list Q) : res Q := match l with [] => Err EValueEmpty | x :: r => Ok (qmax_from x r) end.

(* [s.objectives[i] for s in sols] *)
Definition column (sols : list isol) (i : nat) : res (list Q) := mapM (fun s => nth_res (s_objs s) i) sols.

(* ---------- textbook normalisation (specification side) ---------- *)
Fixpoint zip3 {A B C D} (f : A -> B -> C -> D) (a : list A) (b : list B) (c : list C) : list D :=
  match a, b, c with
  | x :: a', y :: b', z :: c' => f x y z :: zip3 f a' b' c'
  | _, _, _ => []
  end.
Fixpoint zip2 {A B C} (f : A -> B -> C) (a : list A) (b : list B) : list C :=
  match a, b with
  | x :: a', y :: b' => f x y :: zip2 f a' b'
  | _, _ => []
  end.
(* (objs - mins)/(maxs - mins), coordinate by coordinate *)
Definition normv (mins maxs objs : list Q) : list Q :=
  zip3 (fun o lo hi => (o - lo) / (hi - lo)) objs mins maxs.

(* ---------- core.normalize (core.py:1581-1630) ---------- *)
Definition EPSILON : Q := 1 # 4503599627370496.     (* sys.float_info.epsilon = 2^-52 *)

(* [(s.objectives[i] - minimum[i]) / (maximum[i] - minimum[i]) for i in range(nobjs)] *)
Definition norm_vec (nobjs : nat) (mins maxs objs : list Q) : res (list Q) :=
  mapM (fun i => do o <- nth_res objs i; do lo <- nth_res mins i; do hi <- nth_res maxs i;
                 Ok ((o - lo) / (hi - lo))) (seq 0 nobjs).

(* any([abs(maximum[i]-minimum[i]) < EPSILON for i in range(nobjs)]) *)
Definition empty_range (nobjs : nat) (mins maxs : list Q) : res bool :=
  do fl <- mapM (fun i => do lo <- nth_res mins i; do hi <- nth_res maxs i;
                          Ok (Qltb (Qabs (hi - lo)) EPSILON)) (seq 0 nobjs);
  Ok (existsb (fun b : bool => b) fl).

(* for s in feasible: s.normalized_objectives = [...] *)
Fixpoint write_normalized (nobjs : nat) (mins maxs : list Q) (st : store) (feas : list isol) : res store :=
  match feas with
  | [] => Ok st
  | s :: r => do v <- norm_vec nobjs mins maxs (s_objs s);
              write_normalized nobjs mins maxs (store_set st (s_sid s) v) r
  end.

(* normalize(solutions, minimum, maximum).  [nobjs] is solutions[0].problem.nobjs (all
   solutions belong to one problem).  Result: the return value (None for an empty list,
   else the bounds) and the updated store. *)
Definition normalize (nobjs : nat) (st : store) (sols : list isol) (minimum maximum : option (list Q))
  : res (option (list Q * list Q) * store) :=
  match sols with
  | [] => Ok (None, st)                                             (* if len(solutions) == 0: return *)
  | _ =>
    let feas := feasible sols in
    do mins <- match minimum with
               | Some m => Ok m
               | None => mapM (fun i => do c <- column feas i; qminl c) (seq 0 nobjs)
               end;
    do maxs <- match maximum with
               | Some m => Ok m
               | None => mapM (fun i => do c <- column feas i; qmaxl c) (seq 0 nobjs)
               end;
    do e <- empty_range nobjs mins maxs;
    if e then Err EEmptyRange
    else do st' <- write_normalized nobjs mins maxs st feas;
         Ok (Some (mins, maxs), st')
  end.

(* ---------- distance.py ---------- *)
(* sum([math.pow(x[i]-y[i], 2.0) for i in range(len(x))]) — the argument of math.sqrt in
   euclidean_dist (distance.py:41); y shorter than x is an IndexError *)
Fixpoint sqdist (x y : list Q) : res Q :=
  match x with
  | [] => Ok 0
  | a :: x' => match y with
               | [] => Err EIndex
               | b :: y' => do r <- sqdist x' y'; Ok ((a - b) * (a - b) + r)
               end
  end.

(* manhattan_dist (distance.py:58-74): sum([abs(x[i]-y[i]) for i in range(len(x))]) *)
Fixpoint l1dist (x y : list Q) : res Q :=
  match x with
  | [] => Ok 0
  | a :: x' => match y with
               | [] => Err EIndex
               | b :: y' => do r <- l1dist x' y'; Ok (Qabs (a - b) + r)
               end
  end.

(* extended value: POSITIVE_INFINITY or a rational *)
Inductive xval := XInf | XFin (q : Q).

(* normalized_euclidean_dist(x, y), squared (distance.py:43-56) *)
Definition norm_sqdist (st : store) (x y : isol) : res Q :=
  do nx <- store_get st (s_sid x); do ny <- store_get st (s_sid y); sqdist nx ny.

(* the list inside min([...]) of distance_to_nearest, squared *)
Definition sq_row (st : store) (s : isol) (set : list isol) : res (list Q) :=
  mapM (fun t => norm_sqdist st s t) set.

(* distance_to_nearest(solution, set), squared (distance.py:76-91) *)
Definition nearest_sq (st : store) (s : isol) (set : list isol) : res xval :=
  match set with
  | [] => Ok XInf                                                (* if len(set) == 0: return POSITIVE_INFINITY *)
  | _ => do row <- sq_row st s set; do m <- qminl row; Ok (XFin m)
  end.

(* ---------- the indicator objects ---------- *)
(* state after __init__: self.reference_set, self.minimum, self.maximum (+ the store) *)
Record ind_state := IndState { i_ref : list isol; i_min : list Q; i_max : list Q }.

(* GenerationalDistance/InvertedGenerationalDistance/EpsilonIndicator.__init__ and the
   reference-set branch of Hypervolume.__init__:
     self.reference_set = [s for s in reference_set if s.constraint_violation == 0.0]
     self.minimum, self.maximum = normalize(reference_set)                                *)
Definition ind_make (nobjs : nat) (st : store) (reference_set : list isol) : res (ind_state * store) :=
  do r <- normalize nobjs st reference_set None None;
  match r with
  | (None, _) => Err ENoneUnpack
  | (Some (mins, maxs), st') => Ok (IndState (feasible reference_set) mins maxs, st')
  end.

(* sign[k]*(s2.normalized_objectives[k] - s1.normalized_objectives[k]) for k in range(nobjs);
   dirs: true = MAXIMIZE *)
Definition adj_diff (mx : bool) (s2k s1k : Q) : Q := (if mx then (-1 # 1) else 1) * (s2k - s1k).

Definition eps_inner (nobjs : nat) (dirs : list bool) (n2 n1 : list Q) : res Q :=
  do l <- mapM (fun k => do mx <- nth_res dirs k; do a <- nth_res n2 k; do b <- nth_res n1 k;
                         Ok (adj_diff mx a b)) (seq 0 nobjs);
  qmaxl l.

(* normalize(self.reference_set, self.minimum, self.maximum) at the start of calculate
   (added by fixes/acef3b8.diff): the reference objects are re-normalised on EVERY call, so
   whatever other code wrote into their normalized_objectives in between is overwritten.
   rn = true: the repaired code; rn = false: the code before the repair (reference set
   normalised only once, in the constructor). *)
Definition renorm_ref (rn : bool) (nobjs : nat) (ist : ind_state) (st : store) : res store :=
  if rn then do r <- normalize nobjs st (i_ref ist) (Some (i_min ist)) (Some (i_max ist)); Ok (snd r)
  else Ok st.

(* EpsilonIndicator.calculate (indicators.py:92-102) *)
Definition eps_calculate (rn : bool) (nobjs : nat) (dirs : list bool) (ist : ind_state) (st : store) (set : list isol)
  : res (xval * store) :=
  let feas := feasible set in
  match feas with
  | [] => Ok (XInf, st)
  | _ =>
    do st0 <- renorm_ref rn nobjs ist st;
    do r <- normalize nobjs st0 feas (Some (i_min ist)) (Some (i_max ist));
    let st' := snd r in
    do outer <- mapM (fun s1 =>
                  do n1 <- store_get st' (s_sid s1);
                  do inner <- mapM (fun s2 => do n2 <- store_get st' (s_sid s2); eps_inner nobjs dirs n2 n1) feas;
                  qminl inner) (i_ref ist);
    do v <- qmaxl outer;
    Ok (XFin v, st')
  end.

(* exact ingredients of GD / IGD: the value of the implementation is
     pow(sum([pow(sqrt(t), d) for t in terms]), 1/d) / divisor
   ([IInf] when some term is +inf or there is no feasible member) *)
Inductive ingredients := IInf | ITerms (terms : list Q) (divisor : nat).

Fixpoint all_fin (l : list xval) : option (list Q) :=
  match l with
  | [] => Some []
  | XInf :: _ => None
  | XFin q :: r => match all_fin r with Some qs => Some (q :: qs) | None => None end
  end.

(* GenerationalDistance.calculate (indicators.py:45-53) *)
Definition gd_calculate (rn : bool) (nobjs : nat) (ist : ind_state) (st : store) (set : list isol) : res (ingredients * store) :=
  let feas := feasible set in
  match feas with
  | [] => Ok (IInf, st)
  | _ =>
    do st0 <- renorm_ref rn nobjs ist st;
    do r <- normalize nobjs st0 feas (Some (i_min ist)) (Some (i_max ist));
    let st' := snd r in
    do ds <- mapM (fun s => nearest_sq st' s (i_ref ist)) feas;
    Ok (match all_fin ds with Some ts => ITerms ts (length feas) | None => IInf end, st')
  end.

(* InvertedGenerationalDistance.calculate (indicators.py:72-76): no early exit; with no
   feasible member normalize returns at once, every distance_to_nearest is +inf and
   pow(inf,d), sum, pow(.,1/d), /len all keep +inf *)
Definition igd_calculate (rn : bool) (nobjs : nat) (ist : ind_state) (st : store) (set : list isol) : res (ingredients * store) :=
  let feas := feasible set in
  do st0 <- renorm_ref rn nobjs ist st;
  do r <- normalize nobjs st0 feas (Some (i_min ist)) (Some (i_max ist));
  let st' := snd r in
  do ds <- mapM (fun s => nearest_sq st' s feas) (i_ref ist);
  Ok (match all_fin ds with Some ts => ITerms ts (length (i_ref ist)) | None => IInf end, st').

(* Spacing.calculate (indicators.py:107-116).  Uses the RAW objectives and object identity
   (`s1 != s2` on Solution objects is `is not`).  Result: the exact rational under the
   final math.sqrt. *)
Definition spacing_distances (feas : list isol) : res (list Q) :=
  mapM (fun s1 => do row <- mapM (fun s2 => l1dist (s_objs s1) (s_objs s2))
                              (filter (fun s2 => negb (Nat.eqb (s_sid s1) (s_sid s2))) feas);
                  qminl row) feas.

Definition qsum (l : list Q) : Q := fold_right Qplus 0 l.

(* every manhattan_dist value the implementation computes, in call order *)
Definition spacing_rows (set : list isol) : res (list (list Q)) :=
  let feas := feasible set in
  if Nat.ltb (length feas) 2 then Ok []
  else mapM (fun s1 => mapM (fun s2 => l1dist (s_objs s1) (s_objs s2))
                            (filter (fun s2 => negb (Nat.eqb (s_sid s1) (s_sid s2))) feas)) feas.

Definition spacing_calculate (set : list isol) : res Q :=
  let feas := feasible set in
  if Nat.ltb (length feas) 2 then Ok 0
  else
    do ds <- spacing_distances feas;
    let avg := qsum ds / inject_Z (Z.of_nat (length feas)) in
    Ok (qsum (map (fun d => (d - avg) * (d - avg)) ds) / inject_Z (Z.of_nat (length feas - 1))).

(* ---------- constructor + one call on a fresh interpreter state ---------- *)
Definition eps_indicator (nobjs : nat) (dirs : list bool) (ref set : list isol) : res xval :=
  do c <- ind_make nobjs [] ref; do r <- eps_calculate true nobjs dirs (fst c) (snd c) set; Ok (fst r).
Definition gd_indicator (nobjs : nat) (ref set : list isol) : res ingredients :=
  do c <- ind_make nobjs [] ref; do r <- gd_calculate true nobjs (fst c) (snd c) set; Ok (fst r).
Definition igd_indicator (nobjs : nat) (ref set : list isol) : res ingredients :=
  do c <- ind_make nobjs [] ref; do r <- igd_calculate true nobjs (fst c) (snd c) set; Ok (fst r).

(* all rows of squared distances the implementation hands to math.sqrt, in call order
   (used by the correspondence to compare every intermediate exactly) *)
Definition gd_rows (nobjs : nat) (ref set : list isol) : res (list (list Q)) :=
  do c <- ind_make nobjs [] ref;
  let feas := feasible set in
  match feas with
  | [] => Ok []
  | _ => do st0 <- renorm_ref true nobjs (fst c) (snd c);
         do r <- normalize nobjs st0 feas (Some (i_min (fst c))) (Some (i_max (fst c)));
         mapM (fun s => sq_row (snd r) s (i_ref (fst c))) feas
  end.
Definition igd_rows (nobjs : nat) (ref set : list isol) : res (list (list Q)) :=
  do c <- ind_make nobjs [] ref;
  let feas := feasible set in
  do st0 <- renorm_ref true nobjs (fst c) (snd c);
  do r <- normalize nobjs st0 feas (Some (i_min (fst c))) (Some (i_max (fst c)));
  match feas with
  | [] => Ok (map (fun _ => []) (i_ref (fst c)))       (* distance_to_nearest returns +inf at once: no sqrt *)
  | _ => mapM (fun s => sq_row (snd r) s feas) (i_ref (fst c))
  end.

(* ================= textbook definitions (specification side) =================
   Pure functions of lists of (normalised) objective vectors: no store, no identities, no
   error cases.  lmax / lmin of the empty list are 0 by convention (never used on it). *)
Definition lmax (l : list Q) : Q := match l with [] => 0 | x :: r => qmax_from x r end.
Definition lmin (l : list Q) : Q := match l with [] => 0 | x :: r => qmin_from x r end.

(* the amounts by which s is worse than r, objective by objective, in the declared direction *)
Definition dev (dirs : list bool) (r s : list Q) : list Q := zip3 adj_diff dirs s r.

(* additive epsilon indicator: max over reference points r of min over members s of
   max over objectives k of  +-(s_k - r_k) *)
Definition eps_textbook (dirs : list bool) (R S : list (list Q)) : Q :=
  lmax (map (fun r => lmin (map (fun s => lmax (dev dirs r s)) S)) R).

(* squared Euclidean distance, squared distance to the nearest member of Y *)
Definition sqd (x y : list Q) : Q := qsum (zip2 (fun a b => (a - b) * (a - b)) x y).
Definition nsq (x : list Q) (Y : list (list Q)) : Q := lmin (map (sqd x) Y).

(* GD: d_i^2 for every member of the approximation set S (distance to the reference set R);
   IGD: the same with the roles exchanged.  GD_p = (sum_i d_i^p)^(1/p) / |S| *)
Definition gd_terms_textbook (R S : list (list Q)) : list Q := map (fun s => nsq s R) S.

(* spacing: d_i = smallest L1 distance from member i to ANOTHER listed object;
   spacing^2 = sum (d_i - mean)^2 / (n - 1) *)
Definition l1d (x y : list Q) : Q := qsum (zip2 (fun a b => Qabs (a - b)) x y).
Definition spacing_sq_textbook (ds : list Q) : Q :=
  let n := length ds in
  let mean := qsum ds / inject_Z (Z.of_nat n) in
  qsum (map (fun d => (d - mean) * (d - mean)) ds) / inject_Z (Z.of_nat (n - 1)).
Definition spacing_ds_textbook (feas : list isol) : list Q :=
  map (fun s1 => lmin (map (fun s2 => l1d (s_objs s1) (s_objs s2))
                           (filter (fun s2 => negb (Nat.eqb (s_sid s1) (s_sid s2))) feas))) feas.
