(* Model/Futures.v — executable models (no proofs) of
     * the Submit / Apply / Map evaluators' result collection
       (platypus/evaluator.py:133-150, 181-199, 234-252),
     * Algorithm.evaluate_all's pairing of results with the submitted
       solutions (platypus/core.py:699-712),
     * experiment()'s filing loop (platypus/experimenter.py:66-125, 184-200).

   Futures.  evaluate_all first creates ONE future per job, in job order
       futures = [self.submit_func(run_job, job) for job in jobs]        (182 / 235)
   and then reads them in that same order
       return [f.result() for f in futures]                              (186 / 239)
   or, with log_frequency,
       for chunk in _chunks(futures, log_frequency):
           result.extend([f.result() for f in chunk])                    (192-193 / 245-246)
   A future is a write-once cell.  The pool fills the cells in an order the
   evaluator does not control: that order is the schedule.  f.result() blocks
   until the cell is filled and then returns its content. *)
From Coq Require Import ZArith List Bool.
Import ListNotations.
From PV Require Import Model.Chunks.
Open Scope Z_scope.

Section Futures.
  Variables (J R : Type).
  Variable f : J -> R.                 (* run_job *)

  Definition cells := list (option R).
  Definition empty_cells (n : nat) : cells := repeat None n.

  (* Future.set_result on cell i.  Completing a future twice, or a future that
     was never created, is an error (None), not a silent overwrite. *)
  Fixpoint fill (cs : cells) (i : nat) (v : R) : option cells :=
    match cs, i with
    | [], _ => None
    | None :: r, O => Some (Some v :: r)
    | Some _ :: _, O => None
    | c :: r, S i' => option_map (cons c) (fill r i' v)
    end.

  (* the pool completes the jobs in the order [sched] *)
  Fixpoint run_fills (jobs : list J) (cs : cells) (sched : list nat) : option cells :=
    match sched with
    | [] => Some cs
    | i :: s =>
        match nth_error jobs i with
        | None => None
        | Some j => match fill cs i (f j) with
                    | None => None
                    | Some cs' => run_fills jobs cs' s
                    end
        end
    end.

  (* [f.result() for f in futures] once the pool is done.  None = some future
     is never completed (the evaluator would block forever). *)
  Fixpoint collect (cs : cells) : option (list R) :=
    match cs with
    | [] => Some []
    | None :: _ => None
    | Some v :: r => option_map (cons v) (collect r)
    end.

  (* result = []; for chunk in chunks: result.extend([f.result() for f in chunk]) *)
  Fixpoint extend_all (acc : list R) (chs : list cells) : option (list R) :=
    match chs with
    | [] => Some acc
    | ch :: r => match collect ch with
                 | None => None
                 | Some got => extend_all (acc ++ got) r
                 end
    end.

  Definition collect_chunked (k : Z) (cs : cells) : option (list R) :=
    extend_all [] (chunks k cs).

  (* SubmitEvaluator.evaluate_all / ApplyEvaluator.evaluate_all (same shape) *)
  Definition submit_evaluate (log_frequency : option Z) (jobs : list J) (sched : list nat)
    : option (list R) :=
    match run_fills jobs (empty_cells (length jobs)) sched with
    | None => None
    | Some cs => match log_frequency with
                 | None => collect cs
                 | Some k => collect_chunked k cs
                 end
    end.

  (* MapEvaluator.evaluate_all: [mapf] is self.map_func(run_job, .) *)
  Definition map_evaluate (mapf : list J -> list R) (log_frequency : option Z) (jobs : list J)
    : list R :=
    match log_frequency with
    | None => mapf jobs                                                          (* 137 *)
    | Some k => fold_left (fun acc ch => acc ++ mapf ch) (chunks k jobs) []      (* 143-144 *)
    end.

  (* --- the collector interleaved with the pool ---------------------------
     FFill i : the pool completes job i;  FRead : the evaluator's pending
     f.result() on the next future in submission order returns (enabled only
     when that cell is filled, otherwise the evaluator stays blocked). *)
  Inductive fev := FFill (i : nat) | FRead.
  Record fstate := FS { fs_cells : cells; fs_out : list R }.

  Definition fstep (jobs : list J) (st : fstate) (e : fev) : option fstate :=
    match e with
    | FFill i =>
        match nth_error jobs i with
        | None => None
        | Some j => option_map (fun cs => FS cs (fs_out st)) (fill (fs_cells st) i (f j))
        end
    | FRead =>
        match nth_error (fs_cells st) (length (fs_out st)) with
        | Some (Some v) => Some (FS (fs_cells st) (fs_out st ++ [v]))
        | _ => None
        end
    end.

  Fixpoint frun (jobs : list J) (st : fstate) (evs : list fev) : option fstate :=
    match evs with
    | [] => Some st
    | e :: r => match fstep jobs st e with None => None | Some st' => frun jobs st' r end
    end.

  Definition finit (jobs : list J) : fstate := FS (empty_cells (length jobs)) [].
End Futures.

Arguments fill {R} _ _ _.
Arguments collect {R} _.
Arguments extend_all {R} _ _.
Arguments collect_chunked {R} _ _.
Arguments run_fills {J R} _ _ _ _.
Arguments submit_evaluate {J R} _ _ _ _.
Arguments map_evaluate {J R} _ _ _.
Arguments empty_cells {R} _.
Arguments FS {R} _ _.
Arguments fs_cells {R} _.
Arguments fs_out {R} _.
Arguments fstep {J R} _ _ _ _.
Arguments frun {J R} _ _ _ _.
Arguments finit {J R} _.

(* ---------------------------------------------------------------------------
   Algorithm.evaluate_all (core.py:699-712)

       unevaluated = [s for s in solutions if not s.evaluated]
       jobs = [EvaluateSolution(s) for s in unevaluated]
       results = self.evaluator.evaluate_all(jobs)
       for i, result in enumerate(results):
           if unevaluated[i] != result.solution:                 (identity: Solution has no __eq__)
               unevaluated[i].variables[:] = result.solution.variables[:]
               ... objectives, constraints, constraint_violation, feasible, evaluated

   A solution object is (identity, variables, objectives, evaluated); the
   constraint fields travel with the objectives and are folded into s_objs.
   An evaluator running in the same process hands back the same objects
   (same identity, evaluated in place); a pickling evaluator (process pool,
   MPI) hands back evaluated COPIES (fresh identity). *)
Record sol := Sol { s_id : nat; s_vars : list Z; s_objs : list Z; s_eval : bool }.

Definition pair_one (u r : sol) : sol :=
  if Nat.eqb (s_id u) (s_id r) then r                          (* same object: it already is evaluated *)
  else Sol (s_id u) (s_vars r) (s_objs r) (s_eval r).         (* 707-712: fields copied into unevaluated[i] *)

(* for i, result in enumerate(results): ... unevaluated[i] ...
   None = IndexError (more results than unevaluated solutions); a SHORT result
   list ends the loop early and leaves the remaining solutions untouched. *)
Fixpoint pair_loop (unev results : list sol) : option (list sol) :=
  match results, unev with
  | [], _ => Some unev
  | _ :: _, [] => None
  | r :: rs, u :: us => option_map (cons (pair_one u r)) (pair_loop us rs)
  end.

(* [unevaluated] aliases the not-yet-evaluated members of [solutions]: put the
   updated objects back at their positions *)
Fixpoint write_back (sols upd : list sol) : list sol :=
  match sols with
  | [] => []
  | s :: r => if s_eval s then s :: write_back r upd
              else match upd with
                   | u :: upd' => u :: write_back r upd'
                   | [] => s :: write_back r []
                   end
  end.

Definition unevaluated (sols : list sol) : list sol := filter (fun s => negb (s_eval s)) sols.

(* [evaluator] = self.evaluator.evaluate_all on the solutions inside the jobs *)
Definition evaluate_all (evaluator : list sol -> list sol) (sols : list sol) : option (list sol) :=
  let unev := unevaluated sols in
  match pair_loop unev (evaluator unev) with
  | None => None
  | Some unev' => Some (write_back sols unev')
  end.

(* ---------------------------------------------------------------------------
   experiment() (experimenter.py:66-125 job generation, 184-200 filing)

       for i in algorithms: for j in problems: for k in range(seeds): yield ExperimentJob(...)
       job_results = evaluator.evaluate_all(generator)
       results = OrderedDict()
       for job in job_results:
           if job.algorithm_name not in results: results[job.algorithm_name] = {}
           if job.problem_name not in results[job.algorithm_name]: results[..][job.problem_name] = []
           results[job.algorithm_name][job.problem_name].append(job.instance.result)

   Names are nat identifiers, job.instance.result an opaque Z identifier; dicts
   are association lists in insertion order (Python dicts keep insertion order). *)
Record ejob := EJ { j_alg : nat; j_prob : nat; j_res : Z }.
Definition ptable := list (nat * list Z).
Definition rtable := list (nat * ptable).

Fixpoint padd (p : nat) (v : Z) (pt : ptable) : ptable :=
  match pt with
  | [] => [(p, [v])]
  | (q, l) :: r => if Nat.eqb q p then (q, l ++ [v]) :: r else (q, l) :: padd p v r
  end.

Fixpoint radd (a p : nat) (v : Z) (rt : rtable) : rtable :=
  match rt with
  | [] => [(a, padd p v [])]
  | (b, pt) :: r => if Nat.eqb b a then (b, padd p v pt) :: r else (b, pt) :: radd a p v r
  end.

Definition file_one (rt : rtable) (j : ejob) : rtable := radd (j_alg j) (j_prob j) (j_res j) rt.
Definition file_all (jobs : list ejob) : rtable := fold_left file_one jobs [].

Fixpoint plookup (p : nat) (pt : ptable) : list Z :=
  match pt with [] => [] | (q, l) :: r => if Nat.eqb q p then l else plookup p r end.
Fixpoint rlookup (a p : nat) (rt : rtable) : list Z :=
  match rt with [] => [] | (b, pt) :: r => if Nat.eqb b a then plookup p pt else rlookup a p r end.

(* evaluate_job_generator: algorithms x problems x seeds, seeds innermost;
   [resf a p k] stands for the result of running seed k of algorithm a on problem p *)
Definition gen_jobs (algs probs : list nat) (seeds : nat) (resf : nat -> nat -> nat -> Z) : list ejob :=
  flat_map (fun a => flat_map (fun p => map (fun k => EJ a p (resf a p k)) (seq 0 seeds)) probs) algs.

(* ---------------------------------------------------------------------------
   evaluate_job_generator, the per-algorithm declaration (experimenter.py:70-92)

       for i in range(len(algorithms)):
           if isinstance(algorithms[i], tuple):
               algorithm = algorithms[i][0]
               kwargs = algorithms[i][1] if len(algorithms[i]) >= 2 else {}
               algorithm_name = algorithms[i][2] if len(algorithms[i]) >= 3 else algorithm.__name__
           else:
               algorithm = algorithms[i]; algorithm_name = algorithm.__name__; kwargs = {}
           if algorithm_name in existing_algorithms: raise PlatypusError(...)
           else: existing_algorithms.add(algorithm_name)
           for j problems: for k in range(seeds): yield ExperimentJob(algorithm(problem, **kwargs), ..)

   An algorithm type is a nat, and its __name__ is that same nat as a name;
   kwargs are an opaque Z identifier, 0 standing for the default {}.  The
   default is re-established for EVERY declaration (it is not carried over
   from the previous one).  [resf ty kw p k] = the result of replicate k of
   algorithm type ty constructed with kwargs kw on problem p. *)
Inductive adecl :=
| DBare (ty : nat)                          (* a bare type *)
| DTup1 (ty : nat)                          (* (type,) *)
| DTup2 (ty : nat) (kw : Z)                 (* (type, kwargs) *)
| DTup3 (ty : nat) (kw : Z) (name : nat).   (* (type, kwargs, name) *)

Definition dty (d : adecl) : nat :=
  match d with DBare ty | DTup1 ty | DTup2 ty _ | DTup3 ty _ _ => ty end.
Definition dkw (d : adecl) : Z :=
  match d with DBare _ | DTup1 _ => 0 | DTup2 _ kw | DTup3 _ kw _ => kw end.
Definition dname (d : adecl) : nat :=
  match d with DBare ty | DTup1 ty | DTup2 ty _ => ty | DTup3 _ _ nm => nm end.

Definition decl_block (probs : list nat) (seeds : nat) (resf : nat -> Z -> nat -> nat -> Z) (d : adecl)
  : list ejob :=
  flat_map (fun p => map (fun k => EJ (dname d) p (resf (dty d) (dkw d) p k)) (seq 0 seeds)) probs.

(* None = PlatypusError("only one algorithm with name ... can be run") *)
Fixpoint decl_jobs_go (existing : list nat) (decls : list adecl) (probs : list nat) (seeds : nat)
         (resf : nat -> Z -> nat -> nat -> Z) : option (list ejob) :=
  match decls with
  | [] => Some []
  | d :: r =>
      if existsb (Nat.eqb (dname d)) existing then None
      else match decl_jobs_go (dname d :: existing) r probs seeds resf with
           | None => None
           | Some js => Some (decl_block probs seeds resf d ++ js)
           end
  end.

Definition decl_jobs (decls : list adecl) (probs : list nat) (seeds : nat)
           (resf : nat -> Z -> nat -> nat -> Z) : option (list ejob) :=
  decl_jobs_go [] decls probs seeds resf.
