(* Model/Negation.v — the transformation of C10: "replace the objectives with index in J by
   their negatives and flip their declared directions".  Executable definitions only.

   J is a mask (list bool, true = this objective is flipped); positions beyond the mask are
   left unchanged.  The transformation touches nothing but objective values, directions and
   (for the indicators) the normalisation bounds / reference set:
     directions      flipd J dirs            MINIMIZE <-> MAXIMIZE on J
     objectives      flipv neg J objs        o -> -o on J                (any carrier with a negation)
     solutions       flip_dsol / flip_sol / flip_esol / flip_isol        identity and violation unchanged
     explicit bounds flip_min / flip_max     min' = -max, max' = -min on J
     normalised      flipn J v               x -> 1 - x on J  (what normalisation turns the flip into)
   The models it is applied to: Model/Dominance.v (pareto_compare), Model/Epsilon.v (eps_compare,
   same_box, the two archives), Model/Archive.v (Archive), Model/NDSort.v (nd_loop ranks),
   Model/Indicators.v (eps / GD / IGD), Model/Hypervolume.v (hv_indicator). *)
From Coq Require Import ZArith QArith Bool List.
Import ListNotations.
From PV Require Import Base.Num Model.Dominance Model.Archive Model.Epsilon Model.NDSort Model.Indicators Model.Hypervolume.
Open Scope Q_scope.

Fixpoint flipd (J dirs : list bool) : list bool :=
  match J, dirs with
  | j :: J', d :: ds => xorb j d :: flipd J' ds
  | _, _ => dirs
  end.

Section FlipV.
  Variable V : Type.
  Variable neg : V -> V.
  Fixpoint flipv (J : list bool) (o : list V) : list V :=
    match J, o with
    | j :: J', x :: r => (if j : bool then neg x else x) :: flipv J' r
    | _, _ => o
    end.
End FlipV.
Arguments flipv {V} _ _ _.

Definition flipq : list bool -> list Q -> list Q := flipv Qopp.
Definition flipx : list bool -> list xq -> list xq := flipv xneg.

(* solutions of the various models *)
Definition flip_dsol {V} (neg : V -> V) (J : list bool) (s : dsol V) : dsol V :=
  Build_dsol (flipv neg J (d_objs s)) (d_cv s).
Definition flip_sol {V} (neg : V -> V) (J : list bool) (s : sol V) : sol V :=
  Build_sol (sid s) (flipv neg J (Archive.s_objs s)) (Archive.s_cv s).
Definition flip_xsol (J : list bool) (s : xsol) : xsol := flip_sol xneg J s.
Definition flip_esol (J : list bool) (s : esol) : esol := ESol (e_sid s) (flipq J (e_objs s)) (e_cv s).
Definition flip_ecfg (J : list bool) (c : ecfg) : ecfg := ECfg (e_eps c) (flipd J (e_dirs c)) (e_con c).
Definition flip_isol (J : list bool) (s : isol) : isol := ISol (s_sid s) (flipq J (Indicators.s_objs s)) (Indicators.s_cv s).

(* explicit normalisation bounds: min' = -max, max' = -min on the flipped coordinates *)
Fixpoint flip_min (J : list bool) (mins maxs : list Q) : list Q :=
  match J, mins, maxs with
  | j :: J', lo :: ls, hi :: hs => (if j : bool then - hi else lo) :: flip_min J' ls hs
  | _, _, _ => mins
  end.
Fixpoint flip_max (J : list bool) (mins maxs : list Q) : list Q :=
  match J, mins, maxs with
  | j :: J', lo :: ls, hi :: hs => (if j : bool then - lo else hi) :: flip_max J' ls hs
  | _, _, _ => maxs
  end.

(* what the flip does to normalised vectors *)
Definition flipn : list bool -> list Q -> list Q := flipv (fun x => 1 - x).

(* the flipped form of the bounds argument of hv_indicator *)
Definition flip_hv_bounds (J : list bool) (b : (list Q * list Q) + list isol) : (list Q * list Q) + list isol :=
  match b with
  | inl (mins, maxs) => inl (flip_min J mins maxs, flip_max J mins maxs)
  | inr ref => inr (map (flip_isol J) ref)
  end.

(* non-dominated ranks with the Pareto comparator (crowding distances are not part of C10) *)
Definition x_ranks (c : bool) (dirs : list bool) (l : list xsol) : option (list (option nat)) :=
  match nd_loop (x_sol_cmp c dirs) (fun _ => Some tt) (length l) l 0%nat with
  | None => None
  | Some log => Some (map (fun x => rank_of log (sid x)) l)
  end.
