(* Model/Truncate.v — literal model of filters.truncate / filters.matches
   (filters.py:118-152) and of nondominated_sort_cmp, nondominated_split,
   nondominated_prune, nondominated_truncate, truncate_fitness
   (core.py:1385-1417, 1488-1579).  Executable definitions only.

   Python's sorted() is modelled by Base/StableSort.ssort (a stable sort; uniqueness of
   the stable sorted permutation is proved there, so the algorithm is immaterial).
   Sizes are natural numbers (the property ranges over sizes 0, 1, 2, ...).

   Reusable exports:
     truncate, matches                                  the two filters
     nd_sort_cmp, nd_lt, nondominated_truncate          rank-then-crowding order and truncation by it
     nondominated_split, nondominated_prune, truncate_fitness *)
From Coq Require Import ZArith QArith Bool List.
Import ListNotations.
From PV Require Import Base.Num Base.StableSort Model.Dominance Model.Archive Model.NDSort.
Open Scope Z_scope.

(* filters.truncate: sorted(solutions, key=key, reverse=reverse)[:size]
   [lt a b] = key(a) < key(b) *)
Definition sorted_by {A} (lt : A -> A -> bool) (reverse : bool) (l : list A) : list A :=
  ssort (if reverse then (fun a b => lt b a) else lt) l.
Definition truncate {A} (lt : A -> A -> bool) (reverse : bool) (l : list A) (size : nat) : list A :=
  firstn size (sorted_by lt reverse l).

(* filters.matches with an integer key (rank_key) *)
Definition matches {A} (key : A -> nat) (l : list A) (value : nat) : list A :=
  filter (fun s => Nat.eqb (key s) value) l.

(* nondominated_sort_cmp, core.py:1385-1417 *)
Definition nd_sort_cmp (x y : asol) : Z :=
  if Nat.eqb (a_rank x) (a_rank y) then
    if xltb (xneg (a_crowd x)) (xneg (a_crowd y)) then -1          (* -x.cd < -y.cd *)
    else if xltb (xneg (a_crowd y)) (xneg (a_crowd x)) then 1      (* -x.cd > -y.cd *)
    else 0
  else
    if Nat.ltb (a_rank x) (a_rank y) then -1
    else if Nat.ltb (a_rank y) (a_rank x) then 1
    else 0.

(* functools.cmp_to_key(f): K(a) < K(b) iff f(a, b) < 0 *)
Definition cmp_key_lt {A} (cmp : A -> A -> Z) (a b : A) : bool := cmp a b <? 0.
Definition nd_lt : asol -> asol -> bool := cmp_key_lt nd_sort_cmp.

(* nondominated_truncate, core.py:1544-1558 *)
Definition nondominated_truncate (l : list asol) (size : nat) : list asol :=
  truncate nd_lt false l size.

(* nondominated_split, core.py:1488-1521.
   result = []; rank = 0
   while len(result) < size:
       front = matches(solutions, rank, key=rank_key)
       if len(front) == 0: break
       if len(result)+len(front) <= size: result.extend(front)
       else: return (result, front)
       rank += 1
   return result, []
   None = out of fuel (never happens with fuel = size: proved). *)
Section Split.
  Variable A : Type.
  Variable rank : A -> nat.

  Fixpoint split_loop (fuel : nat) (l : list A) (size : nat) (result : list A) (rk : nat)
    : option (list A * list A) :=
    if Nat.ltb (length result) size then
      match fuel with
      | O => None
      | S fuel' =>
          let front := matches rank l rk in
          if Nat.eqb (length front) 0 then Some (result, [])
          else if Nat.leb (length result + length front) size
               then split_loop fuel' l size (result ++ front) (S rk)
               else Some (result, front)
      end
    else Some (result, []).

  Definition split_by (l : list A) (size : nat) : option (list A * list A) :=
    split_loop size l size [] 0%nat.
End Split.
Arguments split_loop {A} _ _ _ _ _ _.
Arguments split_by {A} _ _ _.

Definition nondominated_split (l : list asol) (size : nat) : option (list asol * list asol) :=
  split_by a_rank l size.

(* crowding_distance(remaining) rewrites the attribute of every member of [remaining] *)
Fixpoint reannotate (cs : cstore) (l : list asol) : option (list asol) :=
  match l with
  | [] => Some []
  | a :: r => match cget cs (sid (a_sol a)), reannotate cs r with
              | Some v, Some r' => Some (Build_asol (a_sol a) (a_rank a) v :: r')
              | _, _ => None
              end
  end.

Definition crowd_lt (a b : asol) : bool := xltb (a_crowd a) (a_crowd b).

(* nondominated_prune, core.py:1523-1542.
   result, remaining = nondominated_split(solutions, size)
   while len(result) + len(remaining) > size:
       crowding_distance(remaining)
       remaining = truncate(remaining, len(remaining)-1, key=crowding_distance_key, reverse=True)
   return result + remaining *)
Fixpoint prune_loop (fuel : nat) (nobjs : nat) (nresult : nat) (remaining : list asol) (size : nat)
  : option (list asol) :=
  if Nat.ltb size (nresult + length remaining) then
    match fuel with
    | O => None
    | S fuel' =>
        match crowding nobjs (map a_sol remaining) with
        | None => None
        | Some cs =>
            match reannotate cs remaining with
            | None => None
            | Some rem' => prune_loop fuel' nobjs nresult (truncate crowd_lt true rem' (length rem' - 1)) size
            end
        end
    end
  else Some remaining.

Definition nondominated_prune (nobjs : nat) (l : list asol) (size : nat) : option (list asol) :=
  match nondominated_split l size with
  | None => None
  | Some (result, remaining) =>
      match prune_loop (length remaining) nobjs (length result) remaining size with
      | None => None
      | Some rem' => Some (result ++ rem')
      end
  end.

(* truncate_fitness, core.py:1560-1579: truncate(solutions, size, key=getter, reverse=larger_preferred) *)
Definition truncate_fitness {A} (fitness : A -> xq) (l : list A) (size : nat) (larger_preferred : bool) : list A :=
  truncate (fun a b => xltb (fitness a) (fitness b)) larger_preferred l size.
