(* Model/Resume.v — save_state / load_state and consecutive run() calls, on top of Model/RunLoop.v (C13).
   Definitions only; proofs are in Proofs/ResumeProofs.v.

   Mirrors  platypus/io.py:213-258   save_state: pickles {version, algorithm, random.getstate()}
            platypus/io.py:260-296   load_state: unpickles, random.setstate(state["random"]) when update_rng
            platypus/core.py:716-750 run (through Model/RunLoop.v)
            platypus/extensions.py:93-113   FixedFrequencyExtension (start_run re-bases its window)
            platypus/extensions.py:205-233  AdaptiveTimeContinuationExtension.restart

   Modelling assumption (NOT a theorem; it is what the harness's determinism frame check and the cross-process
   replays tie): everything a step reads is the algorithm object and the state of the process-global `random`
   generator, i.e. one step is a FUNCTION of the pair (alg, rng). *)
From Coq Require Import Arith List Bool.
Import ListNotations.
From PV Require Import Model.RunLoop.

Section Resume.
  Variable A : Type.       (* the pickled algorithm object (problem, population, archives, extensions with their counters) *)
  Variable R : Type.       (* state of the global Mersenne Twister, random.getstate() *)
  Variable F : Type.       (* contents of a state file *)

  Definition proc : Type := (A * R)%type.          (* what a step can read and write *)

  Variable nfe_a : A -> nat.
  Variable step_p : proc -> proc.                  (* loop body of run(): hooks, step, callback *)
  Variable start_p end_p : proc -> proc.           (* start_run / end_run hooks of the extensions *)

  Variable save : proc -> F.                       (* io.py:248-258 *)
  Variable load : F -> R -> proc.                  (* io.py:274-296; 2nd argument: generator state of the LOADING process,
                                                      which update_rng=True overwrites *)

  Definition p_nfe (p : proc) : nat := nfe_a (fst p).

  Definition id_p (p : proc) : proc := p.

  Definition p_run (N : nat) (p : proc) : option proc :=
    run proc p_nfe start_p end_p id_p id_p step_p id_p N p.

  Definition p_iter (k : nat) (p : proc) : proc := iter proc id_p id_p step_p id_p k p.

  (* stop at a step boundary, save, (the loading process used its generator: r'), load, continue *)
  Definition resume (N : nat) (p : proc) (r' : R) : option proc := p_run N (load (save p) r').

  (* two consecutive calls / the evaluations the first consumed *)
  Definition p_run2 (N1 N2 : nat) (p : proc) : option proc :=
    match p_run N1 p with Some p1 => p_run N2 p1 | None => None end.

  Definition p_consumed (N : nat) (p : proc) : nat :=
    match p_run N p with Some p' => p_nfe p' - p_nfe p | None => 0 end.
End Resume.

(* ------------------------------------------------------------------------- *)
(* A small concrete algorithm with a generator (non-vacuity; what goes wrong   *)
(* when load_state does not restore the generator)                             *)
(* ------------------------------------------------------------------------- *)
Record toy := mkToy { y_nfe : nat; y_pop : nat; y_acc : nat }.

Definition lcg (r : nat) : nat := (r * 5 + 3) mod 16.

(* one step: draws max(1, y_pop) numbers, accumulates them, counts as many evaluations
   (sizes of 0 are rejected configurations, so the toy never makes an empty step) *)
Fixpoint draw (n acc r : nat) : nat * nat :=
  match n with 0 => (acc, r) | S n' => draw n' (acc + r mod 7) (lcg r) end.

Definition toy_step (p : toy * nat) : toy * nat :=
  let (a, r) := p in
  let (acc, r') := draw (Nat.max 1 (y_pop a)) (y_acc a) r in
  (mkToy (y_nfe a + Nat.max 1 (y_pop a)) (y_pop a) acc, r').

Definition toy_save (p : toy * nat) : toy * nat := p.                      (* the file holds both *)
Definition toy_load (f : toy * nat) (r' : nat) : toy * nat := f.           (* update_rng=True *)
Definition toy_load_norng (f : toy * nat) (r' : nat) : toy * nat := (fst f, r').   (* update_rng=False / a load that forgets setstate *)

Definition toy_run := p_run toy nat y_nfe toy_step (fun p => p) (fun p => p).
Definition toy_resume := resume toy nat (toy * nat) y_nfe toy_step (fun p => p) (fun p => p) toy_save toy_load.
Definition toy_resume_norng := resume toy nat (toy * nat) y_nfe toy_step (fun p => p) (fun p => p) toy_save toy_load_norng.

(* ------------------------------------------------------------------------- *)
(* A fixed-frequency extension whose window is measured from start_run         *)
(* (extensions.py:100-113 with by_nfe=False; the action is a restart that      *)
(* changes the population size, extensions.py:231-233)                         *)
(* ------------------------------------------------------------------------- *)
Record wstate := mkW {
  w_nfe : nat;
  w_pop : nat;          (* population_size: what the next step submits *)
  w_iter : nat;         (* FixedFrequencyExtension.iteration *)
  w_last : nat;         (* FixedFrequencyExtension.last_invocation *)
  w_freq : nat          (* frequency *)
}.

(* start_run: self.last_invocation = self.iteration   (extensions.py:100-101) *)
Definition w_start (p : wstate * unit) : wstate * unit :=
  let (w, u) := p in (mkW (w_nfe w) (w_pop w) (w_iter w) (w_iter w) (w_freq w), u).

(* step: evaluate population_size offspring; post_step (extensions.py:103-113): iteration += 1;
   if iteration - last_invocation >= frequency: do_action (here: the population grows by one); last_invocation = iteration *)
Definition w_step (p : wstate * unit) : wstate * unit :=
  let (w, u) := p in
  let nfe' := w_nfe w + Nat.max 1 (w_pop w) in
  let it' := S (w_iter w) in
  if w_freq w <=? it' - w_last w
  then (mkW nfe' (S (w_pop w)) it' it' (w_freq w), u)
  else (mkW nfe' (w_pop w) it' (w_last w) (w_freq w), u).

Definition w_run := p_run wstate unit w_nfe w_step w_start (fun p => p).
Definition w_run2 := p_run2 wstate unit w_nfe w_step w_start (fun p => p).
Definition w_consumed := p_consumed wstate unit w_nfe w_step w_start (fun p => p).

(* ------------------------------------------------------------------------- *)
(* The model played on logged step sizes (used by the harness)                *)
(* ------------------------------------------------------------------------- *)
Record zstate := mkZ { z_nfe : nat; z_script : list nat; z_over : bool }.

Definition z_step (p : zstate * unit) : zstate * unit :=
  let (z, u) := p in
  match z_script z with
  | [] => (mkZ (S (z_nfe z)) [] true, u)
  | n :: r => (mkZ (z_nfe z + Nat.max 1 n) r (z_over z), u)     (* logged sizes are >= 1 (checked by compose_check) *)
  end.

Definition z_run := p_run zstate unit z_nfe z_step (fun p => p) (fun p => p).
Definition z_run2 := p_run2 zstate unit z_nfe z_step (fun p => p) (fun p => p).
Definition z_consumed := p_consumed zstate unit z_nfe z_step (fun p => p) (fun p => p).

Definition z_done (o : option (zstate * unit)) (nfe_end : nat) : bool :=
  match o with
  | Some (z, _) => negb (z_over z) && (z_nfe z =? nfe_end) && match z_script z with [] => true | _ => false end
  | None => false
  end.

Definition z_same (a b : option (zstate * unit)) : bool :=
  match a, b with
  | Some (x, _), Some (y, _) => (z_nfe x =? z_nfe y) && nat_list_eqb (z_script x) (z_script y) && Bool.eqb (z_over x) (z_over y)
  | _, _ => false
  end.

(* One split of a real run at a step boundary:
     sizes1 / sizes2 : evaluations per step logged during run(N1) and the following run(N2) (same object),
     single          : evaluations per step of the uninterrupted run(T) from the same seed,
     claimed         : the property claims composition for this algorithm (no restart window).
   Checks (a) the split execution is a run of the model: run(N1) plays exactly sizes1, run(N2) exactly sizes2;
          (b) the composition law evaluated in the model on the logged steps:
              run N2 (run N1 s) = run (consumed N1 s + N2) s;
          (c) where claimed: the single call made the same steps, and the model's single run plays exactly them. *)
Definition compose_check (N1 N2 : nat) (sizes1 sizes2 single : list nat) (claimed : bool) : bool :=
  let s := (mkZ 0 (sizes1 ++ sizes2) false, tt) in
  let c1 := sum_list sizes1 in
  let total := c1 + sum_list sizes2 in
  forallb (fun n => 1 <=? n) (sizes1 ++ sizes2 ++ single)
  && match z_run N1 s with
     | Some (z1, _) => negb (z_over z1) && (z_nfe z1 =? c1) && nat_list_eqb (z_script z1) sizes2
     | None => false
     end
  && z_done (z_run2 N1 N2 s) total
  && (z_consumed N1 s =? c1)
  && z_same (z_run2 N1 N2 s) (z_run (z_consumed N1 s + N2) s)
  && (if claimed
      then nat_list_eqb (sizes1 ++ sizes2) single
           && z_done (z_run (c1 + N2) (mkZ 0 single false, tt)) total
      else true).
