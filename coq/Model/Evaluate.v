(* Model/Evaluate.v — literal model of
     Problem.__call__            (platypus/core.py:177-196)
     Problem.evaluate            (platypus/core.py:198-233)   (the user function F, see below)
     Solution / __deepcopy__     (platypus/core.py:571-599)
     EvaluateSolution.run        (platypus/core.py:601-608)
     Algorithm.evaluate_all      (platypus/core.py:687-714)
     Type.encode / Type.decode   (platypus/types.py:51-57, 137-146)
   Executable definitions only (proofs: Proofs/EvaluateProofs.v).

   Part 1 is generic (Section): values, numbers and variable types are
   abstract; the user function F is ANY function from the decoded variables to
   (objective values, constraint values); the constraint expressions are ANY
   list of functions.  Part 2 is the executable carrier the trace validation
   runs on (exact binary64 values as odd-mantissa dyadics, the five shipped
   variable types, the comparison constraints of core.py:437-453).

   Python objects are mutable and have an identity; a model solution is an
   immutable record that carries its identity as [sid].  "evaluate in place"
   is a function returning the new record with the same [sid]. *)
From Coq Require Import ZArith Bool List.
Import ListNotations.
Open Scope Z_scope.

(* [f(a_i, b_i) for i in range(min(len a, len b))]  — the zip of the code *)
Fixpoint ev_map2 {A B R} (f : A -> B -> R) (a : list A) (b : list B) : list R :=
  match a, b with
  | x :: a', y :: b' => f x y :: ev_map2 f a' b'
  | _, _ => []
  end.

Section Evaluate.
  Variable Val : Type.          (* a decision-variable value, encoded or decoded (Python: any object) *)
  Variable Num : Type.          (* objective / constraint values (Python: float) *)
  Variable Ty  : Type.          (* platypus.types.Type instances *)
  Variable decode : Ty -> Val -> Val.      (* Type.decode *)
  Variable encode : Ty -> Val -> Val.      (* Type.encode *)
  (* the user's function as seen through Problem.evaluate (core.py:214-233):
     decoded variables |-> (objectives, constraint values).  A wrong number of
     objectives/constraints raises PlatypusError, i.e. the run aborts and
     nothing is exposed; F stands for functions that return. *)
  Variable F : list Val -> list Num * list Num.
  Variable C : list (Num -> Num).          (* problem.constraints[i].function *)
  Variable nabs : Num -> Num.              (* abs *)
  Variable nadd : Num -> Num -> Num.       (* + *)
  Variable nzero : Num.                    (* the int 0 that sum() starts from *)
  Variable niszero : Num -> bool.          (* == 0.0 *)
  Variable types : list Ty.                (* problem.types (nvars = length types) *)

  (* core.py:571-578; [feasible] does not exist as an attribute before the first
     evaluation: the model carries an arbitrary boolean there. *)
  Record sol := mkSol {
    sid : nat;
    vars : list Val;          (* solution.variables (ENCODED) *)
    objs : list Num;
    cons : list Num;
    cv : Num;                 (* constraint_violation *)
    feasible : bool;
    evaluated : bool }.

  (* core.py:189   [problem.types[i].decode(solution.variables[i]) for i in range(nvars)] *)
  Definition decode_vars (vs : list Val) : list Val := ev_map2 decode types vs.
  (* core.py:193 *)
  Definition encode_vars (vs : list Val) : list Val := ev_map2 encode types vs.

  (* core.py:194   sum([abs(f(x)) for (f, x) in zip(constraints, solution.constraints)]) *)
  Definition viol (cs : list Num) : Num :=
    fold_left nadd (ev_map2 (fun f x => nabs (f x)) C cs) nzero.

  (* core.py:177-196 *)
  Definition problem_call (s : sol) : sol :=
    let d := decode_vars (vars s) in          (* :189 *)
    let oc := F d in                          (* :191 self.evaluate(solution) *)
    let v := viol (snd oc) in                 (* :194 *)
    mkSol (sid s) (encode_vars d)             (* :193 *)
          (fst oc) (snd oc) v
          (niszero v)                         (* :195 *)
          true.                               (* :196 *)

  (* core.py:590-599: a new object (fresh identity [k]) with a deep copy of every
     attribute but the problem: variables, objectives, constraints, violation,
     feasibility and the evaluated flag travel together. *)
  Definition deepcopy (k : nat) (s : sol) : sol :=
    mkSol k (vars s) (objs s) (cons s) (cv s) (feasible s) (evaluated s).

  (* One finished job as evaluate_all sees it: [true, s'] = result.solution IS the
     submitted object (evaluated in place), [false, s'] = it is another object
     (an evaluated copy that came back from a worker). *)
  Definition jobres := (bool * sol)%type.

  (* core.py:706-712  the six fields copied back into the original object *)
  Definition copy_back (orig res : sol) : sol :=
    mkSol (sid orig) (vars res) (objs res) (cons res) (cv res) (feasible res) (evaluated res).

  Definition merge (orig : sol) (r : jobres) : sol :=
    if fst r then snd r else copy_back orig (snd r).

  (* write the updated unevaluated solutions back at their positions in the
     argument list (Python: they are the same objects) *)
  Fixpoint fill (sols upd : list sol) : list sol :=
    match sols with
    | [] => []
    | s :: r => if evaluated s then s :: fill r upd
                else match upd with
                     | u :: upd' => u :: fill r upd'
                     | [] => s :: fill r []        (* fewer results than jobs: left untouched *)
                     end
    end.

  (* core.py:687-714 for an evaluator [ev] (jobs in, finished jobs out) *)
  Definition evaluate_all (ev : list sol -> list jobres) (sols : list sol) : list sol :=
    let unevaluated := filter (fun s => negb (evaluated s)) sols in     (* :699 *)
    let results := ev unevaluated in                                    (* :701-702 *)
    fill sols (ev_map2 merge unevaluated results).                      (* :705-712 *)

  (* the two evaluators the theorems talk about: MapEvaluator(map) runs every
     job in place and in order; a worker pool pickles each job, evaluates the
     copy (fresh identity from [ids]) and returns it, in job order (C12). *)
  Definition ev_inplace (jobs : list sol) : list jobres :=
    map (fun s => (true, problem_call s)) jobs.

  Definition run_marked (s : sol) (m : option nat) : jobres :=
    match m with
    | None => (true, problem_call s)
    | Some k => (false, problem_call (deepcopy k s))
    end.
  Definition ev_marked (marks : list (option nat)) (jobs : list sol) : list jobres :=
    ev_map2 run_marked jobs marks.
End Evaluate.

Arguments sid {Val Num} _.
Arguments vars {Val Num} _.
Arguments objs {Val Num} _.
Arguments cons {Val Num} _.
Arguments cv {Val Num} _.
Arguments feasible {Val Num} _.
Arguments evaluated {Val Num} _.
Arguments mkSol {Val Num} _ _ _ _ _ _ _.

(* ------------------------------------------------------------------------- *)
(* Part 2: the executable carrier                                            *)
(* ------------------------------------------------------------------------- *)

(* a binary64 value: NaN, -inf, +inf or m * 2^e.  Canonical form (what the
   harness ships, from math.frexp): m odd, or m = 0 and e = 0 — so that
   structural equality is numeric equality (with -0.0 = 0.0). *)
Inductive ev_num := NNaN | NNInf | NPInf | NFin (m e : Z).

Fixpoint ev_strip (fuel : nat) (m e : Z) : Z * Z :=
  match fuel with
  | O => (m, e)
  | S f => if Z.even m then ev_strip f (m / 2) (e + 1) else (m, e)
  end.
(* canonical representative of m * 2^e *)
Definition ev_norm (m e : Z) : ev_num :=
  if m =? 0 then NFin 0 0
  else let p := ev_strip (Z.to_nat (Z.log2 (Z.abs m))) m e in NFin (fst p) (snd p).

Definition ev_num_eqb (a b : ev_num) : bool :=
  match a, b with
  | NNaN, NNaN => true | NNInf, NNInf => true | NPInf, NPInf => true
  | NFin m e, NFin m' e' => (m =? m') && (e =? e')
  | _, _ => false
  end.

(* Python's <  (every comparison with NaN is False) *)
Definition ev_ltb (a b : ev_num) : bool :=
  match a, b with
  | NNaN, _ | _, NNaN => false
  | NNInf, NNInf => false
  | NNInf, _ => true
  | _, NNInf => false
  | NPInf, _ => false
  | _, NPInf => true
  | NFin m e, NFin m' e' =>
      let k := Z.min e e' in (m * 2 ^ (e - k) <? m' * 2 ^ (e' - k))
  end.
Definition ev_isnan (a : ev_num) : bool := match a with NNaN => true | _ => false end.
(* a <= b  for non-NaN operands *)
Definition ev_leb (a b : ev_num) : bool := negb (ev_isnan a) && negb (ev_isnan b) && negb (ev_ltb b a).

Definition ev_abs (a : ev_num) : ev_num :=
  match a with NNaN => NNaN | NNInf => NPInf | NPInf => NPInf | NFin m e => NFin (Z.abs m) e end.
Definition ev_neg (a : ev_num) : ev_num :=
  match a with NNaN => NNaN | NNInf => NPInf | NPInf => NNInf | NFin m e => NFin (- m) e end.
(* EXACT sum (the driver checks that the float sum was exact on the values shipped) *)
Definition ev_add (a b : ev_num) : ev_num :=
  match a, b with
  | NNaN, _ | _, NNaN => NNaN
  | NPInf, NNInf | NNInf, NPInf => NNaN
  | NPInf, _ | _, NPInf => NPInf
  | NNInf, _ | _, NNInf => NNInf
  | NFin m e, NFin m' e' =>
      let k := Z.min e e' in ev_norm (m * 2 ^ (e - k) + m' * 2 ^ (e' - k)) k
  end.
Definition ev_sub (a b : ev_num) : ev_num := ev_add a (ev_neg b).
Definition ev_zero : ev_num := NFin 0 0.
Definition ev_one : ev_num := NFin 1 0.
Definition ev_iszero (a : ev_num) : bool := ev_num_eqb a ev_zero.

(* the comparison constraints, core.py:437-447 and 483-490 ("<" and ">" add the
   inexact constant 0.0001 and are left to the oracle) *)
Inductive ev_cop := CEq | CLeq | CGeq | CNeq.
Definition ev_cfun (op : ev_cop) (y x : ev_num) : ev_num :=
  match op with
  | CEq => ev_abs (ev_sub x y)                                             (* abs(x - y) *)
  | CLeq => if ev_leb x y then ev_zero else ev_abs (ev_sub x y)            (* 0 if x <= y else abs(x - y) *)
  | CGeq => if ev_leb y x then ev_zero else ev_abs (ev_sub x y)
  | CNeq => if ev_isnan x || ev_isnan y then ev_zero                        (* 0 if x != y else 1 *)
            else if ev_num_eqb x y then ev_one else ev_zero
  end.

(* variable values; elements of permutations / subsets are integers in the harness *)
Inductive ev_val := VNum (x : ev_num) | VBits (b : list bool) | VInt (z : Z) | VList (l : list Z).

Fixpoint ev_bits_eqb (a b : list bool) : bool :=
  match a, b with
  | [], [] => true
  | x :: a', y :: b' => Bool.eqb x y && ev_bits_eqb a' b'
  | _, _ => false
  end.
Fixpoint ev_zs_eqb (a b : list Z) : bool :=
  match a, b with
  | [], [] => true
  | x :: a', y :: b' => (x =? y) && ev_zs_eqb a' b'
  | _, _ => false
  end.
Definition ev_val_eqb (a b : ev_val) : bool :=
  match a, b with
  | VNum x, VNum y => ev_num_eqb x y
  | VBits x, VBits y => ev_bits_eqb x y
  | VInt x, VInt y => x =? y
  | VList x, VList y => ev_zs_eqb x y
  | _, _ => false
  end.

(* platypus/types.py: Real(min,max), Binary(nbits), Integer(min,max) with its
   nbits attribute (computed by the float expression of types.py:130; tied to
   Z.log2 by C17), Permutation(elements), Subset(elements,size) *)
Inductive ev_ty :=
| TReal (lb ub : ev_num) | TBinary (n : nat) | TInteger (mn mx : Z) (nbits : nat)
| TPerm (els : list Z) | TSubset (els : list Z) (k : nat).

(* types.py:244-257 bin2int, :269-280 gray2bin, :259-267 bin2gray — structural
   forms of the loops (the literal model with its loop/fuel structure is C17's
   Model/Gray.v; these are kept local and are compared with the real
   encode/decode on every traced evaluation) *)
Definition ev_b2z (b : bool) : Z := if b then 1 else 0.
Definition ev_bin2int (bits : list bool) : Z := fold_left (fun i b => i * 2 + ev_b2z b) bits 0.
(* b = [bits[0]]; for nextb in bits[1:]: b.append(b[-1] ^ nextb) *)
Fixpoint ev_ungray (prev : bool) (g : list bool) : list bool :=
  match g with [] => [] | x :: r => let b := xorb prev x in b :: ev_ungray b r end.
Definition ev_gray2bin (g : list bool) : list bool := ev_ungray false g.
(* bits[:1] + [i ^ ishift for i, ishift in zip(bits[:-1], bits[1:])] *)
Fixpoint ev_gray (prev : bool) (b : list bool) : list bool :=
  match b with [] => [] | x :: r => xorb prev x :: ev_gray x r end.
Definition ev_bin2gray (b : list bool) : list bool := ev_gray false b.
(* int2bin(n, k) for 0 <= n < 2^k: the k low bits of n, most significant first *)
Fixpoint ev_bitsk (k : nat) (n : Z) : list bool :=
  match k with O => [] | S k' => ev_bitsk k' (n / 2) ++ [Z.odd n] end.

(* Type.decode: identity except Integer (types.py:140-146).  A value that is not
   a bit list of the declared length is outside the encoded domain of Integer
   (the real code would raise or compute an arbitrary integer from it); the
   model answers the error value [VList []], which no snapshot of a real
   solution of an Integer variable equals, so such a trace is rejected. *)
Definition ev_decode (t : ev_ty) (v : ev_val) : ev_val :=
  match t, v with
  | TInteger mn mx k, VBits g =>
      if Nat.eqb (length g) k then
        let value := ev_bin2int (ev_gray2bin g) in
        let value := if value >? mx - mn then value - (mx - mn) else value in
        VInt (mn + value)
      else VList []
  | TInteger _ _ _, _ => VList []
  | _, _ => v
  end.
(* Type.encode: identity except Integer (types.py:137-138) *)
Definition ev_encode (t : ev_ty) (v : ev_val) : ev_val :=
  match t, v with
  | TInteger mn mx k, VInt z => VBits (ev_bin2gray (ev_bitsk k (z - mn)))
  | _, _ => v
  end.

(* the user function as a finite table: the calls logged by the wrapper around
   the raw user function during the traced run (arguments as received, results
   as returned).  Unknown arguments give ([],[]), which never matches a
   snapshot of an evaluated solution of a problem with >= 1 objective. *)
Definition ev_call := (list ev_val * (list ev_num * list ev_num))%type.
Fixpoint ev_vals_eqb (a b : list ev_val) : bool :=
  match a, b with
  | [], [] => true
  | x :: a', y :: b' => ev_val_eqb x y && ev_vals_eqb a' b'
  | _, _ => false
  end.
Fixpoint ev_lookup (tab : list ev_call) (args : list ev_val) : list ev_num * list ev_num :=
  match tab with
  | [] => ([], [])
  | (a, r) :: tab' => if ev_vals_eqb a args then r else ev_lookup tab' args
  end.

Definition ev_sol := sol ev_val ev_num.
Definition ev_cdecl := (ev_cop * ev_num)%type.          (* e.g. (CLeq, 0) for "<=0" *)
Definition ev_cfuns (cs : list ev_cdecl) : list (ev_num -> ev_num) :=
  map (fun c => ev_cfun (fst c) (snd c)) cs.

Definition ev_problem_call (types : list ev_ty) (tab : list ev_call) (cs : list ev_cdecl) : ev_sol -> ev_sol :=
  problem_call ev_val ev_num ev_ty ev_decode ev_encode (ev_lookup tab) (ev_cfuns cs)
               ev_abs ev_add ev_zero ev_iszero types.
Definition ev_evaluate_all (types : list ev_ty) (tab : list ev_call) (cs : list ev_cdecl)
           (sols : list ev_sol) : list ev_sol :=
  evaluate_all ev_val ev_num
               (ev_inplace ev_val ev_num ev_ty ev_decode ev_encode (ev_lookup tab) (ev_cfuns cs)
                           ev_abs ev_add ev_zero ev_iszero types) sols.
