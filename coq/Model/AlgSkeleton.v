(* Model/AlgSkeleton.v — what every shipped algorithm does with solutions during
   one `step` (platypus/core.py:737-747 incl. extensions' post_step), as a
   nondeterministic transition system, its executable trace checker, and the
   producers of decision variables that are not variation operators.
   Executable definitions and inductive relations only (proofs: Proofs/AlgSkeletonProofs.v).

   Code mirrored:
     AbstractGeneticAlgorithm.initialize/iterate and subclasses  (algorithms.py:95-111, 186-208, 243-260,
        313-336, 385-424, 476-490, 584-602, 686-794, 984-1001, 1630-1650, 1702-1722, 1816-1834)
     ParticleSwarm.initialize/iterate/_update_positions            (algorithms.py:1062-1084, 1117-1135)
     CMAES.sample/iterate                                          (algorithms.py:1472-1529, 1580-1591)
     AdaptiveTimeContinuationExtension.restart                     (extensions.py:205-233)
     RandomGenerator / InjectedPopulation                          (operators.py:33-71)
     Type.rand                                                     (types.py:75-76, 102-103, 134-135, 177-180, 213-216)
     PlatypusConfig.default_variator / default_mutator + registry  (config.py:63-123, __init__.py:68-76)

   The skeleton: between two step boundaries an algorithm
     - takes solutions it holds (the POOL: what it exposed at the previous
       boundary, the injected initial solutions, and everything evaluated so
       far in this step),
     - makes new ones from them by copy.deepcopy, by a variation operator
       (which deep-copies a parent and clears `evaluated` whenever it writes a
       variable), by a generator / sampler / position update (which yield
       solutions whose flag is clear),
     - hands batches to evaluate_all,
     - and exposes (result, population, archive, particles, leaders, local_best,
       fittest) only solutions of the pool. *)
From Coq Require Import ZArith Bool List Sorting.Permutation.
Import ListNotations.
From PV Require Import Model.Evaluate.
Open Scope Z_scope.

Section Skeleton.
  Variable Val : Type.
  Variable Num : Type.
  Variable Ty  : Type.
  Variable decode : Ty -> Val -> Val.
  Variable encode : Ty -> Val -> Val.
  Variable F : list Val -> list Num * list Num.
  Variable C : list (Num -> Num).
  Variable nabs : Num -> Num.
  Variable nadd : Num -> Num -> Num.
  Variable nzero : Num.
  Variable niszero : Num -> bool.
  Variable types : list Ty.
  Variable val_eqb : Val -> Val -> bool.
  Variable num_eqb : Num -> Num -> bool.

  Notation sol := (sol Val Num).
  Notation problem_call := (problem_call Val Num Ty decode encode F C nabs nadd nzero niszero types).
  Notation evaluate_all := (evaluate_all Val Num).
  Notation ev_inplace := (ev_inplace Val Num Ty decode encode F C nabs nadd nzero niszero types).
  Notation deepcopy := (deepcopy Val Num).
  Notation decode_vars := (decode_vars Val Ty decode types).
  Notation viol := (viol Num C nabs nadd nzero).

  (* ---------------- the property (C01) ---------------- *)
  (* the stored values are what the user's function and the declared constraints
     yield for the solution's own decoded variables, and the flag is set *)
  Definition Good (s : sol) : Prop :=
    evaluated s = true /\
    objs s = fst (F (decode_vars (vars s))) /\
    cons s = snd (F (decode_vars (vars s))) /\
    cv s = viol (cons s) /\
    feasible s = niszero (cv s).
  (* the heap invariant: a set flag is never stale *)
  Definition Safe (s : sol) : Prop := evaluated s = true -> Good s.

  Definition same_fields (a b : sol) : Prop :=
    vars a = vars b /\ objs a = objs b /\ cons a = cons b /\ cv a = cv b /\
    feasible a = feasible b /\ evaluated a = evaluated b.
  (* the flag discipline of every variation operator (operators.py: every block
     that stores into child.variables also executes child.evaluated = False):
     a child whose flag is still set is field-equal to the parent it was copied from *)
  Definition flag_discipline (parent child : sol) : Prop :=
    evaluated child = true -> same_fields child parent.

  (* what an algorithm may hand to evaluate_all, given the pool *)
  Inductive produced (pool : list sol) : sol -> Prop :=
  | P_member : forall s, In s pool -> produced pool s                       (* the object itself *)
  | P_fresh  : forall s, evaluated s = false -> produced pool s             (* generator.generate, CMAES.sample, PSO._update_positions *)
  | P_copy   : forall p k, produced pool p -> produced pool (deepcopy k p)  (* copy.deepcopy *)
  | P_vary   : forall p c, produced pool p -> flag_discipline p c -> produced pool c.   (* variator.evolve / mutate *)

  (* one call of evaluate_all as logged: the solutions handed in, snapshots
     before and after, and (where the driver could follow the deepcopy chain)
     the identity of the pool member each one descends from *)
  Record batch := mkBatch { b_before : list sol; b_prov : list (option nat); b_after : list sol }.
  Record step := mkStep { s_batches : list batch; s_exposed : list sol }.
  Record trace := mkTrace { t_init : list sol;        (* injected initial solutions (InjectedPopulation) *)
                            t_steps : list step }.

  Definition batch_ok (ev : list sol -> list (jobres Val Num)) (pool : list sol) (b : batch) : Prop :=
    Forall (produced pool) (b_before b) /\ b_after b = evaluate_all ev (b_before b).

  Fixpoint pool_after (pool : list sol) (bs : list batch) : list sol :=
    match bs with [] => pool | b :: r => pool_after (pool ++ b_after b) r end.
  Fixpoint batches_ok ev (pool : list sol) (bs : list batch) : Prop :=
    match bs with
    | [] => True
    | b :: r => batch_ok ev pool b /\ batches_ok ev (pool ++ b_after b) r
    end.

  (* exposed' ⊆ exposed ∪ batches, every exposed solution has its flag set *)
  Definition step_ok ev (pool : list sol) (st : step) : Prop :=
    batches_ok ev pool (s_batches st) /\
    incl (s_exposed st) (pool_after pool (s_batches st)) /\
    Forall (fun s => evaluated s = true) (s_exposed st).

  (* pool at the start of step n+1 = what was exposed at boundary n; the first
     step starts from the injected solutions *)
  Fixpoint steps_ok ev (pool : list sol) (sts : list step) : Prop :=
    match sts with
    | [] => True
    | st :: r => step_ok ev pool st /\ steps_ok ev (s_exposed st) r
    end.
  Definition trace_ok ev (t : trace) : Prop := steps_ok ev (t_init t) (t_steps t).

  (* ---------------- the executable checker ---------------- *)
  Fixpoint list_eqb {A} (eqb : A -> A -> bool) (a b : list A) : bool :=
    match a, b with
    | [], [] => true
    | x :: a', y :: b' => eqb x y && list_eqb eqb a' b'
    | _, _ => false
    end.
  Definition fields_eqb (a b : sol) : bool :=
    list_eqb val_eqb (vars a) (vars b) && list_eqb num_eqb (objs a) (objs b) &&
    list_eqb num_eqb (cons a) (cons b) && num_eqb (cv a) (cv b) &&
    Bool.eqb (feasible a) (feasible b) && Bool.eqb (evaluated a) (evaluated b).
  Definition sol_eqb (a b : sol) : bool := Nat.eqb (sid a) (sid b) && fields_eqb a b.

  (* a submitted solution is justified: flag clear, or field-equal to a pool
     member (to THE pool member it descends from when the provenance is known) *)
  Definition produced_b (pool : list sol) (s : sol) (prov : option nat) : bool :=
    negb (evaluated s) ||
    match prov with
    | Some p => existsb (fun q => Nat.eqb (sid q) p && fields_eqb s q) pool
    | None => existsb (fields_eqb s) pool
    end.
  Fixpoint produced_all_b (pool : list sol) (ss : list sol) (provs : list (option nat)) : bool :=
    match ss with
    | [] => true
    | s :: r => produced_b pool s (hd None provs) && produced_all_b pool r (tl provs)
    end.
  Definition batch_b (pool : list sol) (b : batch) : bool :=
    produced_all_b pool (b_before b) (b_prov b) &&
    list_eqb sol_eqb (b_after b) (evaluate_all ev_inplace (b_before b)).
  Fixpoint batches_b (pool : list sol) (bs : list batch) : bool :=
    match bs with
    | [] => true
    | b :: r => batch_b pool b && batches_b (pool ++ b_after b) r
    end.
  Definition step_b (pool : list sol) (st : step) : bool :=
    batches_b pool (s_batches st) &&
    forallb (fun s => evaluated s && existsb (sol_eqb s) (pool_after pool (s_batches st))) (s_exposed st).
  Fixpoint steps_b (pool : list sol) (sts : list step) : bool :=
    match sts with
    | [] => true
    | st :: r => step_b pool st && steps_b (s_exposed st) r
    end.
  Definition accepts (t : trace) : bool := steps_b (t_init t) (t_steps t).

  (* decidable versions of Good / Safe, used on the injected solutions and as
     the "model first" search when a trace is rejected *)
  Definition good_b (s : sol) : bool :=
    evaluated s &&
    list_eqb num_eqb (objs s) (fst (F (decode_vars (vars s)))) &&
    list_eqb num_eqb (cons s) (snd (F (decode_vars (vars s)))) &&
    num_eqb (cv s) (viol (cons s)) &&
    Bool.eqb (feasible s) (niszero (cv s)).
  Definition safe_b (s : sol) : bool := negb (evaluated s) || good_b s.

  (* ---------------- the property (C07) on the same skeleton ---------------- *)
  Variable dom_enc : Ty -> Val -> Prop.     (* valid ENCODED value of a type (what solution.variables holds) *)
  Variable dom_dec : Ty -> Val -> Prop.     (* valid DECODED value (what the user function receives) *)
  Definition InDomainEnc (vs : list Val) : Prop := Forall2 dom_enc types vs.
  Definition InDomain (vs : list Val) : Prop := Forall2 dom_dec types vs.

  (* [Op parents child]: the algorithm can obtain [child] from [parents] by one of
     its producers: Type.rand via a generator (no parents), a variation operator,
     ParticleSwarm._update_positions, CMAES.sample (no parents), copy.deepcopy *)
  Variable Op : list sol -> sol -> Prop.
  Inductive producedD (pool : list sol) : sol -> Prop :=
  | PD_member : forall s, In s pool -> producedD pool s
  | PD_op : forall ps c, Forall (producedD pool) ps -> Op ps c -> producedD pool c.

  Definition batchD_ok ev (pool : list sol) (b : batch) : Prop :=
    Forall (producedD pool) (b_before b) /\ b_after b = evaluate_all ev (b_before b).
  Fixpoint batchesD_ok ev (pool : list sol) (bs : list batch) : Prop :=
    match bs with
    | [] => True
    | b :: r => batchD_ok ev pool b /\ batchesD_ok ev (pool ++ b_after b) r
    end.
  Definition stepD_ok ev (pool : list sol) (st : step) : Prop :=
    batchesD_ok ev pool (s_batches st) /\ incl (s_exposed st) (pool_after pool (s_batches st)).
  Fixpoint stepsD_ok ev (pool : list sol) (sts : list step) : Prop :=
    match sts with
    | [] => True
    | st :: r => stepD_ok ev pool st /\ stepsD_ok ev (s_exposed st) r
    end.
  (* the arguments of every call of the user function made by evaluate_all on a batch *)
  Definition calls_of (b : batch) : list (list Val) :=
    map (fun s => decode_vars (vars s)) (filter (fun s => negb (evaluated s)) (b_before b)).
  Definition all_calls (sts : list step) : list (list Val) :=
    flat_map (fun st => flat_map calls_of (s_batches st)) sts.
End Skeleton.

Arguments b_before {Val Num} _.
Arguments b_prov {Val Num} _.
Arguments b_after {Val Num} _.
Arguments s_batches {Val Num} _.
Arguments s_exposed {Val Num} _.
Arguments t_init {Val Num} _.
Arguments t_steps {Val Num} _.
Arguments mkBatch {Val Num} _ _ _.
Arguments mkStep {Val Num} _ _.
Arguments mkTrace {Val Num} _ _.

(* ------------------------------------------------------------------------- *)
(* Part 2: concrete domains (C07) over the executable carrier                *)
(* ------------------------------------------------------------------------- *)

(* Integer(min,max).nbits is what the model needs of types.py:130 *)
Definition ev_wf_ty (t : ev_ty) : Prop :=
  match t with
  | TReal lb ub => ev_leb lb ub = true
  | TInteger mn mx k => (0 < k)%nat /\ 2 ^ (Z.of_nat k - 1) <= mx - mn < 2 ^ Z.of_nat k
  | TSubset els k => (k <= length els)%nat /\ NoDup els
  | TPerm els => NoDup els
  | TBinary _ => True
  end.

(* valid decoded value: what the user function may receive *)
Definition ev_dom_dec (t : ev_ty) (v : ev_val) : Prop :=
  match t, v with
  | TReal lb ub, VNum x => ev_leb lb x = true /\ ev_leb x ub = true      (* within bounds, hence not NaN *)
  | TBinary n, VBits b => length b = n
  | TInteger mn mx _, VInt z => mn <= z <= mx
  | TPerm els, VList l => Permutation els l
  | TSubset els k, VList l => NoDup l /\ length l = k /\ incl l els
  | _, _ => False
  end.
(* valid encoded value: what solution.variables holds *)
Definition ev_dom_enc (t : ev_ty) (v : ev_val) : Prop :=
  match t, v with
  | TInteger _ _ k, VBits b => length b = k
  | TInteger _ _ _, _ => False
  | _, _ => ev_dom_dec t v
  end.

Fixpoint ev_mem (x : Z) (l : list Z) : bool :=
  match l with [] => false | y :: r => (x =? y) || ev_mem x r end.
Fixpoint ev_nodup_b (l : list Z) : bool :=
  match l with [] => true | x :: r => negb (ev_mem x r) && ev_nodup_b r end.
Definition ev_incl_b (l els : list Z) : bool := forallb (fun x => ev_mem x els) l.

Definition ev_wf_ty_b (t : ev_ty) : bool :=
  match t with
  | TReal lb ub => ev_leb lb ub
  | TInteger mn mx k => (0 <? Z.of_nat k) && (2 ^ (Z.of_nat k - 1) <=? mx - mn) && (mx - mn <? 2 ^ Z.of_nat k)
  | TSubset els k => (Nat.leb k (length els)) && ev_nodup_b els
  | TPerm els => ev_nodup_b els
  | TBinary _ => true
  end.

Definition ev_dom_dec_b (t : ev_ty) (v : ev_val) : bool :=
  match t, v with
  | TReal lb ub, VNum x => ev_leb lb x && ev_leb x ub
  | TBinary n, VBits b => Nat.eqb (length b) n
  | TInteger mn mx _, VInt z => (mn <=? z) && (z <=? mx)
  | TPerm els, VList l => ev_nodup_b l && ev_incl_b l els && Nat.eqb (length l) (length els)
  | TSubset els k, VList l => ev_nodup_b l && Nat.eqb (length l) k && ev_incl_b l els
  | _, _ => false
  end.

Fixpoint ev_forall2b {A B} (f : A -> B -> bool) (a : list A) (b : list B) : bool :=
  match a, b with
  | [], [] => true
  | x :: a', y :: b' => f x y && ev_forall2b f a' b'
  | _, _ => false
  end.
(* the check run on every logged call of the user function *)
Definition in_domain_b (types : list ev_ty) (args : list ev_val) : bool :=
  forallb ev_wf_ty_b types && ev_forall2b ev_dom_dec_b types args.

(* ---------------- Type.rand (tape = the results of the random module) ---------------- *)
(* Real.rand: random.uniform(min,max); tape contract  min <= r <= max *)
Definition rand_real (r : ev_num) : ev_val := VNum r.
(* Binary.rand: [random.choice([False, True]) for _ in range(nbits)] *)
Definition rand_binary (n : nat) (tape : list bool) : option ev_val :=
  if Nat.leb n (length tape) then Some (VBits (firstn n tape)) else None.
(* Integer.rand: self.encode(random.randint(min,max)); contract min <= z <= max *)
Definition rand_integer (t : ev_ty) (z : Z) : ev_val := ev_encode t (VInt z).
(* Permutation.rand: shuffle of a copy of elements; the tape gives the
   resulting arrangement of the indices (contract: a permutation of 0..n-1) *)
Definition rand_perm (els : list Z) (p : list nat) : ev_val := VList (map (fun i => nth i els 0) p).
(* Subset.rand: shuffle the indices, take the first `size` *)
Definition rand_subset (els : list Z) (k : nat) (p : list nat) : ev_val :=
  VList (map (fun i => nth i els 0) (firstn k p)).

(* ---------------- ParticleSwarm._update_positions (algorithms.py:1121-1132) ---------------- *)
(* value = position + velocity is computed by float arithmetic that is not
   modelled: [value] is any float, possibly NaN *)
Definition pso_clamp (lb ub value vel : ev_num) : ev_num * ev_num :=
  if ev_ltb value lb then (lb, ev_neg vel)             (* value = min_value; velocity *= -1 *)
  else if ev_ltb ub value then (ub, ev_neg vel)        (* value = max_value; velocity *= -1 *)
  else (value, vel).
Fixpoint pso_update_positions (types : list ev_ty) (values vels : list ev_num) : list ev_val * list ev_num :=
  match types, values, vels with
  | TReal lb ub :: ts, v :: vs, w :: ws =>
      let r := pso_clamp lb ub v w in
      let rest := pso_update_positions ts vs ws in
      (VNum (fst r) :: fst rest, snd r :: snd rest)
  | _, _, _ => ([], [])
  end.

(* ---------------- CMAES.sample (algorithms.py:1485-1498 and 1502-1524) ---------------- *)
(* one attempt: the for-loop over the coordinates, `break` at the first value
   outside [min,max]  (a NaN passes both tests) *)
Fixpoint cma_try (types : list ev_ty) (cand : list ev_num) : option (list ev_val) :=
  match types, cand with
  | [], _ => Some []
  | TReal lb ub :: ts, v :: vs =>
      if ev_ltb v lb || ev_ltb ub v then None
      else match cma_try ts vs with Some r => Some (VNum v :: r) | None => None end
  | _, _ => None
  end.
(* `while True:` on explicit fuel; the tape holds the successive candidate
   vectors.  None = out of fuel / tape (the real loop would keep sampling). *)
Fixpoint cma_sample (fuel : nat) (types : list ev_ty) (tape : list (list ev_num)) : option (list ev_val) :=
  match fuel with
  | O => None
  | S f => match tape with
           | [] => None
           | c :: r => match cma_try types c with
                       | Some v => Some v
                       | None => cma_sample f types r
                       end
           end
  end.

(* ---------------- default operator registry (config.py:63-123, __init__.py:68-76) ---------------- *)
Inductive tcls := KReal | KBinary | KInteger | KPerm | KSubset.
Definition tcls_eqb (a b : tcls) : bool :=
  match a, b with
  | KReal, KReal | KBinary, KBinary | KInteger, KInteger | KPerm, KPerm | KSubset, KSubset => true
  | _, _ => false
  end.
(* isinstance(t, base): class Integer(Binary) *)
Definition isinst (t base : tcls) : bool := tcls_eqb t base || (tcls_eqb t KInteger && tcls_eqb base KBinary).
Definition cls_of (t : ev_ty) : tcls :=
  match t with TReal _ _ => KReal | TBinary _ => KBinary | TInteger _ _ _ => KInteger
             | TPerm _ => KPerm | TSubset _ _ => KSubset end.

Inductive opname :=
| Op_SBX_PM | Op_HUX_BitFlip | Op_PMX_Insertion_Swap | Op_SSX_Replace      (* default variators *)
| Op_PM | Op_BitFlip | Op_Insertion_Swap | Op_Replace.                       (* default mutators *)
(* registration order of __init__.py:68-76 *)
Definition variator_registry : list (tcls * opname) :=
  [(KReal, Op_SBX_PM); (KBinary, Op_HUX_BitFlip); (KPerm, Op_PMX_Insertion_Swap); (KSubset, Op_SSX_Replace)].
Definition mutator_registry : list (tcls * opname) :=
  [(KReal, Op_PM); (KBinary, Op_BitFlip); (KPerm, Op_Insertion_Swap); (KSubset, Op_Replace)].

Fixpoint reg_exact (reg : list (tcls * opname)) (base : tcls) : option opname :=
  match reg with [] => None | (k, o) :: r => if tcls_eqb k base then Some o else reg_exact r base end.
Fixpoint reg_sub (reg : list (tcls * opname)) (base : tcls) : option opname :=
  match reg with [] => None | (k, o) :: r => if isinst base k then Some o else reg_sub r base end.
(* None = PlatypusError *)
Definition default_op (reg : list (tcls * opname)) (ts : list tcls) : option opname :=
  match ts with
  | [] => None                                                  (* "problem has no decision variables" *)
  | base :: _ =>
      if forallb (fun t => isinst t base) ts then
        match reg_exact reg base with
        | Some o => Some o
        | None => reg_sub reg base                             (* issubclass(base_type, default_type) *)
        end
      else None                                                 (* "must explicitly set variator for mixed types" *)
  end.
Definition default_variator := default_op variator_registry.
Definition default_mutator := default_op mutator_registry.
(* the variable class whose variables an operator rewrites (its isinstance test) *)
Definition op_acts_on (o : opname) : tcls :=
  match o with
  | Op_SBX_PM | Op_PM => KReal
  | Op_HUX_BitFlip | Op_BitFlip => KBinary
  | Op_PMX_Insertion_Swap | Op_Insertion_Swap => KPerm
  | Op_SSX_Replace | Op_Replace => KSubset
  end.

(* ---------------- Real.rand for very wide bounds (types.py: the guard of fix 143937a) ---------------- *)
(* when max_value - min_value overflows, Real.rand (and UM.um_mutation, fix f6dc0d6) interpolate
     r = random.random();  min_value * (1.0 - r) + max_value * r
   instead of random.uniform(min_value, max_value) = min + (max - min) * r, whose width is inf.
   Exact-arithmetic model over Q (rounding is not modelled; the oracle samples the float code). *)
From Coq Require Import QArith.
Open Scope Z_scope.
Definition rand_real_interp (lb ub r : Q) : Q := (lb * (1 - r) + ub * r)%Q.
