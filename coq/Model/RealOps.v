(* Model/RealOps.v — executable models of the REAL-valued variation operators of
   platypus/operators.py (repaired tree):

     PM 118-153, SBX 172-241 (dx = abs(x2 - x1), fix dbd2833), DifferentialEvolution 327-344,
     UniformMutation 362-373, NonUniformMutation 398-420, UM 435-454,
     PCX 478-532, UNDX 556-616, SPX 641-678,
   and of the vector helpers of platypus/_math.py they use: subtract 45-46, multiply 48-49,
   dot 51-52, is_zero 54-55, project 57-58, orthogonalize 60-64 (repaired: skips zero
   vectors, fix cf8b5d9), normalize 66-69.

   What is modelled EXACTLY: the per-variable control structure — which variables are
   written, when `evaluated` is cleared, which parent is deep-copied, how many draws of
   which kind are made and in which order, PM/UM's int/float `probability` rule, SBX's
   `abs(dx) > EPSILON` test, DE's jrand, and that every written value goes through `clip`
   (UM: is the uniform(lb, ub) draw itself).
   What is NOT interpreted: pow / sqrt / the Gaussian-scaled vector sums.  The value they
   produce reaches the model as a [DVal v] tape entry (v any float, +-inf or NaN), logged by
   the driver's wrapper of `platypus.operators.clip`; the model then applies [clip].
   For PCX / UNDX the GUARD structure of the vector algebra is modelled over exact Q
   (theorems about it are about exact arithmetic): which difference vectors pass `is_zero`,
   what `orthogonalize` projects on, where a division happens.  Every division site is
   checked and reports [Err EZeroDiv]; `magnitude` values (sqrt) come from the tape as
   [DVal] entries (logged by wrappers of `magnitude`), those used as divisors or scale
   factors must be positive / non-negative finite numbers (else the tape is ill-typed).

   Executable definitions only (proofs: Proofs/RealOpsProofs.v). *)
From Coq Require Import ZArith QArith Qabs Qreduction Bool List Lia.
From PV Require Import Base.Num Base.FVal Base.Tape Model.Operators.
Import ListNotations.
Open Scope res_scope.

(* the least exact value that rounds to inf in binary64 *)
Definition FLOAT_OVERFLOW : Q := inject_Z (2 ^ 1024 - 2 ^ 970).

(* sys.float_info.epsilon = 2^-52 *)
Definition EPSILON : Q := 1 # (2 ^ 52).

(* ------------------------------------------------------------------ vectors over Q *)
Definition qvec := list Q.

(* [x[i] - y[i] for i in range(len(x))] (operands always have length nvars) *)
Fixpoint vsub (x y : qvec) : qvec :=
  match x, y with
  | a :: r, b :: s => Qred (a - b) :: vsub r s
  | _, _ => []
  end.
(* [s*x[i] for i in range(len(x))] *)
Definition vscale (s : Q) (x : qvec) : qvec := map (fun c => Qred (s * c)) x.
(* reduce(operator.add, [x[i]*y[i] ...], 0) *)
Fixpoint dot_from (acc : Q) (x y : qvec) : Q :=
  match x, y with
  | a :: r, b :: s => dot_from (Qred (acc + a * b)) r s
  | _, _ => acc
  end.
Definition dot (x y : qvec) : Q := dot_from 0 x y.
(* all([abs(x[i]) < EPSILON ...]) *)
Definition is_zero (x : qvec) : bool := forallb (fun c => Qltb (Qabs c) EPSILON) x.

(* a / b with the ZeroDivisionError made explicit *)
Definition qdiv (a b : Q) : res Q := if Qeq_bool b 0 then Err EZeroDiv else Ok (Qred (a / b)).

(* multiply(dot(u, v) / dot(v, v), v) *)
Definition project (u v : qvec) : res qvec :=
  s <- qdiv (dot u v) (dot v v) ;; Ok (vscale s v).

(* for v in vs: if not is_zero(v): u = subtract(u, project(u, v))
   [skip] = true is the repaired code; false is the code before fix cf8b5d9 (kept for the
   refutation example only) *)
Fixpoint orthogonalize_gen (skip : bool) (u : qvec) (vs : list qvec) : res qvec :=
  match vs with
  | [] => Ok u
  | v :: r =>
      if skip && is_zero v then orthogonalize_gen skip u r
      else p <- project u v ;; orthogonalize_gen skip (vsub u p) r
  end.
Definition orthogonalize := orthogonalize_gen true.

(* a magnitude used as divisor / scale factor: a finite float, > 0 resp. >= 0 *)
Definition get_pos (t : tape) : res (Q * tape) :=
  match t with
  | DVal (FX (Fin m)) :: r => if Qltb 0 m then Ok (m, r) else Err ETape
  | _ => Err ETape
  end.
Definition get_nonneg (t : tape) : res (Q * tape) :=
  match t with
  | DVal (FX (Fin m)) :: r => if Qle_bool 0 m then Ok (m, r) else Err ETape
  | _ => Err ETape
  end.

(* normalize(u): ValueError on a zero vector, else multiply(1.0 / magnitude(u), u);
   magnitude(u) = sqrt(dot(u,u)) is zero iff dot(u,u) is, so the division is checked there;
   the value of the magnitude is the next tape entry *)
Definition normalize (u : qvec) (t : tape) : res (qvec * tape) :=
  if is_zero u then Err EValue
  else
    _ <- qdiv 1 (dot u u) ;;
    '(m, t') <- get_pos t ;;
    Ok (vscale (/ m) u, t').

(* [sum([x[i][j] for i in range(k)]) / k for j in range(n)] *)
Fixpoint vsum (acc : qvec) (xs : list qvec) : qvec :=
  match xs with
  | [] => acc
  | x :: r => vsum (map (fun ab => Qred (fst ab + snd ab)) (combine acc x)) r
  end.
Definition centroid (xs : list qvec) (n : nat) : res qvec :=
  let k := length xs in
  if Nat.eqb k 0 then Err EZeroDiv
  else Ok (map (fun s => Qred (s / inject_Z (Z.of_nat k))) (vsum (repeat 0%Q n) xs)).

Section RealOps.
  Variable E : Type.
  Variable P : Type.
  Notation var := (var E).
  Notation vtype := (vtype E).
  Notation sol := (sol E P).
  Notation mstep := (mstep E).
  Notation xstep := (xstep E).
  Notation mutation := (mutation E P).
  Notation operator := (operator E P).

  (* len([t for t in problem.types if isinstance(t, Real)]) *)
  Fixpoint count_real (ts : list vtype) : nat :=
    match ts with
    | [] => O
    | TReal _ _ :: r => S (count_real r)
    | _ :: r => count_real r
    end.

  (* ================================================================ PM 118-153 *)
  (* if random.uniform(0.0, 1.0) <= probability:
         child.variables[i] = self.pm_mutation(float(x), lb, ub); child.evaluated = False
     pm_mutation: u = random.uniform(0, 1); ... pow ...; x = clip(x, lb, ub) *)
  Definition pm_step (pe : xq) : mstep := fun ty v t =>
    match ty with
    | TReal lb ub =>
        '(u, t1) <- get_unif t ;;
        if xleb u pe then
          match v with
          | VReal _ =>
              '(_, t2) <- get_unif t1 ;;
              '(c, t3) <- get_val t2 ;;
              Ok (Some (VReal (clip c (FX lb) (FX ub))), t3)
          | _ => Err EType
          end
        else Ok (None, t1)
    | _ => Ok (None, t)
    end.

  (* if isinstance(probability, int): probability /= float(len([... Real ...])) *)
  Definition pm (pr : prob) (types : list vtype) : mutation :=
    fun fresh p t =>
      pe <- eff_prob pr (count_real types) ;;
      mutation_of E P (pm_step pe) types fresh p t.

  (* ================================================================ UM 435-460 (repaired, fix f6dc0d6) *)
  (* the loop tests `<= self.probability` (the RAW parameter; the divided local is unused);
     um_mutation(x, lb, ub):
         if math.isinf(ub - lb):            -- the width overflows for very wide (finite) bounds
             r = random.random(); return lb * (1.0 - r) + ub * r
         return random.uniform(lb, ub)
     the result is written WITHOUT clip.
     ub - lb rounds to inf exactly when the exact difference is >= 2^1024 - 2^970 (MAX + half an ulp;
     the tie goes to the even neighbour 2^1024).  The interpolation is modelled over exact Q (the
     driver keeps only calls on which the float expression is exact). *)
  Definition um_value (lb ub : xq) (t : tape) : res (fval * tape) :=
    match lb, ub with
    | Fin a, Fin b =>
        if Qle_bool FLOAT_OVERFLOW (b - a) then
          '(r, t') <- get_rand t ;;
          Ok (FX (Fin (Qred (a * (1 - r) + b * r))), t')
        else
          '(q, t') <- get_unif_in lb ub t ;; Ok (FX q, t')
    | _, _ => Err EType                    (* infinite bounds: outside the modelled domain *)
    end.

  Definition um_step (praw : xq) : mstep := fun ty v t =>
    match ty with
    | TReal lb ub =>
        '(u, t1) <- get_unif t ;;
        if xleb u praw then
          match v with
          | VReal _ =>
              '(x, t2) <- um_value lb ub t1 ;;
              Ok (Some (VReal x), t2)
          | _ => Err EType
          end
        else Ok (None, t1)
    | _ => Ok (None, t)
    end.

  Definition um (pr : prob) (types : list vtype) : mutation :=
    fun fresh p t =>
      _ <- eff_prob pr (count_real types) ;;
      mutation_of E P (um_step (raw_prob pr)) types fresh p t.

  (* ================================================================ UniformMutation 362-373 *)
  (* every variable (no isinstance test): value = x + (random.uniform(0,1) - 0.5)*perturbation;
     result.variables[i] = clip(value, type.min_value, type.max_value) *)
  Definition uniform_mutation_step (p : xq) : mstep := fun ty v t =>
    '(u, t1) <- get_unif t ;;
    if xleb u p then
      match ty, v with
      | TReal lb ub, VReal _ =>
          '(_, t2) <- get_unif t1 ;;
          '(c, t3) <- get_val t2 ;;
          Ok (Some (VReal (clip c (FX lb) (FX ub))), t3)
      | _, _ => Err EType
      end
    else Ok (None, t1).

  Definition uniform_mutation (p : xq) (types : list vtype) : mutation :=
    mutation_of E P (uniform_mutation_step p) types.

  (* ================================================================ NonUniformMutation 403-420 *)
  (* if bool(random.getrandbits(1)): value += self._delta(max - value) else: ... (min - value)
     _delta draws random.uniform(0,1); then clip *)
  Definition non_uniform_mutation_step (p : xq) : mstep := fun ty v t =>
    '(u, t1) <- get_unif t ;;
    if xleb u p then
      match ty, v with
      | TReal lb ub, VReal _ =>
          '(_, t2) <- get_bit t1 ;;
          '(_, t3) <- get_unif t2 ;;
          '(c, t4) <- get_val t3 ;;
          Ok (Some (VReal (clip c (FX lb) (FX ub))), t4)
      | _, _ => Err EType
      end
    else Ok (None, t1).

  Definition non_uniform_mutation (p : xq) (types : list vtype) : mutation :=
    mutation_of E P (non_uniform_mutation_step p) types.

  (* ================================================================ SBX 172-241 *)
  (* dx = abs(x2 - x1); if dx > EPSILON           (exact subtraction; see the driver's exactness check) *)
  Definition sbx_test (x1 x2 : Q) : bool := Qltb EPSILON (Qabs (x2 - x1)).
  (* before fix dbd2833: dx = x2 - x1 *)
  Definition sbx_test_old (x1 x2 : Q) : bool := Qltb EPSILON (x2 - x1).

  (* if random.uniform(0.0, 1.0) <= 0.5:
         x1, x2 = self.sbx_crossover(float(x1), float(x2), lb, ub)
         child1.variables[i] = x1; child2.variables[i] = x2; both evaluated = False
     sbx_crossover, when the test holds: (y1, y2) = sorted; rand = random.uniform(0,1); ... pow ...;
         if bool(random.getrandbits(1)): x1, x2 = x2, x1
         x1 = clip(x1, lb, ub); x2 = clip(x2, lb, ub)
     the two DVal entries are the candidates AFTER the swap, in the order they are clipped;
     when the test fails the parents' values are written back unchanged (flags still cleared) *)
  Definition sbx_step_gen (test : Q -> Q -> bool) : xstep := fun ty v1 v2 t =>
    match ty with
    | TReal lb ub =>
        '(u, t1) <- get_unif t ;;
        if xleb u half then
          match v1, v2 with
          | VReal (FX (Fin x1)), VReal (FX (Fin x2)) =>
              if test x1 x2 then
                '(_, t2) <- get_unif t1 ;;
                '(_, t3) <- get_bit t2 ;;
                '(c1, t4) <- get_val t3 ;;
                '(c2, t5) <- get_val t4 ;;
                Ok (Some (VReal (clip c1 (FX lb) (FX ub)), VReal (clip c2 (FX lb) (FX ub))), t5)
              else Ok (Some (VReal (FX (Fin x1)), VReal (FX (Fin x2))), t1)
          | _, _ => Err EType
          end
        else Ok (None, t1)
    | _ => Ok (None, t)
    end.

  Definition sbx_step := sbx_step_gen sbx_test.

  Definition sbx (p : xq) (types : list vtype) : operator :=
    guarded_crossover_of E P p sbx_step types.
  Definition sbx_old (p : xq) (types : list vtype) : operator :=
    guarded_crossover_of E P p (sbx_step_gen sbx_test_old) types.

  (* ================================================================ DifferentialEvolution 327-344 *)
  (* for j in range(problem.nvars):
         if random.uniform(0.0, 1.0) <= self.crossover_rate or j == jrand:
             v1, v2, v3 = float(parents[1..3].variables[j]); y = v3 + F*(v1 - v2)
             y = clip(y, types[j].min_value, types[j].max_value)
             result.variables[j] = y; result.evaluated = False *)
  Definition is_real (v : var) : bool := match v with VReal _ => true | _ => false end.

  Fixpoint de_loop (cr : xq) (jrand : nat) (p1 p2 p3 : list var)
           (ts : list vtype) (vs : list var) (j : nat) (t : tape)
    : res (list var * bool * tape) :=
    match ts with
    | [] => Ok (vs, false, t)
    | ty :: ts' =>
        match vs with
        | [] => Err EIndex
        | v :: vs' =>
            '(u, t1) <- get_unif t ;;
            '(o, t2) <- (if xleb u cr || Nat.eqb j jrand then
                           a <- nth_res p1 j ;;
                           b <- nth_res p2 j ;;
                           c <- nth_res p3 j ;;
                           if is_real a && is_real b && is_real c then
                             match ty with
                             | TReal lb ub =>
                                 '(y, t') <- get_val t1 ;;
                                 Ok (Some (VReal (clip y (FX lb) (FX ub))), t')
                             | _ => Err EType
                             end
                           else Err EType
                         else Ok (None, t1)) ;;
            '(vs'', w, t3) <- de_loop cr jrand p1 p2 p3 ts' vs' (S j) t2 ;;
            Ok (match o with Some v' => v' | None => v end :: vs'',
                (match o with Some _ => true | None => false end) || w, t3)
        end
    end.

  (* result = copy.deepcopy(parents[0]); jrand = random.randrange(problem.nvars); ...; return [result]
     parents[1..3] are only indexed inside the loop *)
  Definition de (cr : xq) (types : list vtype) : operator :=
    fun fresh ps t =>
      p0 <- nth_res ps 0 ;;
      '(jrand, t1) <- get_idx (length types) t ;;
      p1 <- nth_res ps 1 ;;
      p2 <- nth_res ps 2 ;;
      p3 <- nth_res ps 3 ;;
      '(vs, w, t2) <- de_loop cr jrand (vars p1) (vars p2) (vars p3) types (vars p0) 0 t1 ;;
      Ok ([mk_child E P fresh p0 vs w], S fresh, t2).

  (* ================================================================ shared by PCX / UNDX / SPX *)
  (* x.append(parents[i].variables[:]) — as exact rationals; a non-real variable makes the
     arithmetic below raise TypeError *)
  Fixpoint qvec_of (vs : list var) : res qvec :=
    match vs with
    | [] => Ok []
    | VReal (FX (Fin q)) :: r => l <- qvec_of r ;; Ok (q :: l)
    | _ :: _ => Err EType
    end.
  Fixpoint qvecs_of (ps : list sol) : res (list qvec) :=
    match ps with
    | [] => Ok []
    | p :: r => x <- qvec_of (vars p) ;; l <- qvecs_of r ;; Ok (x :: l)
    end.

  (* for j in range(n): result.variables[j] = clip(variables[j], type.min_value, type.max_value) *)
  Fixpoint clip_all (ts : list vtype) (t : tape) : res (list var * tape) :=
    match ts with
    | [] => Ok ([], t)
    | TReal lb ub :: r =>
        '(c, t1) <- get_val t ;;
        '(l, t2) <- clip_all r t1 ;;
        Ok (VReal (clip c (FX lb) (FX ub)) :: l, t2)
    | _ :: _ => Err EType
    end.

  (* ================================================================ PCX 478-532 *)
  (* for i in range(k-1):
         d = subtract(x[i], g)
         if not is_zero(d):
             e = orthogonalize(d, e_eta)
             if not is_zero(e):
                 D += magnitude(e)            -- one DVal (value unused by the model)
                 e_eta.append(normalize(e))   -- one DVal (the magnitude, > 0) *)
  Fixpoint pcx_basis (skip : bool) (g : qvec) (xs : list qvec) (e_eta : list qvec) (t : tape)
    : res (list qvec * tape) :=
    match xs with
    | [] => Ok (e_eta, t)
    | x :: r =>
        let d := vsub x g in
        if negb (is_zero d) then
          e <- orthogonalize_gen skip d e_eta ;;
          if negb (is_zero e) then
            '(_, t1) <- get_val t ;;
            '(ne, t2) <- normalize e t1 ;;
            pcx_basis skip g r (e_eta ++ [ne]) t2
          else pcx_basis skip g r e_eta t
        else pcx_basis skip g r e_eta t
    end.

  (* PCX.pcx(parents): one offspring, a deep copy of parents[k-1] with every variable rewritten *)
  Definition pcx_one (skip : bool) (types : list vtype) (fresh : nat) (ps : list sol) (t : tape)
    : res (sol * tape) :=
    let k := length ps in
    _ <- nth_res ps 0 ;;                                (* parents[0].problem.nvars *)
    x <- qvecs_of ps ;;
    g <- centroid x (length types) ;;
    xlast <- nth_res x (k - 1) ;;
    '(e_eta, t1) <- pcx_basis skip g (firstn (k - 1) x) [vsub xlast g] t ;;
    _ <- qdiv 1 (inject_Z (Z.of_nat (k - 1))) ;;        (* D /= k-1 *)
    '(_, t2) <- get_gauss t1 ;;                         (* random.gauss(0.0, self.zeta) *)
    '(_, t3) <- get_gauss t2 ;;                         (* eta = random.gauss(0.0, self.eta) *)
    plast <- nth_res ps (k - 1) ;;                      (* result = copy.deepcopy(parents[k-1]) *)
    '(vs, t4) <- clip_all types t3 ;;
    Ok (mk_child E P fresh plast vs true, t4).

  (* for _ in range(noffspring):
         index = random.randrange(len(parents))
         parents[index], parents[-1] = parents[-1], parents[index]     -- the LIST is permuted and stays so
         result.append(self.pcx(parents)) *)
  Fixpoint pcx_loop (skip : bool) (types : list vtype) (noff : nat) (fresh : nat) (ps : list sol) (t : tape)
    : res (list sol * nat * tape) :=
    match noff with
    | O => Ok ([], fresh, t)
    | S m =>
        '(index, t1) <- get_idx (length ps) t ;;
        pi <- nth_res ps index ;;
        pl <- nth_res ps (length ps - 1) ;;
        let ps' := upd (length ps - 1) pi (upd index pl ps) in
        '(c, t2) <- pcx_one skip types fresh ps' t1 ;;
        '(cs, f, t3) <- pcx_loop skip types m (S fresh) ps' t2 ;;
        Ok (c :: cs, f, t3)
    end.

  Definition pcx (noffspring : nat) (types : list vtype) : operator := pcx_loop true types noffspring.
  Definition pcx_old (noffspring : nat) (types : list vtype) : operator := pcx_loop false types noffspring.

  (* ================================================================ UNDX 556-616 *)
  (* for i in range(k-1):
         d = subtract(x[i], g)
         if not is_zero(d):
             dbar = magnitude(d)                               -- DVal, >= 0
             e = orthogonalize(d, e_zeta)
             if not is_zero(e): e_zeta.append(multiply(dbar, normalize(e)))   -- DVal (magnitude of e) *)
  Fixpoint undx_zeta (skip : bool) (g : qvec) (xs : list qvec) (e_zeta : list qvec) (t : tape)
    : res (list qvec * tape) :=
    match xs with
    | [] => Ok (e_zeta, t)
    | x :: r =>
        let d := vsub x g in
        if negb (is_zero d) then
          '(dbar, t1) <- get_nonneg t ;;
          e <- orthogonalize_gen skip d e_zeta ;;
          if negb (is_zero e) then
            '(ne, t2) <- normalize e t1 ;;
            undx_zeta skip g r (e_zeta ++ [vscale dbar ne]) t2
          else undx_zeta skip g r e_zeta t1
        else undx_zeta skip g r e_zeta t
    end.

  Fixpoint finite_all (l : list xq) : res qvec :=
    match l with
    | [] => Ok []
    | Fin q :: r => v <- finite_all r ;; Ok (q :: v)
    | _ :: _ => Err ETape
    end.

  (* for i in range(n - len(e_zeta)):
         d = random_vector(n)                                   -- n gauss draws
         if not is_zero(d):
             e = orthogonalize(d, e_eta)
             if not is_zero(e): e_eta.append(multiply(D, normalize(e))) *)
  Fixpoint undx_eta (skip : bool) (n : nat) (D : Q) (cnt : nat) (e_eta : list qvec) (t : tape)
    : res (list qvec * tape) :=
    match cnt with
    | O => Ok (e_eta, t)
    | S c =>
        '(gs, t1) <- get_gausses n t ;;
        d <- finite_all gs ;;
        if negb (is_zero d) then
          e <- orthogonalize_gen skip d e_eta ;;
          if negb (is_zero e) then
            '(ne, t2) <- normalize e t1 ;;
            undx_eta skip n D c (e_eta ++ [vscale D ne]) t2
          else undx_eta skip n D c e_eta t1
        else undx_eta skip n D c e_eta t1
    end.

  Definition undx_one (skip : bool) (types : list vtype) (fresh : nat) (ps : list sol) (t : tape)
    : res (sol * tape) :=
    let k := length ps in
    let n := length types in
    _ <- nth_res ps 0 ;;
    x <- qvecs_of ps ;;
    g <- centroid x n ;;
    '(e_zeta, t1) <- undx_zeta skip g (firstn (k - 1) x) [] t ;;
    xlast <- nth_res x (k - 1) ;;
    '(D, t2) <- get_nonneg t1 ;;                         (* D = magnitude(subtract(x[k-1], g)) *)
    '(e_eta, t3) <- undx_eta skip n D (n - length e_zeta) [] t2 ;;
    '(_, t4) <- get_gausses (length e_zeta) t3 ;;        (* for i in range(len(e_zeta)): gauss(0, zeta) *)
    '(_, t5) <- get_gausses (length e_eta - 1) t4 ;;     (* for i in range(1, len(e_eta)): gauss(0, eta/sqrt(n)) *)
    plast <- nth_res ps (k - 1) ;;
    '(vs, t6) <- clip_all types t5 ;;
    Ok (mk_child E P fresh plast vs true, t6).

  Fixpoint undx_loop (skip : bool) (types : list vtype) (noff : nat) (fresh : nat) (ps : list sol) (t : tape)
    : res (list sol * nat * tape) :=
    match noff with
    | O => Ok ([], fresh, t)
    | S m =>
        '(c, t1) <- undx_one skip types fresh ps t ;;
        '(cs, f, t2) <- undx_loop skip types m (S fresh) ps t1 ;;
        Ok (c :: cs, f, t2)
    end.

  Definition undx (noffspring : nat) (types : list vtype) : operator := undx_loop true types noffspring.
  Definition undx_old (noffspring : nat) (types : list vtype) : operator := undx_loop false types noffspring.

  (* ================================================================ SPX 641-678 *)
  (* G = centroid (sum / n);  expanded vertices: arithmetic only;
     for _ in range(noffspring):
         child = copy.deepcopy(parents[n-1])
         r = [math.pow(random.uniform(0.0, 1.0), 1.0/(i+1.0)) for i in range(n-1)]
         ...; for j in range(m): child.variables[j] = clip(x[n-1][j] + C[n-1][j], min, max)
         child.evaluated = False *)
  Fixpoint spx_loop (types : list vtype) (plast : sol) (n : nat) (noff : nat) (fresh : nat) (t : tape)
    : res (list sol * nat * tape) :=
    match noff with
    | O => Ok ([], fresh, t)
    | S m =>
        '(_, t1) <- get_unifs (n - 1) t ;;
        '(vs, t2) <- clip_all types t1 ;;
        '(cs, f, t3) <- spx_loop types plast n m (S fresh) t2 ;;
        Ok (mk_child E P fresh plast vs true :: cs, f, t3)
    end.

  Definition spx (noffspring : nat) (types : list vtype) : operator :=
    fun fresh ps t =>
      let n := length ps in
      _ <- nth_res ps 0 ;;
      x <- qvecs_of ps ;;
      _ <- centroid x (length types) ;;
      plast <- nth_res ps (n - 1) ;;
      spx_loop types plast n noffspring fresh t.
End RealOps.
