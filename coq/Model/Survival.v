(* Model/Survival.v — literal models of the survival-selection steps of platypus/algorithms.py
   and of the archive updates the algorithms perform at a step boundary.
   Executable definitions only (proofs are in Proofs/SurvivalProofs.v).

     GeneticAlgorithm.iterate       algorithms.py:195-208   ga_iterate
     EvolutionaryStrategy.iterate   algorithms.py:249-260   es_iterate
     NSGAII.iterate                 algorithms.py:322-336   nsga2_survive, nsga2_iterate_pareto, nsga2_iterate_eps
     EpsMOEA.iterate (archive part) algorithms.py:403-405   eps_offer
     GDE3.survival                  algorithms.py:461-474   gde3_select, gde3_survival
     SPEA2._assign_fitness          algorithms.py:533-565   strengths, raws, assign_fitness
     SPEA2._truncate                algorithms.py:567-582   spea2_truncate
     DistanceMatrix                 distance.py:93-166      dm_build, kth_distance, find_most_crowded, remove_point
     NSGAIII._reference_point_truncate  algorithms.py:897-982   nsga3_truncate (niche choices abstracted, see below)
     OMOPSO / CMAES archive update  algorithms.py:1213-1219, 1590   plain_offer, pareto_offer
     EpsNSGAII                      algorithms.py:1862-1895 = NSGAII with archive = EpsilonBoxArchive(epsilons)

   Built on the finished models: Dominance.v (pareto_compare), Archive.v (Archive.add and its bulk forms),
   NDSort.v (nondominated_sort, crowding_distance), Truncate.v (nondominated_truncate / split / prune),
   Epsilon.v (EpsilonDominance, EpsilonBoxArchive.add).

   Conventions.  Populations are lists of solutions with identity [sid].  The merge order is the code's:
   offspring FIRST, then the parents ([offspring.extend(self.population)], [offspring.append(self.fittest)]).
   Python exceptions are explicit ([None] / [Raised]); running out of fuel is a separate value [OutOfFuel]
   and is proved unreachable.

   Numbers.  Comparison-only steps (GA, ES, GDE3's pairwise stage, NSGA-III's whole-front part, SPEA2's
   strength / raw fitness, Pareto archives) are exact for arbitrary floats.  Crowding distance (NSGA-II, GDE3's
   pruning), the epsilon boxes and SPEA2's distances are exact rational arithmetic.  SPEA2's Euclidean distance
   is modelled by its SQUARE (no sqrt in Q): every use of a distance in the code is a comparison between two
   distances ([sorted], [<], [==]) or the density 1/(d_k + 2), which is strictly decreasing in d_k and lies in
   (0, 1/2]; so  fitness = raw + density  is compared as the pair (raw, d_k^2) and  fitness < 1.0  is  raw = 0. *)
From Coq Require Import ZArith QArith Bool List.
Import ListNotations.
From PV Require Import Base.Num Base.StableSort Model.Dominance Model.Archive Model.NDSort Model.Truncate Model.Epsilon.
Open Scope Z_scope.

(* result of a step that contains a [while] loop *)
Inductive res (A : Type) := Ok (a : A) | Raised | OutOfFuel.
Arguments Ok {A} _.
Arguments Raised {A}.
Arguments OutOfFuel {A}.

(* del l[k] for 0 <= k (the callers check k < len) *)
Fixpoint del_nth {A} (k : nat) (l : list A) : list A :=
  match l, k with
  | [], _ => []
  | _ :: r, O => r
  | a :: r, S k' => a :: del_nth k' r
  end.

(* ------------------------------------------------------------------------- *)
(* single-objective algorithms: generic in the solution type and comparator   *)
(* ------------------------------------------------------------------------- *)
Section SingleObjective.
  Variable T : Type.
  Variable cmp : T -> T -> Z.          (* self.comparator (a Dominance object; __call__ = compare) *)

  (* sorted(l, key=functools.cmp_to_key(self.comparator)) *)
  Definition sort_cmp (l : list T) : list T := ssort (cmp_key_lt cmp) l.

  (* GeneticAlgorithm.iterate after evaluate_all, algorithms.py:204-208
       offspring.append(self.fittest)
       offspring = sorted(offspring, key=cmp_to_key(self.comparator))
       self.population = offspring[:self.population_size]
       self.fittest = self.population[0]             (IndexError when the slice is empty = None)
     result: (population, fittest) *)
  Definition ga_iterate (offspring : list T) (fittest : T) (n : nat) : option (list T * T) :=
    let population := firstn n (sort_cmp (offspring ++ [fittest])) in
    match population with
    | [] => None
    | f :: _ => Some (population, f)
    end.

  (* GeneticAlgorithm.initialize, algorithms.py:192-193 *)
  Definition ga_initialize (population : list T) : option (list T * T) :=
    match sort_cmp population with
    | [] => None
    | f :: r => Some (f :: r, f)
    end.

  (* EvolutionaryStrategy.iterate after evaluate_all, algorithms.py:258-260
       offspring.extend(self.population); sorted(...); self.population = offspring[:self.population_size] *)
  Definition es_iterate (offspring population : list T) (n : nat) : list T :=
    firstn n (sort_cmp (offspring ++ population)).

  (* GDE3.survival, first stage, algorithms.py:462-471
       for i in range(self.population_size):
           flag = compare(offspring[i], self.population[i])
           if flag <= 0: next_population.append(offspring[i])
           if flag >= 0: next_population.append(self.population[i])
     (None = IndexError: one of the lists is shorter than population_size) *)
  Fixpoint gde3_select (n : nat) (offspring population : list T) : option (list T) :=
    match n with
    | O => Some []
    | S n' =>
        match offspring, population with
        | o :: os, p :: ps =>
            let flag := cmp o p in
            match gde3_select n' os ps with
            | None => None
            | Some rest => Some ((if flag <=? 0 then [o] else []) ++ (if flag >=? 0 then [p] else []) ++ rest)
            end
        | _, _ => None
        end
    end.
End SingleObjective.

Arguments sort_cmp {T} _ _.
Arguments ga_iterate {T} _ _ _ _.
Arguments ga_initialize {T} _ _.
Arguments es_iterate {T} _ _ _ _.
Arguments gde3_select {T} _ _ _ _.

(* ------------------------------------------------------------------------- *)
(* SPEA2: generic in the solution type, the comparator and the distance      *)
(* ------------------------------------------------------------------------- *)
(* fitness = raw + 1/(d_k + 2): the integer part and the SQUARED k-th nearest distance *)
Record fit := { f_raw : nat; f_dk2 : Q }.

(* s.fitness < 1.0   (the density is in (0, 1/2]) *)
Definition fit_lt1 (f : fit) : bool := Nat.eqb (f_raw f) 0.
(* a.fitness < b.fitness   (smaller raw, or equal raw and LARGER distance = smaller density) *)
Definition fit_lt (a b : fit) : bool :=
  Nat.ltb (f_raw a) (f_raw b) || (Nat.eqb (f_raw a) (f_raw b) && Qltb (f_dk2 b) (f_dk2 a)).

(* one row of DistanceMatrix.distances: [(j, distance)] sorted by distance *)
Definition drow := list (nat * Q).
Definition dlt (a b : nat * Q) : bool := Qltb (snd a) (snd b).

(* l[k] += v *)
Fixpoint add_at (k : nat) (v : nat) (l : list nat) : list nat :=
  match l, k with
  | [], _ => []
  | a :: r, O => (a + v)%nat :: r
  | a :: r, S k' => a :: add_at k' v r
  end.

Section SPEA2.
  Variable T : Type.
  Variable cmp : T -> T -> Z.               (* self.dominance.compare *)
  Variable dist2 : T -> T -> option Q.      (* euclidean_dist(x, y) ** 2 ; None = it raised *)

  (* keys = itertools.combinations(range(n), 2), each with the two solutions: (i, j, x_i, x_j), i < j,
     in itertools' (lexicographic) order *)
  Fixpoint pairs_with (i j : nat) (x : T) (r : list T) : list (nat * nat * T * T) :=
    match r with
    | [] => []
    | y :: r' => (i, j, x, y) :: pairs_with i (S j) x r'
    end.
  Fixpoint all_pairs (i : nat) (l : list T) : list (nat * nat * T * T) :=
    match l with
    | [] => []
    | x :: r => pairs_with i (S i) x r ++ all_pairs (S i) r
    end.
  (* zip(keys, flags),  flags = map(compare, [solutions[k[0]]...], [solutions[k[1]]...]) *)
  Definition flagged (l : list T) : list (nat * nat * Z) :=
    map (fun e => match e with (i, j, x, y) => (i, j, cmp x y) end) (all_pairs 0 l).

  (* for key, flag in zip(keys, flags):
         if flag < 0: strength[key[0]] += 1
         elif flag > 0: strength[key[1]] += 1 *)
  Definition strength_step (st : list nat) (e : nat * nat * Z) : list nat :=
    match e with (i, j, f) => if f <? 0 then add_at i 1 st else if f >? 0 then add_at j 1 st else st end.
  Definition strengths (l : list T) : list nat :=
    fold_left strength_step (flagged l) (repeat 0%nat (length l)).

  (* for key, flag in zip(keys, flags):
         if flag < 0: fitness[key[1]] += strength[key[0]]
         elif flag > 0: fitness[key[0]] += strength[key[1]] *)
  Definition raw_step (strength : list nat) (ft : list nat) (e : nat * nat * Z) : list nat :=
    match e with (i, j, f) =>
      if f <? 0 then add_at j (nth i strength 0%nat) ft
      else if f >? 0 then add_at i (nth j strength 0%nat) ft else ft end.
  Definition raws (l : list T) : list nat :=
    fold_left (raw_step (strengths l)) (flagged l) (repeat 0%nat (length l)).

  (* DistanceMatrix.__init__, distance.py:102-112
       for i: distances_i = [(j, distance_fun(solutions[i], solutions[j])) for j if i != j]
              self.distances.append(sorted(distances_i, key=lambda x: x[1])) *)
  Fixpoint row_of (i : nat) (x : T) (j : nat) (l : list T) : option drow :=
    match l with
    | [] => Some []
    | y :: r =>
        if Nat.eqb i j then row_of i x (S j) r
        else match dist2 x y, row_of i x (S j) r with
             | Some d, Some rest => Some ((j, d) :: rest)
             | _, _ => None
             end
    end.
  Fixpoint dm_rows (i : nat) (all : list T) (l : list T) : option (list drow) :=
    match l with
    | [] => Some []
    | x :: r =>
        match row_of i x 0 all, dm_rows (S i) all r with
        | Some row, Some rest => Some (ssort dlt row :: rest)
        | _, _ => None
        end
    end.
  Definition dm_build (l : list T) : option (list drow) := dm_rows 0 l l.

  (* DistanceMatrix.kth_distance: self.distances[i][k][1]   (None = IndexError) *)
  Definition kth_distance (dm : list drow) (i k : nat) : option Q :=
    match nth_error dm i with
    | None => None
    | Some row => option_map snd (nth_error row k)
    end.

  (* fitness[i] += 1.0 / (distanceMatrix.kth_distance(i, self.k) + 2.0); solutions[i].fitness = fitness[i] *)
  Fixpoint attach_fitness (dm : list drow) (k : nat) (i : nat) (l : list T) (rw : list nat) : option (list (T * fit)) :=
    match l, rw with
    | [], _ => Some []
    | x :: l', r :: rw' =>
        match kth_distance dm i k, attach_fitness dm k (S i) l' rw' with
        | Some d, Some rest => Some ((x, Build_fit r d) :: rest)
        | _, _ => None
        end
    | _ :: _, [] => None
    end.

  (* SPEA2._assign_fitness(solutions): the solutions with the fitness attribute written on them *)
  Definition assign_fitness (k : nat) (l : list T) : option (list (T * fit)) :=
    match dm_build l with
    | None => None
    | Some dm => attach_fitness dm k 0 l (raws l)
    end.

  (* the tie-break loop of find_most_crowded, distance.py:131-139
       for j in range(len(distances_i)):
           dist1 = distances_i[j][1]; dist2 = self.distances[minimum_index][j][1]
           if dist1 < dist2: minimum_index = i; break
           if dist2 < dist1: break
     Some true = minimum_index becomes i;  None = IndexError (the other row is shorter) *)
  Fixpoint closer (ri rm : drow) : option bool :=
    match ri with
    | [] => Some false
    | (_, d1) :: ri' =>
        match rm with
        | [] => None
        | (_, d2) :: rm' => if Qltb d1 d2 then Some true else if Qltb d2 d1 then Some false else closer ri' rm'
        end
    end.

  (* DistanceMatrix.find_most_crowded, distance.py:114-141.  minimum_index: None = -1.
     outer None = IndexError (an empty row; or minimum_index = -1 in the tie branch, which needs a distance
     equal to +inf and cannot happen with finite distances) *)
  Fixpoint fmc_loop (dm : list drow) (rows : list drow) (i : nat) (mind : xq) (mini : option nat)
    : option (option nat) :=
    match rows with
    | [] => Some mini
    | row :: rest =>
        match row with
        | [] => None
        | (_, d0) :: _ =>
            if xltb (Fin d0) mind then fmc_loop dm rest (S i) (Fin d0) (Some i)
            else if xeqb (Fin d0) mind then
              match mini with
              | None => None
              | Some m =>
                  match nth_error dm m with
                  | None => None
                  | Some rm =>
                      match closer row rm with
                      | None => None
                      | Some true => fmc_loop dm rest (S i) mind (Some i)
                      | Some false => fmc_loop dm rest (S i) mind mini
                      end
                  end
              end
            else fmc_loop dm rest (S i) mind mini
        end
    end.
  Definition find_most_crowded (dm : list drow) : option (option nat) := fmc_loop dm dm 0 PInf None.

  (* DistanceMatrix.remove_point(index), distance.py:143-154  (None = IndexError of [del self.distances[index]]) *)
  Definition remove_point (dm : list drow) (index : nat) : option (list drow) :=
    if Nat.ltb index (length dm) then
      Some (map (fun row : drow =>
                   map (fun e : nat * Q => (if Nat.ltb (fst e) index then fst e else (fst e - 1)%nat, snd e))
                       (filter (fun e : nat * Q => negb (Nat.eqb (fst e) index)) row))
                (del_nth index dm))
    else None.

  (* while len(survivors) > size:
         most_crowded = distanceMatrix.find_most_crowded()
         distanceMatrix.remove_point(most_crowded)
         del survivors[most_crowded] *)
  Fixpoint thin (fuel : nat) (survivors : list T) (dm : list drow) (size : nat) : res (list T) :=
    if Nat.ltb size (length survivors) then
      match fuel with
      | O => OutOfFuel
      | S fuel' =>
          match find_most_crowded dm with
          | Some (Some mc) =>
              match remove_point dm mc with
              | None => Raised
              | Some dm' =>
                  if Nat.ltb mc (length survivors) then thin fuel' (del_nth mc survivors) dm' size else Raised
              end
          | Some None => Raised          (* most_crowded = -1: del self.distances[-1] on an empty matrix *)
          | None => Raised
          end
      end
    else Ok survivors.

  (* SPEA2._truncate(solutions, size), algorithms.py:567-582 *)
  Definition spea2_truncate (sols : list (T * fit)) (size : nat) : res (list T) :=
    let survivors := filter (fun p => fit_lt1 (snd p)) sols in                (* s.fitness < 1.0 *)
    if Nat.ltb (length survivors) size then
      let remaining := filter (fun p => negb (fit_lt1 (snd p))) sols in       (* s.fitness >= 1.0 *)
      let remaining := ssort (fun a b : T * fit => fit_lt (snd a) (snd b)) remaining in   (* sorted(key=fitness_key) *)
      Ok (map fst (survivors ++ firstn (size - length survivors) remaining))
    else
      match dm_build (map fst survivors) with
      | None => Raised
      | Some dm => thin (length survivors) (map fst survivors) dm size
      end.

  (* SPEA2.iterate after evaluate_all, algorithms.py:600-602 *)
  Definition spea2_survive (k : nat) (offspring population : list T) (n : nat) : res (list T) :=
    match assign_fitness k (offspring ++ population) with
    | None => Raised
    | Some fs => spea2_truncate fs n
    end.
End SPEA2.

Arguments all_pairs {T} _ _.
Arguments flagged {T} _ _.
Arguments strengths {T} _ _.
Arguments raws {T} _ _.
Arguments dm_build {T} _ _.
Arguments assign_fitness {T} _ _ _ _.
Arguments thin {T} _ _ _ _.
Arguments spea2_truncate {T} _ _ _.
Arguments spea2_survive {T} _ _ _ _ _ _.

(* ------------------------------------------------------------------------- *)
(* the executable instance: solutions over xq, Pareto dominance               *)
(* ------------------------------------------------------------------------- *)

(* NSGAII.iterate after evaluate_all, algorithms.py:331-333
     offspring.extend(self.population); nondominated_sort(offspring)
     self.population = nondominated_truncate(offspring, self.population_size)
   None = nondominated_sort raised (non-finite objective in crowding_distance) *)
Definition nsga2_survive (c : bool) (dirs : list bool) (offspring population : list xsol) (n : nat)
  : option (list xsol) :=
  match x_nd_sort c dirs (offspring ++ population) with
  | None => None
  | Some ann => Some (map a_sol (nondominated_truncate ann n))
  end.

(* NSGAII(archive=Archive()).iterate: ... ; self.archive.extend(self.population)   algorithms.py:335-336
   result = (population, archive contents) *)
Definition nsga2_iterate_pareto (c : bool) (dirs : list bool) (offspring population : list xsol) (n : nat)
           (arch : list xsol) : option (list xsol * list xsol) :=
  match nsga2_survive c dirs offspring population n with
  | None => None
  | Some pop' => Some (pop', extend xsol (x_sol_cmp c dirs) arch pop')
  end.

(* a Solution as the epsilon comparator sees it (objectives must be finite) *)
Fixpoint fins (l : list xq) : option (list Q) :=
  match l with
  | [] => Some []
  | v :: r => match fin v, fins r with Some q, Some qs => Some (q :: qs) | _, _ => None end
  end.
Definition esol_of (x : xsol) : option esol :=
  match fins (s_objs x), fin (s_cv x) with
  | Some o, Some v => Some (ESol (sid x) o v)
  | _, _ => None
  end.

(* for s in solutions: archive.add(s)  on an EpsilonBoxArchive  (= += / extend / a loop of add) *)
Fixpoint eps_offer (cfg : ecfg) (st : list esol * nat) (l : list xsol) : option (list esol * nat) :=
  match l with
  | [] => Some st
  | x :: r =>
      match esol_of x with
      | None => None
      | Some e => match eps_box_add cfg st e with
                  | None => None
                  | Some (st', _) => eps_offer cfg st' r
                  end
      end
  end.

(* the same on Archive(EpsilonDominance(epsilons))   (OMOPSO, CMAES with epsilons) *)
Fixpoint plain_offer (cfg : ecfg) (a : list esol) (l : list xsol) : option (list esol) :=
  match l with
  | [] => Some a
  | x :: r =>
      match esol_of x with
      | None => None
      | Some e => match eps_plain_add cfg a e with
                  | None => None
                  | Some (a', _) => plain_offer cfg a' r
                  end
      end
  end.

(* archive += solutions on a plain Archive()   (CMAES without epsilons; NSGAII.initialize) *)
Definition pareto_offer (c : bool) (dirs : list bool) (a : list xsol) (l : list xsol) : list xsol :=
  iadd_list xsol (x_sol_cmp c dirs) a l.

(* EpsNSGAII.iterate = NSGAII.iterate with archive = EpsilonBoxArchive(epsilons) *)
Definition nsga2_iterate_eps (cfg : ecfg) (offspring population : list xsol) (n : nat)
           (st : list esol * nat) : option (list xsol * (list esol * nat)) :=
  match nsga2_survive (e_con cfg) (e_dirs cfg) offspring population n with
  | None => None
  | Some pop' => match eps_offer cfg st pop' with
                 | None => None
                 | Some st' => Some (pop', st')
                 end
  end.

(* GDE3.survival(offspring), algorithms.py:461-474:
     pairwise stage; nondominated_sort(next_population); nondominated_prune(next_population, population_size) *)
Definition gde3_survival (c : bool) (dirs : list bool) (offspring population : list xsol) (n : nat)
  : option (list xsol) :=
  match gde3_select (x_sol_cmp c dirs) n offspring population with
  | None => None
  | Some next =>
      match x_nd_sort c dirs next with
      | None => None
      | Some ann => option_map (map a_sol) (nondominated_prune (length dirs) ann n)
      end
  end.

(* euclidean_dist(x, y)**2 = sum((x[i]-y[i])**2 for i in range(len(x)))   distance.py:26-41
   None = y has fewer objectives (IndexError) or a non-finite value *)
Fixpoint sq_dist (a b : list xq) : option Q :=
  match a with
  | [] => Some 0%Q
  | u :: a' =>
      match b with
      | [] => None
      | v :: b' =>
          match fin u, fin v, sq_dist a' b' with
          | Some p, Some q, Some s => Some ((p - q) * (p - q) + s)%Q
          | _, _, _ => None
          end
      end
  end.
Definition x_dist2 (x y : xsol) : option Q := sq_dist (s_objs x) (s_objs y).

Definition x_spea2_survive (c : bool) (dirs : list bool) (k : nat) (offspring population : list xsol) (n : nat)
  : res (list xsol) :=
  spea2_survive (x_sol_cmp c dirs) x_dist2 k offspring population n.

(* NSGAIII._reference_point_truncate(solutions, size), algorithms.py:897-982.
   The normalisation, the association to reference points and the niche counts only decide WHICH members of
   the cut front are appended; each pass of the [while len(result) < size] loop either appends one solution
   taken (and removed) from potential_members = a partition of [remaining], or excludes a reference point.
   The model takes the sequence of appended solutions as [picks] (identities, in the order appended) and
   checks it against the loop's frame: every pick is a not-yet-picked member of [remaining], the loop stops
   exactly when len(result) = size.  Theorems quantify over ALL pick sequences. *)
Fixpoint take_sid (i : nat) (l : list asol) : option (asol * list asol) :=
  match l with
  | [] => None
  | a :: r => if Nat.eqb (sid (a_sol a)) i then Some (a, r)
              else match take_sid i r with
                   | None => None
                   | Some (b, r') => Some (b, a :: r')
                   end
  end.

Fixpoint nsga3_fill (result remaining : list asol) (size : nat) (picks : list nat) : option (list asol) :=
  match picks with
  | [] => if Nat.ltb (length result) size then None else Some result
  | i :: picks' =>
      if Nat.ltb (length result) size then
        match take_sid i remaining with
        | None => None
        | Some (s, remaining') => nsga3_fill (result ++ [s]) remaining' size picks'
        end
      else None
  end.

Definition nsga3_truncate (ann : list asol) (size : nat) (picks : list nat) : option (list asol) :=
  if Nat.ltb size (length ann) then
    match nondominated_split ann size with
    | None => None
    | Some (result, remaining) => nsga3_fill result remaining size picks
    end
  else match picks with [] => Some ann | _ :: _ => None end.

(* NSGAIII.iterate after evaluate_all, algorithms.py:999-1001 *)
Definition nsga3_survive (c : bool) (dirs : list bool) (offspring population : list xsol) (n : nat)
           (picks : list nat) : option (list xsol) :=
  match x_nd_sort c dirs (offspring ++ population) with
  | None => None
  | Some ann => option_map (map a_sol) (nsga3_truncate ann n picks)
  end.

(* GA / ES on the executable carrier *)
Definition x_ga_iterate (c : bool) (dirs : list bool) := ga_iterate (x_sol_cmp c dirs).
Definition x_es_iterate (c : bool) (dirs : list bool) := es_iterate (x_sol_cmp c dirs).
