(* Correspondence harness for C15: case record and checks run by vm_compute. *)
From Coq Require Import ZArith QArith Bool List.
Import ListNotations.
From PV Require Import Base.Num Model.Indicators Model.Hypervolume.
Open Scope Q_scope.

(* number of objectives, directions (true = MAXIMIZE), bounds (explicit minimum/maximum or
   a reference set), the set handed to calculate (sid, objectives, constraint violation;
   the same sid twice = the same object listed twice), and what the implementation did:
   the returned float (exact) or the exception *)
Record c15case := K15 { k_nobjs : nat; k_dirs : list bool;
                        k_bounds : (list Q * list Q) + list isol;
                        k_set : list isol; k_impl : res Q }.

Definition ierr_eqb (a b : ierr) : bool :=
  match a, b with
  | EEmptyRange, EEmptyRange | EValueEmpty, EValueEmpty | ENoneUnpack, ENoneUnpack
  | EIndex, EIndex | EAttr, EAttr | EFuel, EFuel => true
  | _, _ => false
  end.

Definition resq_eqb (a b : res Q) : bool :=
  match a, b with
  | Ok x, Ok y => Qeq_bool x y
  | Err e, Err e' => ierr_eqb e e'
  | _, _ => false
  end.

Definition c15_model (k : c15case) : res Q :=
  hv_indicator repaired (k_nobjs k) (k_dirs k) (k_bounds k) (k_set k).

(* correspondence: literal model = implementation *)
Definition c15_check (k : c15case) : bool := resq_eqb (c15_model k) (k_impl k).

(* the bounds the indicator object uses *)
Definition c15_bounds (k : c15case) : res (list Q * list Q) :=
  match k_bounds k with
  | inl b => Ok b
  | inr ref => do c <- ind_make (k_nobjs k) [] ref; Ok (i_min (fst c), i_max (fst c))
  end.

(* TEST (not a proof): whenever the model returns a value it is hv_spec of the points the
   English statement selects — evaluated on every correspondence case *)
Definition c15_spec_check (k : c15case) : bool :=
  match c15_model k, c15_bounds k with
  | Ok v, Ok (mins, maxs) => Qeq_bool v (hv_spec (k_nobjs k) (spec_points (k_dirs k) mins maxs (k_set k)))
  | Ok _, Err _ => false
  | Err _, _ => true
  end.

(* the pre-repair models, for the driver's sanity Examples *)
Definition c15_model_fl (fl : hv_flags) (k : c15case) : res Q :=
  hv_indicator fl (k_nobjs k) (k_dirs k) (k_bounds k) (k_set k).
