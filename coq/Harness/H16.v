(* Correspondence harness for C16: case records and checks run by vm_compute. *)
From Coq Require Import ZArith QArith Qabs Bool List.
Import ListNotations.
From PV Require Import Base.Num Model.Indicators.
Open Scope Q_scope.

Definition ierr_eqb (a b : ierr) : bool :=
  match a, b with
  | EEmptyRange, EEmptyRange | EValueEmpty, EValueEmpty | ENoneUnpack, ENoneUnpack
  | EIndex, EIndex | EAttr, EAttr | EFuel, EFuel => true
  | _, _ => false
  end.

Definition xval_eqb (a b : xval) : bool :=
  match a, b with XInf, XInf => true | XFin x, XFin y => Qeq_bool x y | _, _ => false end.

Fixpoint qlist_eqb (a b : list Q) : bool :=
  match a, b with
  | [], [] => true
  | x :: a', y :: b' => Qeq_bool x y && qlist_eqb a' b'
  | _, _ => false
  end.
Fixpoint rows_eqb (a b : list (list Q)) : bool :=
  match a, b with
  | [], [] => true
  | x :: a', y :: b' => qlist_eqb x y && rows_eqb a' b'
  | _, _ => false
  end.

(* THE ONLY TOLERANCE OF THE FRAMEWORK: the final sqrt/pow of GD, IGD and spacing is not
   modelled; the implementation's float v is accepted iff an exact algebraic relation
   between v and the exact rational ingredients holds up to 2^-40 relative to the scale *)
Definition tol : Q := 1 # 1099511627776.
Definition close (a b : Q) : bool :=
  Qle_bool (Qabs (a - b)) (tol * (if Qle_bool 1 (Qabs b) then Qabs b else 1)).

(* ---------- epsilon indicator: exact ---------- *)
Record c16eps := K16E { e_nobjs : nat; e_dirs : list bool; e_ref : list isol; e_set : list isol; e_impl : res xval }.
Definition c16_eps_check (k : c16eps) : bool :=
  match eps_indicator (e_nobjs k) (e_dirs k) (e_ref k) (e_set k), e_impl k with
  | Ok a, Ok b => xval_eqb a b
  | Err e, Err e' => ierr_eqb e e'
  | _, _ => false
  end.

(* ---------- GD / IGD ---------- *)
(* g_igd: false = GenerationalDistance, true = InvertedGenerationalDistance; g_p: the power d
   (1 or 2); g_rows: for every call of distance_to_nearest the arguments handed to math.sqrt
   (= all squared distances of that call, exact); g_rvals: the values distance_to_nearest
   returned; g_impl: the value of the indicator *)
Record c16gd := K16G { g_igd : bool; g_nobjs : nat; g_p : nat; g_ref : list isol; g_set : list isol;
                       g_rows : list (list Q); g_rvals : list Q; g_impl : res xval }.

Fixpoint all_close_sq (rs ts : list Q) : bool :=
  match rs, ts with
  | [], [] => true
  | r :: rs', t :: ts' => close (r * r) t && all_close_sq rs' ts'
  | _, _ => false
  end.

Definition c16_gd_check (k : c16gd) : bool :=
  let ing := if g_igd k then igd_indicator (g_nobjs k) (g_ref k) (g_set k) else gd_indicator (g_nobjs k) (g_ref k) (g_set k) in
  let rows := if g_igd k then igd_rows (g_nobjs k) (g_ref k) (g_set k) else gd_rows (g_nobjs k) (g_ref k) (g_set k) in
  match ing, g_impl k with
  | Err e, Err e' => ierr_eqb e e'
  | Ok IInf, Ok XInf => match rows with Ok rw => rows_eqb rw (g_rows k) | Err _ => false end
  | Ok (ITerms ts n), Ok (XFin v) =>
      match rows with
      | Ok rw =>
          rows_eqb rw (g_rows k)                                   (* every squared distance, exactly *)
          && all_close_sq (g_rvals k) ts                           (* each nearest distance r: r^2 = min of its row *)
          && (let vn := v * inject_Z (Z.of_nat n) in
              match g_p k with
              | 2%nat => close (vn * vn) (qsum ts)                 (* (GD * n)^2 = sum of squared nearest distances *)
              | 1%nat => close vn (qsum (g_rvals k))               (* GD * n = sum of the nearest distances *)
              | _ => false
              end)
      | Err _ => false
      end
  | _, _ => false
  end.

(* ---------- spacing ---------- *)
Record c16sp := K16S { p_set : list isol; p_rows : list Q; p_impl : res Q }.
Definition c16_sp_check (k : c16sp) : bool :=
  match spacing_calculate (p_set k), spacing_rows (p_set k), p_impl k with
  | Ok q, Ok rw, Ok v => qlist_eqb (concat rw) (p_rows k)          (* every L1 distance, exactly *)
                         && close (v * v) q                        (* spacing^2 = sum (d_i - mean)^2 / (n-1) *)
  | Err e, _, Err e' => ierr_eqb e e'
  | _, _, _ => false
  end.
