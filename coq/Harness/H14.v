(* Correspondence harness for C14: case records and boolean checks run by vm_compute.
   (a) operation sequences on a real AdaptiveGridArchive replayed on the model, the whole
       observable state compared after every operation;
   (b) population / swarm / leader / archive sizes logged at every step boundary of real
       algorithm runs, checked against the size clauses of the property. *)
From Coq Require Import ZArith QArith Bool List.
Import ListNotations.
From PV Require Import Base.Num Model.Dominance Model.GridArchive.
Open Scope Z_scope.

(* ---------- (a) grid archive ---------- *)
(* a float objective shipped exactly as m * 2^e *)
Definition mkq (p : Z * Z) : Q := dy (fst p) (snd p).
Definition gs (i : Z) (o : list (Z * Z)) (cv : xq) : gsol := GS (Z.to_nat i) (map mkq o) cv.
Definition gc (cap nobjs div : Z) (con : bool) (dirs : list bool) : gcfg :=
  GC (Z.to_nat cap) (Z.to_nat nobjs) (Z.to_nat div) con dirs.

(* OBulk l : a bulk entry point that inserts (append, extend, +=  with a list / generator / single
   solution / another archive, whose members at that moment are l): Archive.append/extend/__iadd__
   (core.py:1084-1105, 1132-1139) call self.add for each element in order, i.e. a fold of add; their
   own return value is not compared (observed as true). *)
Inductive gop := OAdd (s : gsol) | ORem (s : gsol) | OBulk (l : list gsol).

(* what the implementation showed after the operation: return value, ids of the members in
   order, minimum, maximum, the whole density table *)
Record gobs := GO { o_ret : bool; o_sids : list Z; o_min : list xq; o_max : list xq; o_dens : list Z }.

Record gcase := GK { k_cfg : gcfg; k_init : gobs; k_ops : list (gop * gobs) }.

Fixpoint list_eqb {A B} (f : A -> B -> bool) (l1 : list A) (l2 : list B) : bool :=
  match l1, l2 with
  | [], [] => true
  | a :: r1, b :: r2 => f a b && list_eqb f r1 r2
  | _, _ => false
  end.

Definition obs_match (a : garch) (r : bool) (o : gobs) : bool :=
  Bool.eqb r (o_ret o) &&
  list_eqb (fun s z => Z.of_nat (g_sid s) =? z) (a_cont a) (o_sids o) &&
  list_eqb xsame (a_min a) (o_min o) &&
  list_eqb xsame (a_max a) (o_max o) &&
  list_eqb (fun n z => Z.of_nat n =? z) (a_dens a) (o_dens o).

Definition g_apply (cfg : gcfg) (a : garch) (op : gop) : option (garch * bool) :=
  match op with
  | OAdd s => ga_add cfg a s
  | ORem s => ga_remove cfg a s
  | OBulk l => match ga_fold true cfg a l with Some a' => Some (a', true) | None => None end
  end.

Fixpoint g_steps (cfg : gcfg) (a : garch) (ops : list (gop * gobs)) : bool :=
  match ops with
  | [] => true
  | (op, o) :: r =>
    match g_apply cfg a op with
    | Some (a', b) => obs_match a' b o && g_steps cfg a' r
    | None => false
    end
  end.

Definition h14_grid_check (k : gcase) : bool :=
  match ga_init (k_cfg k) with
  | Some a0 => obs_match a0 true (k_init k) && g_steps (k_cfg k) a0 (k_ops k)
  | None => false
  end.

(* ---------- (b) sizes at step boundaries ---------- *)
(* z_kind: 0 = generational population (must equal the configured size)
           1 = GA (never above; equal when offspring_size >= population_size)
           2 = particle swarm (particles = swarm_size, leaders <= leader_size)
           3 = bounded grid archive of PAES / PESA2 (archive <= capacity)
   z_size: population_size / swarm_size / (unused);  z_aux: offspring_size / leader_size / capacity
   z_obs : per step (population or particle count, leader or archive count) *)
Record zcase := ZK { z_kind : Z; z_size : Z; z_aux : Z; z_obs : list (Z * Z) }.

Definition h14_size_check (k : zcase) : bool :=
  negb (length (z_obs k) =? 0)%nat && forallb (size_ok (z_kind k) (z_size k) (z_aux k)) (z_obs k).
