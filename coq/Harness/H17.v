(* Correspondence harness for C17: case type and check run by vm_compute.
   Every case carries the inputs and what the REAL platypus/types.py returned
   ([None] = the call raised); the check evaluates Model/Gray.v on the inputs. *)
From Coq Require Import ZArith Bool List.
Import ListNotations.
From PV Require Import Base.Num Model.Gray.
Open Scope Z_scope.

Fixpoint bits_eqb (a b : list bool) : bool :=
  match a, b with
  | [], [] => true
  | x :: a', y :: b' => Bool.eqb x y && bits_eqb a' b'
  | _, _ => false
  end.

Definition opt_eqb {A} (eq : A -> A -> bool) (a b : option A) : bool :=
  match a, b with
  | None, None => true
  | Some x, Some y => eq x y
  | _, _ => false
  end.

Fixpoint list_eqb {A} (eq : A -> A -> bool) (a b : list A) : bool :=
  match a, b with
  | [], [] => true
  | x :: a', y :: b' => eq x y && list_eqb eq a' b'
  | _, _ => false
  end.

(* all bit strings of length k in the order of itertools.product([False, True], repeat=k) *)
Fixpoint all_bits (k : nat) : list (list bool) :=
  match k with
  | O => [[]]
  | S k' => map (cons false) (all_bits k') ++ map (cons true) (all_bits k')
  end.

(* mn, mn+1, ..., mn+len-1 *)
Fixpoint zrange (mn : Z) (len : nat) : list Z :=
  match len with O => [] | S l => mn :: zrange (mn + 1) l end.

Inductive c17case :=
  (* Integer(mn,mx).nbits *)
| KNbits (mn mx : Z) (impl : option Z)
  (* Integer(mn,mx).encode(v) *)
| KEnc (mn mx v : Z) (impl : option (list bool))
  (* Integer(mn,mx).decode(bits) *)
| KDec (mn mx : Z) (bits : list bool) (impl : option Z)
  (* one range, exhaustively: nbits, [encode(v) for v in mn..mx], [decode(b) for b in product(..)] *)
| KRange (mn mx : Z) (nb : Z) (encs : list (list bool)) (decs : list Z)
  (* int2bin(n, k) *)
| KI2B (n k : Z) (impl : option (list bool))
| KB2I (bits : list bool) (impl : Z)
| KB2G (bits : list bool) (impl : list bool)
| KG2B (bits : list bool) (impl : option (list bool))
  (* every bit string of length k: bin2int, bin2gray, gray2bin in product order *)
| KConvAll (k : Z) (b2i : list Z) (b2g : list (list bool)) (g2b : list (option (list bool))).

Definition model_nbits (mn mx : Z) : option Z :=
  match integer_init mn mx with Some t => Some (Z.of_nat (i_nbits t)) | None => None end.

Definition model_enc (mn mx v : Z) : option (list bool) :=
  match integer_init mn mx with Some t => encode t v | None => None end.

Definition model_dec (mn mx : Z) (bits : list bool) : option Z :=
  match integer_init mn mx with Some t => decode t bits | None => None end.

Definition c17_check (c : c17case) : bool :=
  match c with
  | KNbits mn mx impl => opt_eqb Z.eqb (model_nbits mn mx) impl
  | KEnc mn mx v impl => opt_eqb bits_eqb (model_enc mn mx v) impl
  | KDec mn mx bits impl => opt_eqb Z.eqb (model_dec mn mx bits) impl
  | KRange mn mx nb encs decs =>
      match integer_init mn mx with
      | None => false
      | Some t =>
          Z.eqb (Z.of_nat (i_nbits t)) nb
          && list_eqb (opt_eqb bits_eqb)
               (map (encode t) (zrange mn (Z.to_nat (mx - mn + 1)))) (map Some encs)
          && list_eqb (opt_eqb Z.eqb)
               (map (decode t) (all_bits (Z.to_nat nb))) (map Some decs)
      end
  | KI2B n k impl => opt_eqb bits_eqb (int2bin n (Z.to_nat k)) impl
  | KB2I bits impl => Z.eqb (bin2int bits) impl
  | KB2G bits impl => bits_eqb (bin2gray bits) impl
  | KG2B bits impl => opt_eqb bits_eqb (gray2bin bits) impl
  | KConvAll k b2i b2g g2b =>
      let all := all_bits (Z.to_nat k) in
      list_eqb Z.eqb (map bin2int all) b2i
      && list_eqb bits_eqb (map bin2gray all) b2g
      && list_eqb (opt_eqb bits_eqb) (map gray2bin all) g2b
  end.
