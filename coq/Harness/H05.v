(* Correspondence harness for C05: case records and boolean checks run by vm_compute. *)
From Coq Require Import ZArith QArith Bool List.
Import ListNotations.
From PV Require Import Base.Num Model.Epsilon.
Open Scope Z_scope.

Definition oz_eqb (a b : option Z) : bool :=
  match a, b with Some x, Some y => x =? y | None, None => true | _, _ => false end.
Definition ob_eqb (a b : option bool) : bool :=
  match a, b with Some x, Some y => Bool.eqb x y | None, None => true | _, _ => false end.
Fixpoint natlist_eqb (a b : list nat) : bool :=
  match a, b with
  | x :: r, y :: s => Nat.eqb x y && natlist_eqb r s
  | [], [] => true
  | _, _ => false
  end.

(* ---- direct pair cases: EpsilonDominance(eps).compare(a, b) and .same_box(a, b);
        None = the implementation raised (IndexError / ZeroDivisionError) ---- *)
Record c05pair := C5P { p_cfg : ecfg; p_a : esol; p_b : esol; p_cmp : option Z; p_sb : option bool }.

Definition c05_pair_check (k : c05pair) : bool :=
  oz_eqb (eps_compare (p_cfg k) (p_a k) (p_b k)) (p_cmp k) &&
  ob_eqb (same_box (p_cfg k) (p_a k) (p_b k)) (p_sb k).

(* ---- operation sequences: after every add the implementation's return value, the sids of
        _contents in order, and improvements (0 for the plain Archive) ---- *)
Record c05obs := C5O { o_ret : bool; o_sids : list nat; o_imp : nat }.
(* s_box = true : EpsilonBoxArchive(eps);  false : Archive(EpsilonDominance(eps)) *)
Record c05seq := C5S { s_cfg : ecfg; s_box : bool; s_ops : list esol; s_obs : list c05obs }.

Fixpoint box_steps (c : ecfg) (st : list esol * nat) (ops : list esol) (obs : list c05obs) : bool :=
  match ops, obs with
  | [], [] => true
  | s :: ops', o :: obs' =>
      match eps_box_add c st s with
      | Some (st', ret) =>
          Bool.eqb ret (o_ret o) && natlist_eqb (map e_sid (fst st')) (o_sids o) &&
          Nat.eqb (snd st') (o_imp o) && box_steps c st' ops' obs'
      | None => false
      end
  | _, _ => false
  end.

Fixpoint plain_steps (c : ecfg) (a : list esol) (ops : list esol) (obs : list c05obs) : bool :=
  match ops, obs with
  | [], [] => true
  | s :: ops', o :: obs' =>
      match eps_plain_add c a s with
      | Some (a', ret) =>
          Bool.eqb ret (o_ret o) && natlist_eqb (map e_sid a') (o_sids o) && plain_steps c a' ops' obs'
      | None => false
      end
  | _, _ => false
  end.

Definition c05_seq_check (k : c05seq) : bool :=
  if s_box k then box_steps (s_cfg k) ([], 0%nat) (s_ops k) (s_obs k)
  else plain_steps (s_cfg k) [] (s_ops k) (s_obs k).
