(* Correspondence harness for C09: ONE step of a real algorithm run (the population before the step, the
   evaluated offspring batch, the population after the step and, when the algorithm keeps one, the archive
   before / after), replayed on the step models of Model/Survival.v by vm_compute. *)
From Coq Require Import ZArith QArith Bool List.
Import ListNotations.
From PV Require Import Base.Num Model.Dominance Model.Archive Model.NDSort Model.Truncate Model.Epsilon
     Model.Survival Harness.H03.
Open Scope Z_scope.

(* k9_alg   0 NSGAII (k9_arch: Pareto archive, if any)   1 EpsNSGAII (k9_arch: EpsilonBoxArchive)
            2 NSGAIII (k9_aux = picks)   3 SPEA2 (k9_aux = [k])   4 GDE3   5 GA (k9_par = [fittest])   6 ES
            7 archive only: EpsilonBoxArchive offered k9_off (EpsMOEA children; initial populations)
            8 archive only: Archive(EpsilonDominance) offered k9_off (OMOPSO particles, CMAES population)
            9 archive only: Archive() offered k9_off by "+="  (CMAES without epsilons; NSGAII.initialize)
            10 GeneticAlgorithm.initialize: k9_off = the generated population, k9_surv = the sorted one
   k9_pool  the solution objects of the step, object number i (its identity) at position i: (objectives, violation)
   k9_par / k9_off / k9_surv   identities: population before, offspring batch (in order), population after
   k9_arch  (archive contents before, after) as identities *)
Record c09case := C9 { k9_alg : nat; k9_con : bool; k9_dirs : list bool;
                       k9_pool : list (list xq * xq);
                       k9_n : nat;
                       k9_par : list nat; k9_off : list nat; k9_surv : list nat;
                       k9_aux : list nat;
                       k9_eps : list Q;
                       k9_arch : option (list nat * list nat) }.

Definition sids (l : list xsol) : list nat := map sid l.

Fixpoint h_esols (l : list xsol) : option (list esol) :=
  match l with
  | [] => Some []
  | x :: r => match esol_of x, h_esols r with Some e, Some es => Some (e :: es) | _, _ => None end
  end.

(* Pareto archive: [bulk_extend] = archive.extend(l) (NSGAII.iterate), otherwise archive += l *)
Definition pareto_arch_ok (c : bool) (dirs : list bool) (pool : list xsol) (offeredl : list xsol)
           (arch : option (list nat * list nat)) (bulk_extend : bool) : bool :=
  match arch with
  | None => true
  | Some (a0, a1) =>
      match get_all pool a0 with
      | None => false
      | Some arch0 =>
          nats_eqb (sids (if bulk_extend then extend xsol (x_sol_cmp c dirs) arch0 offeredl
                          else pareto_offer c dirs arch0 offeredl)) a1
      end
  end.

Definition eps_arch_ok (cfg : ecfg) (pool : list xsol) (offeredl : list xsol)
           (arch : option (list nat * list nat)) (box : bool) : bool :=
  match arch with
  | None => false
  | Some (a0, a1) =>
      match get_all pool a0 with
      | None => false
      | Some arch0x =>
          match h_esols arch0x with
          | None => false
          | Some arch0 =>
              if box then
                match eps_offer cfg (arch0, 0%nat) offeredl with
                | Some (a', _) => nats_eqb (map e_sid a') a1
                | None => false
                end
              else
                match plain_offer cfg arch0 offeredl with
                | Some a' => nats_eqb (map e_sid a') a1
                | None => false
                end
          end
      end
  end.

Definition c09_check (k : c09case) : bool :=
  let pool := mk_pool 0 (k9_pool k) in
  let c := k9_con k in
  let dirs := k9_dirs k in
  let n := k9_n k in
  let cfg := ECfg (k9_eps k) dirs c in
  match get_all pool (k9_par k), get_all pool (k9_off k) with
  | Some par, Some off =>
      match k9_alg k with
      | 0%nat =>
          match nsga2_survive c dirs off par n with
          | Some s => nats_eqb (sids s) (k9_surv k) && pareto_arch_ok c dirs pool s (k9_arch k) true
          | None => false
          end
      | 1%nat =>
          match nsga2_survive c dirs off par n with
          | Some s => nats_eqb (sids s) (k9_surv k) && eps_arch_ok cfg pool s (k9_arch k) true
          | None => false
          end
      | 2%nat =>
          match nsga3_survive c dirs off par n (k9_aux k) with
          | Some s => nats_eqb (sids s) (k9_surv k)
          | None => false
          end
      | 3%nat =>
          match x_spea2_survive c dirs (hd 1%nat (k9_aux k)) off par n with
          | Ok s => nats_eqb (sids s) (k9_surv k)
          | _ => false
          end
      | 4%nat =>
          match gde3_survival c dirs off par n with
          | Some s => nats_eqb (sids s) (k9_surv k)
          | None => false
          end
      | 5%nat =>
          match par with
          | [fittest] =>
              match x_ga_iterate c dirs off fittest n with
              | Some (pop, f) => nats_eqb (sids pop) (k9_surv k) && nats_eqb [sid f] (firstn 1 (k9_surv k))
              | None => false
              end
          | _ => false
          end
      | 6%nat => nats_eqb (sids (x_es_iterate c dirs off par n)) (k9_surv k)
      | 7%nat => eps_arch_ok cfg pool off (k9_arch k) true
      | 8%nat => eps_arch_ok cfg pool off (k9_arch k) false
      | 9%nat => match k9_arch k with None => false | Some _ => pareto_arch_ok c dirs pool off (k9_arch k) false end
      | 10%nat =>
          match ga_initialize (x_sol_cmp c dirs) off with
          | Some (pop, f) => nats_eqb (sids pop) (k9_surv k) && nats_eqb [sid f] (firstn 1 (k9_surv k))
          | None => false
          end
      | _ => false
      end
  | _, _ => false
  end.
