(* Correspondence harness for C02: case type and check run by vm_compute. *)
From Coq Require Import ZArith Bool List.
Import ListNotations.
From PV Require Import Base.Num Model.Dominance.
Open Scope Z_scope.

(* constrained?, directions (true = MAXIMIZE), (objectives, violation) x 2, result of the implementation *)
Record c02case := C2 { k_con : bool; k_dirs : list bool;
                       k_o1 : list xq; k_c1 : xq; k_o2 : list xq; k_c2 : xq; k_impl : Z }.

Definition c02_model (k : c02case) : Z :=
  x_pareto_compare (k_con k) (k_dirs k) (Build_dsol (k_o1 k) (k_c1 k)) (Build_dsol (k_o2 k) (k_c2 k)).

Definition c02_check (k : c02case) : bool := Z.eqb (c02_model k) (k_impl k).
